"""Shared by the argv-parser checks (C07, C18, C01): signature-set generator,
construction of real @task functions / Collection / Parser, token alphabets,
canonical observations and the Coq printers for contexts and results.

A *signature set* (JSON-able):
  {"tasks": [{"name": str, "aliases": [str], "coll": None | "sub", "default": bool,
              "params": [[pyname, DEFAULT], ...],
              "positional": None | [pyname], "optional": [pyname], "iterable": [pyname],
              "incrementable": [pyname], "auto_shortflags": bool}, ...]}
  DEFAULT = {"k": "empty"} | {"k": "none"} | {"k": "str"|"int"|"bool"|"list", "v": ...}
"""
import json
import signal

from . import coqterm as ct

# --------------------------------------------------------------------------
# building the real objects
# --------------------------------------------------------------------------
_cache = {}


def default_src(d):
    k = d["k"]
    if k == "empty":
        return None
    if k == "none":
        return "None"
    return repr(d["v"])


def build_collection(sigs):
    """Real Collection made of real @task functions created with exec."""
    from invoke import Collection, task
    root = Collection()
    subs = {}
    for t in sigs["tasks"]:
        params = ["c"]
        for pname, d in t["params"]:
            src = default_src(d)
            params.append(pname if src is None else "%s=%s" % (pname, src))
        code = "def _body(%s):\n    return None\n" % ", ".join(params)
        ns = {}
        exec(code, ns)
        kwargs = dict(name=t["name"], aliases=tuple(t.get("aliases", ())),
                      optional=tuple(t.get("optional", ())),
                      iterable=tuple(t.get("iterable", ())),
                      incrementable=tuple(t.get("incrementable", ())),
                      auto_shortflags=t.get("auto_shortflags", True))
        if t.get("positional") is not None:
            kwargs["positional"] = tuple(t["positional"])
        tk = task(**kwargs)(ns["_body"])
        cname = t.get("coll")
        if cname:
            if cname not in subs:
                subs[cname] = Collection(cname)
            subs[cname].add_task(tk, default=bool(t.get("default")))
        else:
            root.add_task(tk)
    for cname, sub in subs.items():
        root.add_collection(sub)
    return root


def contexts_of(sigs):
    """list of real ParserContext, or raises (invalid signature set)."""
    return build_collection(sigs).to_contexts()


def sig_key(sigs):
    return json.dumps(sigs, sort_keys=True)


def ctx_specs(sigs):
    """JSON description of the real contexts (cached): the *input* of the
    parser model.  Raises if the signature set is rejected by invoke."""
    k = sig_key(sigs)
    if k not in _cache:
        _cache[k] = [spec_of_ctx(c) for c in contexts_of(sigs)]
    return _cache[k]


KINDS = {str: "KStr", int: "KInt", bool: "KBool", list: "KList"}


def spec_of_arg(a):
    if a.kind not in KINDS:
        raise ValueError("kind not modelled: %r" % (a.kind,))
    return {"names": list(a.names), "kind": KINDS[a.kind], "default": a.default,
            "positional": bool(a.positional), "optional": bool(a.optional),
            "incrementable": bool(a.incrementable), "attr_name": a.attr_name}


def spec_of_ctx(c):
    return {"name": c.name, "aliases": list(c.aliases),
            "args": [spec_of_arg(a) for a in c.args.values()]}


SMALL_INITIAL = [
    dict(names=("timeout", "T"), kind=int),
    dict(names=("echo", "e"), kind=bool, default=False),
    dict(names=("help", "h"), optional=True),
    dict(names=("config", "f")),
    dict(names=("color",), kind=bool, default=True),
    dict(names=("verbose", "v"), kind=int, default=0, incrementable=True),
    dict(names=("include", "I"), kind=list),
]


def initial_context(which):
    from invoke import Program
    from invoke.parser import Argument, ParserContext
    if which == "none":
        return None
    if which == "core":
        return Program().initial_context
    if which == "corens":      # bundled-namespace mode: no task_args
        return ParserContext(args=Program().core_args())
    if which == "small":
        return ParserContext(args=[Argument(**kw) for kw in SMALL_INITIAL])
    raise ValueError(which)


_init_spec_cache = {}


def initial_spec(which):
    if which == "none":
        return None
    if which not in _init_spec_cache:
        _init_spec_cache[which] = spec_of_ctx(initial_context(which))
    return _init_spec_cache[which]


# --------------------------------------------------------------------------
# running the real parser
# --------------------------------------------------------------------------
class _Timeout(Exception):
    pass


def _alarm(signum, frame):
    raise _Timeout()


def with_timeout(fn, seconds=10):
    old = signal.signal(signal.SIGALRM, _alarm)
    signal.alarm(seconds)
    try:
        return fn()
    except _Timeout:
        return {"err": "Timeout"}
    finally:
        signal.alarm(0)
        signal.signal(signal.SIGALRM, old)


def canon_val(v):
    if v is None or isinstance(v, (bool, int, str)):
        return v
    if isinstance(v, list):
        return {"list": [x if isinstance(x, str) else repr(x) for x in v]}
    return {"other": type(v).__name__}


def canon_result(res):
    return {"ctxs": [[c.name, [[k, canon_val(v)] for k, v in c.as_kwargs.items()]] for c in res],
            "unparsed": list(res.unparsed), "remainder": res.remainder}


def make_parser(sigs, initial="core", ignore_unknown=False):
    from invoke.parser import Parser
    return Parser(contexts=contexts_of(sigs), initial=initial_context(initial),
                  ignore_unknown=ignore_unknown)


def run_parse(sigs, argv, initial="core", ignore_unknown=False):
    def go():
        try:
            parser = make_parser(sigs, initial, ignore_unknown)
            res = parser.parse_argv(list(argv))
        except _Timeout:
            raise
        except BaseException as e:  # noqa
            return {"err": type(e).__name__}
        return {"ok": canon_result(res)}
    return with_timeout(go)


def snapshot_parser(parser):
    """Deep, identity-free dump of everything a parse could touch."""
    def arg(a):
        return [list(a.names), getattr(a.kind, "__name__", str(a.kind)), repr(a.default),
                repr(a.raw_value), repr(a._value), a.positional, a.optional, a.incrementable,
                a.attr_name]

    def ctx(c):
        if c is None:
            return None
        return [c.name, list(c.aliases), [[k, arg(a)] for k, a in c.args.items()],
                sorted(c.args.aliases.items()), [arg(a) for a in c.positional_args],
                [[k, arg(a)] for k, a in c.flags.items()], sorted(c.flags.aliases.items()),
                sorted(c.inverse_flags.items())]
    return json.dumps([ctx(parser.initial), [[k, ctx(c)] for k, c in parser.contexts.items()],
                       sorted(parser.contexts.aliases.items()), parser.ignore_unknown])


# --------------------------------------------------------------------------
# Coq printers
# --------------------------------------------------------------------------
def aval(v):
    if v is None:
        return "ANone"
    if v is True or v is False:
        return "(ABool %s)" % ct.b(v)
    if isinstance(v, int):
        return "(AInt %s)" % ct.z(v)
    if isinstance(v, str):
        return "(AStr %s)" % ct.s(v)
    if isinstance(v, dict) and "list" in v:
        return "(AList %s)" % ct.strs(v["list"])
    if isinstance(v, list):
        return "(AList %s)" % ct.strs([x if isinstance(x, str) else repr(x) for x in v])
    return '(AStr "<unmodelled>")'


def argspec(a):
    return "(mkArg %s %s %s %s %s %s %s)" % (
        ct.strs(a["names"]), a["kind"], aval(a["default"]), ct.b(a["positional"]),
        ct.b(a["optional"]), ct.b(a["incrementable"]),
        ct.opt(None if a["attr_name"] is None else ct.s(a["attr_name"])))


def ctxspec(c):
    return "(mkCtx %s %s %s)" % (ct.opt(None if c["name"] is None else ct.s(c["name"])),
                                 ct.strs(c["aliases"]), ct.lst([argspec(a) for a in c["args"]]))


def initsel(which):
    return {"none": "INone", "core": "ICore", "corens": "ICoreNs", "small": "ISmall"}[which]


def kwargs(kw):
    return ct.lst([ct.pair(ct.s(k), aval(v)) for k, v in kw])


def pobs(o):
    """observed ParseResult -> Coq [pobs]"""
    ctxs = ct.lst([ct.pair(ct.opt(None if n is None else ct.s(n)), kwargs(kw)) for n, kw in o["ctxs"]])
    return "(mkObs %s %s %s)" % (ctxs, ct.strs(o["unparsed"]), ct.s(o["remainder"]))


# --------------------------------------------------------------------------
# generators
# --------------------------------------------------------------------------
TASK_NAMES = ["build", "b", "test", "t", "deploy", "my_task", "a", "x", "clean", "e", "ab", "n"]
PARAM_NAMES = ["name", "num", "n", "v", "verbose", "val", "a_b", "a", "ab", "x", "flag", "lst",
               "opt", "echo", "e", "dry", "f", "T", "c", "my_opt", "b", "abc", "no_x", "h",
               "config", "l", "list", "w", "p"]
STR_VALUES = ["abc", "x", "", "5", "a b", "val", "-5", "meh"]


def gen_default(rng):
    r = rng.random()
    if r < 0.18:
        return {"k": "empty"}
    if r < 0.34:
        return {"k": "none"}
    if r < 0.50:
        return {"k": "str", "v": rng.choice(["dflt", "", "x"])}
    if r < 0.64:
        return {"k": "int", "v": rng.choice([0, 1, 5, -2])}
    if r < 0.76:
        return {"k": "bool", "v": False}
    if r < 0.88:
        return {"k": "bool", "v": True}
    return {"k": "list", "v": rng.choice([[], ["p"]])}


def gen_task(rng, name, max_params=5):
    nparams = rng.choice([0, 1, 1, 2, 2, 3, 3, 4, max_params])
    names = rng.sample(PARAM_NAMES, nparams)
    params = []
    seen_default = False
    for pn in names:
        d = gen_default(rng)
        # python syntax: no non-default parameter after a default one
        if seen_default and d["k"] == "empty":
            d = {"k": "none"}
        if d["k"] != "empty":
            seen_default = True
        params.append([pn, d])
    t = {"name": name, "aliases": [], "coll": None, "default": False, "params": params,
         "positional": None, "optional": [], "iterable": [], "incrementable": [],
         "auto_shortflags": rng.random() < 0.8}
    for pn, d in params:
        r = rng.random()
        if d["k"] in ("none", "str", "bool") and r < 0.22:
            t["optional"].append(pn)
        elif d["k"] in ("none", "empty") and r < 0.40:
            t["iterable"].append(pn)
        elif d["k"] == "int" and r < 0.5:
            t["incrementable"].append(pn)
        elif d["k"] == "bool" and d["v"] is False and r < 0.3:
            t["incrementable"].append(pn)
    r = rng.random()
    if r < 0.2:
        t["positional"] = []
    elif r < 0.35 and names:
        t["positional"] = rng.sample(names, rng.randint(1, min(2, len(names))))
    return t


def gen_sigs(rng, max_tasks=4, max_params=5):
    """a signature set accepted by invoke (retries until to_contexts() works)"""
    for _ in range(200):
        ntasks = rng.choice([1, 1, 2, 2, 3, max_tasks])
        names = rng.sample(TASK_NAMES, ntasks)
        tasks = [gen_task(rng, nm, max_params) for nm in names]
        pool = [x for x in TASK_NAMES + ["bb", "tt"] if x not in names]
        for t in tasks:
            if rng.random() < 0.3 and pool:
                al = rng.choice(pool)
                pool.remove(al)
                t["aliases"] = [al]
        if ntasks >= 2 and rng.random() < 0.25:
            tasks[-1]["coll"] = "sub"
            tasks[-1]["default"] = rng.random() < 0.5
        sigs = {"tasks": tasks}
        try:
            ctx_specs(sigs)
        except Exception:
            _cache.pop(sig_key(sigs), None)
            continue
        return sigs
    raise RuntimeError("could not generate a valid signature set")


def flag_spellings(spec):
    """every flag / inverse flag spelling of a context spec, with its argspec"""
    from invoke.parser.context import to_flag
    out = []
    for a in spec["args"]:
        for nm in a["names"]:
            out.append((to_flag(nm), a, False))
        if a["kind"] == "KBool" and a["default"] is True:
            out.append((to_flag("no-" + a["names"][0]), a, True))
    return out


def alphabet(specs, init_spec, rng=None):
    """token alphabet derived from the contexts (DESIGN 4, C07)"""
    toks = []
    names = []
    for c in specs:
        names.append(c["name"])
        names.extend(c["aliases"])
    toks.extend(names)
    values = ["abc", "5", "-5", "x", "007", "a b", "+3", "1.5"] + names[:2]
    toks.extend(values)
    shorts = []
    for c in specs + ([init_spec] if init_spec else []):
        core = c is init_spec
        sp = flag_spellings(c)
        if core and len(sp) > 12:
            keep = {"-T", "--command-timeout", "-e", "--echo", "-f", "--config", "-h", "--help",
                    "-l", "--list", "-d", "--no-dedupe", "-D", "--hide", "-c", "-w"}
            sp = [x for x in sp if x[0] in keep]
        for fl, a, inv in sp:
            toks.append(fl)
            if not fl.startswith("--"):
                shorts.append(fl[1])
            tv = a["kind"] != "KBool" and not a["incrementable"]
            toks.append(fl + "=" + ("5" if a["kind"] == "KInt" else "v"))
            if tv or (rng and rng.random() < 0.3):
                toks.append(fl + "=")
                toks.append(fl + "=abc")
            if not fl.startswith("--"):
                toks.append(fl + "5")
                toks.append(fl + "abc")
                toks.append(fl + fl[1] + fl[1])
    for i, x in enumerate(shorts):
        for y in shorts[i + 1:i + 3]:
            toks.append("-" + x + y)
            toks.append("-" + y + x)
    if len(shorts) >= 3:
        toks.append("-" + "".join(shorts[:3]))
    toks.extend(["--nope", "-z", "-zq", "--nope=1", "-", "--", "", "---", "-=", "--=x", "-a-",
                 "-x=--", "--no-nope"])
    seen, out = set(), []
    for t in toks:
        if t not in seen:
            seen.add(t)
            out.append(t)
    return out


def spell_line(rng, specs, init_spec):
    """a mostly well-formed command line: task names followed by some of their
    arguments in random documented spellings, core flags sprinkled in."""
    argv = []

    def spell_arg(a, fl, inv):
        tv = a["kind"] != "KBool" and not a["incrementable"]
        if not tv:
            if a["incrementable"] and rng.random() < 0.4 and not fl.startswith("--"):
                return ["-" + fl[1] * rng.randint(2, 3)]
            return [fl]
        val = rng.choice(["5", "-3", "42"] if a["kind"] == "KInt" and rng.random() < 0.85
                         else ["abc", "x", "5", "v1", "a b", "-q", "", "build", "t"])
        if a["optional"] and rng.random() < 0.4:
            return [fl]
        r = rng.random()
        if r < 0.45:
            return [fl, val]
        if r < 0.75:
            return [fl + "=" + val]
        if not fl.startswith("--"):
            return [fl + val]
        return [fl, val]

    def core_bits():
        if init_spec and rng.random() < 0.25:
            sp = flag_spellings(init_spec)
            fl, a, inv = rng.choice(sp)
            return spell_arg(a, fl, inv)
        return []

    argv += core_bits()
    for _ in range(rng.choice([1, 1, 1, 2, 2, 3])):
        if not specs:
            break
        c = rng.choice(specs)
        argv.append(rng.choice([c["name"]] + c["aliases"]))
        sp = flag_spellings(c)
        pos = [a for a in c["args"] if a["positional"] and a["default"] is None]
        pending_pos = list(pos)
        k = rng.randint(0, min(4, len(sp)))
        chosen = [rng.choice(sp) for _ in range(k)]
        bools = [x for x in chosen if not x[0].startswith("--") and
                 (x[1]["kind"] == "KBool" or x[1]["incrementable"])]
        if len(bools) >= 2 and rng.random() < 0.5:
            argv.append("-" + "".join(x[0][1] for x in bools))
            chosen = [x for x in chosen if x not in bools]
        for fl, a, inv in chosen:
            if pending_pos and rng.random() < 0.5:
                p = pending_pos.pop(0)
                argv.append(rng.choice(["5", "abc", "x"] if p["kind"] != "KInt" else ["5", "7"]))
            if a in pending_pos:
                pending_pos.remove(a)
            argv += spell_arg(a, fl, inv)
            argv += core_bits()
        for p in pending_pos:
            if rng.random() < 0.85:
                argv.append(rng.choice(["5", "abc", "x"] if p["kind"] != "KInt" else ["5", "7"]))
    if rng.random() < 0.12:
        argv += ["--"] + [rng.choice(["foo", "--bar", "--", "a b", ""]) for _ in range(rng.randint(0, 3))]
    return argv


def mutate_line(rng, argv, alpha):
    argv = list(argv)
    for _ in range(rng.choice([0, 1, 1, 2])):
        r = rng.random()
        if r < 0.3 and argv:
            del argv[rng.randrange(len(argv))]
        elif r < 0.55:
            argv.insert(rng.randint(0, len(argv)), rng.choice(alpha))
        elif r < 0.75 and argv:
            argv[rng.randrange(len(argv))] = rng.choice(alpha)
        elif r < 0.9 and len(argv) >= 2:
            i = rng.randrange(len(argv) - 1)
            argv[i], argv[i + 1] = argv[i + 1], argv[i]
        elif argv:
            i = rng.randrange(len(argv))
            argv.insert(i, argv[i])
    return argv


FUZZ_CHARS = "-=abnvT5e x"


def fuzz_token(rng):
    return "".join(rng.choice(FUZZ_CHARS) for _ in range(rng.randint(0, 6))).strip(" ") or "-"


def int_unsafe(tok):
    """strings Python's int() accepts but the model's parse_int does not
    (whitespace padding, underscores): never generated."""
    for cand in (tok, tok.partition("=")[2], tok[2:]):
        s = cand
        if s != s.strip() and s.strip().lstrip("+-").isdigit():
            return True
        if "_" in s:
            try:
                int(s)
                return True
            except ValueError:
                pass
    return False


# --------------------------------------------------------------------------
# independent re-statement of the naming rule (does not import invoke)
# --------------------------------------------------------------------------
def to_flag_py(name):
    n = name.lstrip("_").rstrip("_").replace("_", "-")
    return ("-" if len(n) == 1 else "--") + n


def spellings_of_arg(a):
    return [to_flag_py(n) for n in a["names"]]


def arg_of_flag(spec, tok):
    for a in spec["args"]:
        if tok in spellings_of_arg(a):
            return a
    return None


def takes_value(a):
    return a["kind"] != "KBool" and not a["incrementable"]


def body_of(argv):
    return argv[:argv.index("--")] if "--" in argv else list(argv)


def spec_by_name(specs, init_spec, name):
    if name is None:
        return init_spec
    for c in specs:
        if c["name"] == name:
            return c
    return None


def has_digit_hazard(tok):
    """tokens on which Python's int() and the model's parse_int could differ
    (whitespace or underscore next to digits): never generated."""
    return any(ch.isdigit() for ch in tok) and any(ch in " \t_" for ch in tok)
