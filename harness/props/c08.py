"""C08: command execution always terminates, leaving no threads/timers/fds/zombies."""
import io
import itertools
import os
import subprocess
import sys
import threading
import time

from .. import core
from .. import coqterm as ct
from .. import runner_cases as cases
from .. import runner_common as rc
from ..core import Prop


class C08(Prop):
    id = "C08"
    corr_module = "Corr.C08Corr"
    quick_n = 900
    thorough_n = 12000
    shard_size = 300
    rule = ("scripted runs of the real Runner through totally ordered event scripts: reads/EOF on stdout and "
            "stderr, process exit (any status), exit immediately followed by KeyboardInterrupt, timer expiry, "
            "worker death (unexpected exception / WatcherError) in any of the three workers, "
            "KeyboardInterrupt in wait(); x pty x stdin worker x async x timeout x pipes held open by a "
            "descendant x start failure x poll granularity (case key 'glue': consecutive events that fall "
            "between the same two iterations of the wait loop -- worker death and process end in one poll "
            "interval, in both orders, with reads/EOFs/timer expiry around them; the thread executing run() is "
            "held in the loop's time.sleep while such a burst happens).  Non-trivial = the script contains a process end, a worker death or an "
            "interrupt; distinct by the whole case")
    trusted_base = [
        "Coq 8.16.1 kernel + vm_compute (shard evaluation, refutation witnesses)",
        "hand-written model coq/Model/RunnerSM.v tied to invoke/runners.py (run, _run_body, _finish, wait, "
        "has_dead_threads, _thread_join_timeout, create_io_threads, start_timer, timed_out, stop, Promise.join) "
        "and invoke/util.py (ExceptionHandlingThread) by differential execution through "
        "harness/runner_common.py ScriptedRunner (every blocking call answered by the event script)",
        "harness/runner_common.py (scripted OS primitives, fake Timer, structural hang detection), "
        "harness/runner_cases.py, harness/coqterm.py",
        "CPython 3.12 executing VERIF_REPO; Linux process/pty semantics for the real-child runs",
    ]
    assumptions = [
        "OS contract assumed by the model: a reader gets EOF once every holder of the pipe/pty has closed it; "
        "waitpid/Popen.poll report the exit exactly once (pty: a second waitpid raises ECHILD); SIGKILL ends the "
        "shell; os.execve failure under pty.fork happens in the child",
        "after the script every reader gets EOF unless the case says a descendant holds that pipe",
        "the stdin worker leaves its loop by itself once program_finished is set (C13_terminates_after_finish); "
        "this assumes an input read never blocks once the stream was reported ready -- F-C13b and F-C13d show "
        "real reads that do block (buffered text pipes, multi-byte terminal input), and then join(stdin worker), "
        "which has no timeout, blocks with them",
    ]
    not_modelled = [
        "scheduler preemption inside a Python statement (events are delivered one at a time and the main thread is "
        "left to settle in between); signal delivery at arbitrary bytecode boundaries except the one modelled "
        "point (right after the reaping poll)",
        "daemon-thread leftovers after the 1 s join timeout and what they do later; real fd tables, termios, "
        "zombies -- measured by the real-child runs (tests), not proved",
        "Local.start/kill/stop/returncode/process_is_finished themselves (real-child runs only)",
        "wall-clock bounds: the model counts main-thread steps and expired 1 s joins, not seconds",
        "an interrupt forwarded after the input stream's EOF (child stdin already closed): ValueError escapes "
        "run() -- finding F-C08h, real runner only; generated scripts have no interrupt after an input EOF",
        "KeyboardInterrupt while the main thread is inside a join (it propagates out of _finish's finally block "
        "and leaves the remaining workers unjoined: finding F-C08g, witnessed on the real runner only) -- only "
        "interrupts inside wait() and right after the reaping poll are events of the model",
    ]

    phases = None

    def setup(self, tier, seed):
        self.phases = rc.Phases()
        self.phases.mark("proof build (incl. waiting for the shared build lock)")
        self._first_run = True

    def generate(self, rng, tier, n):
        if self.phases:
            self.phases.mark("scripted cases + shards")
        if tier == "quick":
            # the core of the same-poll-interval family (all of it: thorough tier, enumerate_small) ...
            yield from burst_slice(rng, 160)
            # ... a slice of the exhaustive small scope (all of it: thorough tier) + generated cases; the ones
            # that cost real seconds (1 s per expiring join) are capped
            for c in cases.quick_cases(rng, n, focus=None):
                yield with_glue(c, rng)
            return
        for _ in range(n):
            yield with_glue(cases.gen_case(rng), rng)

    def enumerate_small(self, tier):
        yield from cases.small_cases(tier)
        yield from burst_small_cases(tier)

    def run_impl(self, case):
        return cases.run_impl(case)

    def to_coq(self, case, obs):
        return "(mkb %s %s)" % (cases.to_coq(case, obs), ct.lst([ct.n(k) for k in burst_sizes(case)]))

    def nontrivial(self, case, obs):
        return cases.process_ends(case) or cases.has_exc(case) or cases.has_kbd(case)

    def classify(self, case, obs):
        return ("burst " if obs.get("bursts") else "") + cases.classify(case, obs)

    def finding_of(self, case, obs):
        # F-C08d: the wait loop was left because of the dead worker in an iteration BEFORE the one in which
        # the process has ended (same poll interval: the poll comes first and reaps)
        d = death_an_iteration_before_end(case)
        if case["pty"] and obs["outcome"] == "ChildProcessError" and \
                any(e[0] == "exit_kbd" for e in case["events"]):
            return "F-C08b"
        if d and cases.process_ends(case) and not obs["reaped"] and \
                obs["outcome"] in ("ThreadException", "Failure"):
            return "F-C08d"
        return None

    _budget = rc.ShrinkBudget(45.0)

    def shrink_candidates(self, case):
        if not self._budget.ok():
            return
        glue = sorted(case.get("glue") or [])
        if not glue:
            yield from cases.shrink_candidates(case)
            return
        evs = case["events"]
        groups = burst_groups(case)
        for g in groups:
            for i in g:                                     # drop one event, keep the grouping of the others
                gs = [[j for j in h if j != i] for h in groups]
                yield regroup(case, evs, [h for h in gs if h])
        yield dict(case, glue=[])
        for k in glue:
            yield dict(case, glue=[j for j in glue if j != k])
        for c in cases.shrink_candidates(dict(case, glue=[])):
            if len(c["events"]) == len(evs):
                yield dict(c, glue=list(glue))

    def mutate(self, case, rng):
        # the same script at other poll granularities, the burst family, then fresh cases
        for _ in range(12):
            yield with_glue(dict(case, glue=[]), rng, p_case=1.0, p_pair=rng.choice([0.3, 0.6, 1.0]))
        for c in burst_slice(rng, 12):
            yield c
        for _ in range(30):
            yield with_glue(cases.gen_case(rng), rng)

    # ------------------------------------------------------------------ extra
    def extra_checks(self, tier, seed):
        if self.phases:
            self.phases.mark("extra checks")
        budget = rc.ExtraBudget(tier, 40.0)
        # one representative of everything first, optional repetitions / reproductions while time is left
        res = [termios_check(tier), real_findings(tier, budget), real_death_after_exit(tier),
               real_soak(tier, budget)]
        if self.phases:
            self.phases.mark("end")
            res.append(self.phases.entry())
        return res


# ---------------------------------------------------------------------------
# poll granularity: which consecutive events fall between the same two iterations of the wait loop
# (case["glue"] = indices i with "event i+1 happens in the same poll interval as event i")
# ---------------------------------------------------------------------------
GLUABLE = ("out", "err", "exc", "werr", "exc_base", "exit", "timer")      # = rc.Env.BURST_KINDS


def burst_groups(case):
    """the script's indices, cut into bursts"""
    glue = set(case.get("glue") or [])
    groups = []
    for i in range(len(case["events"])):
        if i > 0 and (i - 1) in glue:
            groups[-1].append(i)
        else:
            groups.append([i])
    return groups


def burst_sizes(case):
    if not case.get("glue"):
        return []
    return [len(g) for g in burst_groups(case)]


def regroup(case, evs, groups):
    """case with the events of `groups` (lists of indices into evs), glued accordingly"""
    new, glue = [], []
    for g in groups:
        for k, i in enumerate(g):
            if k > 0:
                glue.append(len(new) - 1)
            new.append(evs[i])
    c = dict(case, events=new, glue=glue)
    if not cases.process_ends(c):
        c["never_eof"] = [w for w in ("out", "err") if w in cases.workers(c)]
    return c


def with_glue(case, rng, p_case=0.4, p_pair=0.45):
    """some of the adjacent event pairs (of kinds that can fall into a sleep of the wait loop) happen
    within the same poll interval"""
    if rng.random() >= p_case:
        return case
    evs = case["events"]
    glue = [i for i in range(len(evs) - 1)
            if evs[i][0] in GLUABLE and evs[i + 1][0] in GLUABLE and rng.random() < p_pair]
    return dict(case, glue=glue) if glue else case


def death_an_iteration_before_end(case):
    """(worker, kind) of the first death of an existing worker in a burst strictly before the burst in
    which the process ends"""
    done = set()
    for g in burst_groups(case):
        evs = [case["events"][i] for i in g]
        if any(cases.is_end(case, e) for e in evs):
            return None
        for e in evs:
            if e[0] in ("out", "err") and not e[1]:
                done.add(e[0])
            if e[0] in ("exc", "werr", "exc_base") and e[1] in cases.workers(case) and e[1] not in done:
                return (e[1], e[0])
    return None


def burst_small_cases(tier):
    """worker death and process end within ONE poll interval of the wait loop: both orders, every worker,
    both kinds of death, with a read / an EOF / the timer expiry in the same burst or around it,
    x pty x stdin worker; plus bursts without a death (EOFs + exit, timer + exit) and two deaths"""
    kinds = ("exc", "werr") if tier == "quick" else ("exc", "werr", "exc_base")
    codes = (0, 1) if tier == "quick" else (0, 1, -15)
    base = {"warn": False, "async": False, "start_error": None, "never_eof": []}
    for pty in (False, True):
        for has_in in (False, True):
            whos = ["out"] + (["in"] if has_in else []) + ([] if pty else ["err"])
            ins = {"mode": "text"} if has_in else None
            for who in whos:
                for kind in kinds:
                    d = [kind, who]
                    for code in codes:
                        x = ["exit", code]
                        for pair in ([d, x], [x, d]):
                            # the burst alone, after a read, before the EOFs
                            for pre, post in (([], []), ([["out", [65]]], []), ([], [["out", []], ["err", []]]),
                                              ([["out", [65]]], [["err", []]])):
                                evs = pre + pair + post
                                yield dict(base, events=evs, pty=pty, glue=[len(pre)], **{"in": ins})
                            # a third event inside the same burst, at every position
                            for extra in (["out", [65]], ["out", []], ["err", []], ["timer"]):
                                for pos in range(3):
                                    evs = pair[:pos] + [extra] + pair[pos:]
                                    c = dict(base, events=evs, pty=pty, glue=[0, 1], **{"in": ins})
                                    if extra[0] == "timer":
                                        c["timeout"] = 5
                                    yield c
                    # death + timer kill in one interval
                    for pair in ([d, ["timer"]], [["timer"], d]):
                        yield dict(base, events=pair + [["out", []]], pty=pty, glue=[0], timeout=5, **{"in": ins})
                    # the death in a burst with a read, the end an iteration later (the F-C08d order)
                    yield dict(base, events=[["out", [65]], d, ["exit", 0]], pty=pty, glue=[0], **{"in": ins})
            # two workers die and the process ends, one interval
            for a, b in itertools.permutations(whos, 2):
                for perm in itertools.permutations([["exc", a], ["werr", b], ["exit", 1]]):
                    yield dict(base, events=[list(e) for e in perm], pty=pty, glue=[0, 1], **{"in": ins})
            # no death: everything else that can share an interval with the end
            for perm in itertools.permutations([["exit", 3], ["out", []], ["err", []]]):
                for warn in (False, True):
                    yield dict(base, events=[["out", [65]]] + [list(e) for e in perm], pty=pty, warn=warn,
                               glue=[1, 2], **{"in": ins})
            for perm in itertools.permutations([["exit", 0], ["timer"]]):
                yield dict(base, events=[list(e) for e in perm] + [["out", []]], pty=pty, glue=[0], timeout=5,
                           **{"in": ins})
            # a held pipe next to it (1 s join timeout)
            yield dict(base, events=[["werr", "out"], ["exit", 0]], pty=pty, glue=[0],
                       never_eof=[] if pty else ["err"], **{"in": ins})


def burst_slice(rng, k):
    """quick tier: the two-event core (death + end in one interval, alone) in full, the rest sampled"""
    allc = [dict(c, events=[list(e) for e in c["events"]]) for c in burst_small_cases("quick")]
    is_core = lambda c: len(c["events"]) == 2 and not c.get("never_eof")     # noqa
    core = [c for c in allc if is_core(c)]
    rest = [c for c in allc if not is_core(c) and not cases.may_expire(c)]
    slow = [c for c in allc if not is_core(c) and cases.may_expire(c)]
    rng.shuffle(rest)
    rng.shuffle(slow)
    out = core + slow[:1] + rest
    return out[:max(k, len(core) + 1)]


# ---------------------------------------------------------------------------
# real children
# ---------------------------------------------------------------------------
class Boom:
    def submit(self, stream):
        raise RuntimeError("boom")


class Upset:
    def submit(self, stream):
        from invoke.exceptions import WatcherError
        raise WatcherError("upset")


def interrupting_local():
    """Local whose first poll of the process is hit by a KeyboardInterrupt (a ^C in the wait loop)"""
    from invoke.runners import Local

    class L(Local):
        fired = False

        @property
        def process_is_finished(self):
            if not self.fired:
                self.fired = True
                raise KeyboardInterrupt
            return Local.process_is_finished.fget(self)
    return L


def late_interrupting_local():
    """Local hit by a KeyboardInterrupt in a poll 0.3 s after the first one"""
    from invoke.runners import Local

    class L(Local):
        fired = False
        t0 = None

        @property
        def process_is_finished(self):
            if self.t0 is None:
                self.t0 = time.time()
            if not self.fired and time.time() - self.t0 > 0.3:
                self.fired = True
                raise KeyboardInterrupt
            return Local.process_is_finished.fget(self)
    return L


def with_promise_local():
    """asynchronous run whose Promise is used as a context manager (joined by __exit__)"""
    from invoke.runners import Local

    class L(Local):
        def make_promise(self):
            p = super().make_promise()
            outer = self

            class Managed:
                def join(self_inner):
                    with p as q:
                        assert q is p
                    return outer._verif_result
            # Promise.__exit__ discards join()'s value: remember it through _finish
            orig_finish = outer._finish

            def finish():
                outer._verif_result = orig_finish()
                return outer._verif_result
            outer._finish = finish
            return Managed()
    return L


class Tripwire:
    """watcher that objects to one particular word of the output"""

    def submit(self, stream):
        if "TRIGGER" in stream:
            from invoke.exceptions import WatcherError
            raise WatcherError("saw TRIGGER")
        return []


class BrokenSink:
    def write(self, text):
        raise RuntimeError("sink is broken")

    def flush(self):
        pass


def real_death_after_exit(tier):
    """real children, the order fixed by the command itself: the shell exits after 0.15 s (after the first poll), a background job that
    inherited its stdout speaks up 0.2 s later and a worker dies of that -- i.e. the worker dies AFTER the
    command's process has ended.  The wait loop's pause (public Runner.input_sleep) is 0.6 s, so normally
    both fall into the same pause; whichever way the polls fall, the child must have been reaped when run()
    raises (a poll between the two events sees the exit and reaps as well)."""
    from invoke.runners import Local

    class SlowPoll(Local):
        input_sleep = 0.6

    CMD = "sleep 0.15; (sleep 0.2; printf TRIGGER) &"

    fails, evals = [], 0
    scen = [("watcher error", {"watchers": [Tripwire()], "hide": True}, "Failure"),
            ("failing out_stream.write", {"out_stream": BrokenSink()}, "ThreadException")]
    for rep_ in range(1 if tier == "quick" else 5):
        for name, kw, want in scen:
            evals += 1
            case = {"cmd": CMD, "worker_death": name, "input_sleep": 0.6}
            bad = None
            # the order "exit, then death" is the command's own (0.2 s apart); a machine so overloaded that the
            # shell is held up longer than that between starting the job and exiting would reverse it (and a
            # poll in between is then F-C08d): a failure counts only if it shows in three attempts out of three
            for attempt in range(3):
                r = rc.run_real(CMD, runner_cls=SlowPoll, in_stream=False, bound=15, **kw)
                st = r["child_state"]
                if st == "Z" and r.get("pid"):
                    try:
                        os.waitpid(r["pid"], os.WNOHANG)
                    except OSError:
                        pass
                if r["hang"]:
                    bad = "did not end within 15 s"
                elif r["outcome"] != want:
                    bad = "outcome %s, expected %s" % (r["outcome"], want)
                elif st is not None:
                    bad = ("the command had ended before the worker died, yet run() raised %s without reaping "
                           "it: child %s in state %s afterwards (3 attempts out of 3)" % (r["outcome"], r["pid"], st))
                else:
                    bad = None
                r.pop("runner", None)
                if bad is None or r["hang"]:
                    break
            if bad:
                fails.append({"case": case, "what": bad})
    return {"name": "real-death-after-exit", "evaluations": evals, "failures": fails,
            "note": "real Local runs (no pty), input_sleep 0.6 s: shell exits, background job triggers a watcher "
                    "error / a failing out_stream.write 0.2 s later; outcome reported and /proc/<pid>/stat shows "
                    "no zombie afterwards"}


def real_soak(tier, budget):
    """repeated real runs of every outcome class; threads, fds, zombies must not accumulate"""
    reps = 2 if tier == "quick" else 60
    classes = [
        ("exit0", "echo hi", {}, "Result"),
        ("exit3", "echo hi; exit 3", {}, "UnexpectedExit"),
        ("warn", "exit 3", {"warn": True}, "Result"),
        ("timeout", "sleep 5", {"timeout": 0.2}, "CommandTimedOut"),
        ("watcher-error", "echo hi; sleep 0.05", {"watchers": [Upset()]}, "Failure"),
        ("worker-exception", "echo hi; sleep 0.05", {"watchers": [Boom()]}, "ThreadException"),
        ("start-failure", "true", {"shell": "/nonexistent/shell"}, "FileNotFoundError"),
        ("stdin", "cat", {"in_stream": "abc"}, "Result"),
        ("idle-pipe", "echo hi", {"in_stream": "idle-pipe"}, "Result"),
        ("interrupt", "echo hi; sleep 0.2", {"interrupt": True, "warn": True}, "Result"),   # under a pty the forwarded ^C ends the shell
        ("late-join", "echo hi", {"join_delay": 0.3}, "Result"),
        ("with-promise", "echo hi", {"with": True}, "Result"),
        ("disown", "true", {"disown": True}, "None"),
    ]
    death_pids = set()        # pty children of the worker-death classes: the F-C08d mechanism
    fails, evals = [], 0
    hangs = 0
    time.sleep(0.05)
    base_threads = threading.active_count()
    base_fds = rc.fd_count()
    for name, cmd, kw, want in classes:
        for pty in (False, True):
            if pty and name == "start-failure":
                continue            # F-C08a, run in a sandbox below
            for asyn in (False, True):
                for rep in range(reps if not asyn else max(1, reps // 3)):
                    if hangs >= 3:
                        break               # a hang costs its whole bound: three are evidence enough
                    if rep > 0 and not budget.allow("soak repetition"):
                        continue            # the class has run once; further repetitions are optional
                    evals += 1
                    k = dict(kw, hide=True, pty=pty)
                    cls, jd, pipe_w = None, 0.0, None
                    if k.pop("interrupt", False):
                        cls = interrupting_local()
                    if k.pop("with", False):
                        if not asyn:
                            continue
                        cls = with_promise_local()
                    if "join_delay" in k:
                        jd = k.pop("join_delay")
                        if not asyn:
                            continue
                    if k.get("disown"):
                        if asyn or pty:
                            continue               # disown+pty leaks by itself: F-C08e, replayed separately
                    if k.get("in_stream") == "idle-pipe":
                        rfd, pipe_w = os.pipe()
                        k["in_stream"] = os.fdopen(rfd, "rb", 0)
                        cmd_ = cmd
                    elif k.get("in_stream") == "abc":
                        k["in_stream"] = io.StringIO("abc\n")
                        if pty:
                            cmd_ = "head -n1"
                        else:
                            cmd_ = cmd
                    else:
                        k["in_stream"] = False
                        cmd_ = cmd
                    if asyn:
                        k["asynchronous"] = True
                    r = rc.run_real(cmd_, bound=8.0, runner_cls=cls, join_delay=jd, **k)
                    if pipe_w is not None:
                        os.close(pipe_w)
                        k["in_stream"].close()
                    if pty and name in ("worker-exception", "watcher-error") and r.get("pid"):
                        death_pids.add(r["pid"])
                    case = {"class": name, "pty": pty, "async": asyn}
                    if r["hang"]:
                        hangs += 1
                        fails.append({"case": case, "what": "did not end within 8 s"})
                        break
                    if r["outcome"] != want:
                        fails.append({"case": case, "what": "outcome %s, expected %s" % (r["outcome"], want)})
                    if r["timer_alive"]:
                        fails.append({"case": case, "what": "timeout timer still alive afterwards"})
                    if r["alive_after"] and name != "worker-exception" and name != "watcher-error":
                        fails.append({"case": case, "what": "workers still alive: %s" % r["alive_after"]})
                    if name in ("exit0", "exit3", "warn", "timeout", "stdin") and r["child_state"] is not None:
                        fails.append({"case": case, "what": "child not reaped: state %s" % r["child_state"]})
                    r.pop("runner", None)
    # leftovers of the worker-death classes need their 1 s / the child's end
    deadline = time.time() + 5
    while time.time() < deadline and threading.active_count() > base_threads:
        time.sleep(0.05)
    import gc
    # disowned Popen objects whose child was still running when they were collected are parked by the
    # subprocess module until the next Popen is created: do what any later run would do
    time.sleep(0.3)
    gc.collect()
    rc.run_real("true", hide=True, in_stream=False, bound=12).pop("runner", None)
    gc.collect()
    th, fds = threading.active_count(), rc.fd_count()
    if th > base_threads:
        fails.append({"case": {"runs": evals}, "what": "threads accumulated: %d -> %d" % (base_threads, th)})
    if fds > base_fds + 2:
        fails.append({"case": {"runs": evals}, "what": "file descriptors accumulated: %d -> %d" % (base_fds, fds)})
    z = rc.zombie_children()
    note_z = ""
    if z:
        for pid in z:
            try:
                os.waitpid(pid, os.WNOHANG)
            except OSError:
                pass
        known = [pid for pid in z if pid in death_pids]
        other = [pid for pid in z if pid not in death_pids]
        if known:
            # pty children of the worker-death classes are never waited for (F-C08d)
            fails.append({"case": {"zombies": len(known), "classes": "worker death under a pty"},
                          "finding": "F-C08d", "what": "zombie children left behind by runs whose worker died"})
        if other:
            fails.append({"case": {"zombies": len(other)},
                          "what": "zombie children left behind by runs in which no worker died"})
    return {"name": "real-soak", "evaluations": evals, "failures": fails[:8],
            "note": budget.note() + "%d real runs over 13 classes (8 outcome classes, idle pipe as input stream, interrupt, late-joined and with-managed promise, disown) x pty x sync/async through Local; afterwards thread count "
                    "%d -> %d, /proc/self/fd %d -> %d, zombies %d%s" % (evals, base_threads, th, base_fds, fds,
                                                                        len(z), note_z)}


SANDBOX = r'''
import os, sys
sys.path.insert(0, %r)
from invoke import Context
me = os.getpid()
try:
    r = Context().run("true", pty=True, shell="/nonexistent/shell", hide=True, in_stream=False, warn=True)
    print("PARENT-RETURNED exited=%%s stdout=%%r" %% (r.exited, r.stdout), flush=True)
except BaseException as e:
    who = "PARENT" if os.getpid() == me else "ESCAPED-CHILD"
    print("%%s-RAISED %%s" %% (who, type(e).__name__), flush=True)
'''


SANDBOX_G = r'''
import os, sys, signal, threading, time
sys.path.insert(0, %r)
from invoke import Context
from invoke.runners import Local
me = os.getpid()
threading.Timer(1.0, lambda: os.kill(me, signal.SIGINT)).start()
r = Local(Context())
t0 = time.time()
try:
    res = r.run("echo hi; (sleep 3 &); exit 0", hide=True, in_stream=False)
    print("RETURNED", res.exited, round(time.time() - t0, 1), flush=True)
except BaseException as e:
    alive = sorted(t.kwargs["target"].__name__ for t in r.threads.values() if t.is_alive())
    print("RAISED %%s after %%.1fs alive=%%s" %% (type(e).__name__, time.time() - t0, alive), flush=True)
os._exit(0)
'''


SANDBOX_F = r'''
import os, sys, tempfile
sys.path.insert(0, %r)
from invoke import Context
me = os.getpid()
real = sys.stdout
f = tempfile.TemporaryFile("w")
sys.stdout = f
try:
    r = Context().run("echo hi", pty=True, hide=True, in_stream=False, warn=True)
    sys.stdout = real
    who = "PARENT" if os.getpid() == me else "ESCAPED-CHILD"
    print("%%s-OK exited=%%s stdout=%%r" %% (who, r.exited, r.stdout), flush=True)
except BaseException as e:
    sys.stdout = real
    who = "PARENT" if os.getpid() == me else "ESCAPED-CHILD"
    try:
        os.write(2, ("%%s-RAISED %%s\\n" %% (who, type(e).__name__)).encode())
    finally:
        if os.getpid() != me:
            os._exit(3)
'''


def real_findings(tier, budget):
    from invoke.runners import Local
    fails, evals = [], 0
    # F-C08a: pty + shell that cannot be exec'ed
    evals += 1
    try:
        p = subprocess.run([sys.executable, "-c", SANDBOX % core.REPO], capture_output=True, text=True, timeout=30)
        out = p.stdout
    except subprocess.TimeoutExpired:
        p, out = None, "TIMEOUT"
    if "PARENT-RAISED" in out and "ESCAPED-CHILD" not in out:
        pass                                        # reported as a start failure: as the property demands
    elif "PARENT-RETURNED" in out and "ESCAPED-CHILD-RAISED" in out:
        fails.append({"case": {"pty": True, "shell": "/nonexistent/shell"}, "finding": "F-C08a",
                      "what": "no start failure reported; the forked child ran the caller's except clause: " +
                              out.strip()[:200]})
    else:
        fails.append({"case": {"pty": True, "shell": "/nonexistent/shell"},
                      "what": "unexpected behaviour: %r %r" % (out[:300], p.stderr[-300:] if p else "")})

    # F-C08b: KeyboardInterrupt between the reaping waitpid and the end of the wait loop
    class L(Local):
        fired = False

        @property
        def process_is_finished(self):
            v = Local.process_is_finished.fget(self)
            if v and not self.fired:
                self.fired = True               # the child has just been reaped by this poll
                raise KeyboardInterrupt
            return v
    for pty in (False, True):
        evals += 1
        r = rc.run_real("true", runner_cls=L, hide=True, in_stream=False, pty=pty, bound=10)
        if r["outcome"] == "Result":
            continue
        f = {"case": {"interrupt_after_reap": True, "pty": pty}, "what": "run() raised %s" % r["outcome"]}
        if pty and r["outcome"] == "ChildProcessError":
            f["finding"] = "F-C08b"
        fails.append(f)

    # regression witness of the fixed F-C08c: the stdin worker dies (text not encodable) while the command
    # waits for input; the joins of the output workers are bounded now
    evals += 1
    r = rc.run_real("cat", hide=True, in_stream=io.StringIO("é"), encoding="ascii", bound=12)
    if r["hang"] or r["outcome"] != "ThreadException" or r["elapsed"] > 8.0:
        fails.append({"case": {"cmd": "cat", "in_stream": "StringIO('\u00e9')", "encoding": "ascii"},
                      "what": "outcome %s after %.1fs (hang: %s, thread exceptions %s); expected ThreadException "
                              "after about 2 s" % (r["outcome"], r["elapsed"], r["hang"], r.get("thread_excs"))})
    if r.get("pid"):
        try:
            os.kill(r["pid"], 9)            # cat is still waiting for input
        except OSError:
            pass
    r = None

    # F-C08e: disown=True with a pty: nobody closes the pty fd or waits for the child
    evals += 1
    import gc
    r = None
    gc.collect()
    time.sleep(0.1)
    z0 = set(rc.zombie_children())
    f0 = rc.fd_count()
    pids, fds_left = [], []
    for _ in range(6):
        r = rc.run_real("true", hide=True, in_stream=False, pty=True, disown=True, bound=8)
        pids.append(r.get("pid"))
        rn = r.pop("runner", None)
        if rn is not None and hasattr(rn, "parent_fd"):
            fds_left.append(rn.parent_fd)
        rn = r = None
    time.sleep(0.5)
    gc.collect()

    def is_open(fd):
        try:
            os.fstat(fd)
            return True
        except OSError:
            return False
    leaked = [fd for fd in fds_left if is_open(fd)]
    z1 = [p for p in rc.zombie_children() if p not in z0 and p in pids]
    for pid in z1:
        try:
            os.waitpid(pid, os.WNOHANG)
        except OSError:
            pass
    for fd in leaked:
        try:
            os.close(fd)
        except OSError:
            pass
    if len(leaked) >= 5 and len(z1) >= 5:
        fails.append({"case": {"disown": True, "pty": True, "runs": 6}, "finding": "F-C08e",
                      "what": "6 disowned pty runs: %d pty descriptors still open, %d of the children zombies"
                              % (len(leaked), len(z1))})
    elif leaked or z1:
        fails.append({"case": {"disown": True, "pty": True, "runs": 6},
                      "what": "pty descriptors left open %d, zombies %d" % (len(leaked), len(z1))})

    # F-C08g: ^C while the main thread is inside the worker joins (the command has exited, a descendant
    # still holds the pipes): not forwarded, propagates out of run(), workers left unjoined
    evals += 1
    try:
        p = subprocess.run([sys.executable, "-c", SANDBOX_G % core.REPO], capture_output=True, text=True, timeout=30)
        out = p.stdout
    except subprocess.TimeoutExpired:
        out = "TIMEOUT"
    if "RETURNED" in out:
        pass
    elif "RAISED KeyboardInterrupt" in out and "alive=[]" not in out:
        fails.append({"case": {"cmd": "echo hi; (sleep 3 &); exit 0", "SIGINT": "1 s after start, during join"},
                      "finding": "F-C08g", "what": out.strip()[:200]})
    else:
        fails.append({"case": {"cmd": "echo hi; (sleep 3 &); exit 0", "SIGINT": "during join"},
                      "what": "unexpected behaviour: %r" % out[:300]})

    # F-C08h: ^C in the wait loop after the input stream reached EOF (child stdin closed): the forwarded
    # \x03 is written to the closed pipe, ValueError escapes run()
    evals += 1
    r = rc.run_real("sleep 1", runner_cls=late_interrupting_local(), hide=True, in_stream=io.StringIO(""), bound=10)
    if r["outcome"] == "Result":
        pass
    elif r["outcome"] == "ValueError":
        if r.get("pid"):
            try:
                os.waitpid(r["pid"], os.WNOHANG)
            except OSError:
                pass
        fails.append({"case": {"cmd": "sleep 1", "in_stream": "StringIO('')", "interrupt": "0.3 s after start"},
                      "finding": "F-C08h", "what": "run() raised ValueError (write to the closed child stdin) "
                                                   "instead of forwarding the interrupt"})
    else:
        fails.append({"case": {"cmd": "sleep 1", "in_stream": "StringIO('')", "interrupt": True},
                      "what": "outcome %s" % r["outcome"]})
    r = None

    # F-C08f: pty=True while sys.stdout is a real file object that is not fd 1
    evals += 1
    try:
        p = subprocess.run([sys.executable, "-c", SANDBOX_F % core.REPO], capture_output=True, text=True, timeout=30)
        out = p.stdout + p.stderr
    except subprocess.TimeoutExpired:
        out = "TIMEOUT"
    if "PARENT-OK" in out and "ESCAPED" not in out:
        pass
    elif "ESCAPED-CHILD" in out:
        fails.append({"case": {"pty": True, "sys.stdout": "open(tmpfile, 'w')"}, "finding": "F-C08f",
                      "what": "the forked child failed in ioctl(TIOCSWINSZ) on sys.stdout.fileno() and ran the "
                              "caller's except clause: " + out.strip()[:200]})
    else:
        fails.append({"case": {"pty": True, "sys.stdout": "open(tmpfile, 'w')"},
                      "what": "unexpected behaviour: %r" % out[:300]})

    if not budget.allow("reproduction of known findings F-C08d/e/f"):
        return {"name": "real-findings", "evaluations": evals, "failures": fails,
                "note": budget.note() + "F-C08a, F-C08b and the F-C08c regression replayed on the real Local runner"}
    # F-C08d: a worker dies, the command ends later: the pty child is never waited for
    evals += 1
    r = rc.run_real("echo hi; sleep 0.2", hide=True, in_stream=False, pty=True, watchers=[Boom()], bound=10)
    time.sleep(0.5)
    st = rc.proc_state(r["pid"]) if r["pid"] else None
    if st == "Z":
        try:
            os.waitpid(r["pid"], 0)
        except OSError:
            pass
        fails.append({"case": {"cmd": "echo hi; sleep 0.2", "pty": True, "watcher": "raises"},
                      "finding": "F-C08d", "what": "run() raised %s; child %s is a zombie afterwards" %
                                                   (r["outcome"], r["pid"])})
    elif r["outcome"] != "ThreadException":
        fails.append({"case": {"cmd": "echo hi; sleep 0.2", "pty": True}, "what": "outcome %s" % r["outcome"]})
    return {"name": "real-findings", "evaluations": evals, "failures": fails,
            "note": budget.note() + "the C08 defects replayed on the real Local runner (F-C08a and F-C08f inside throw-away interpreters)"}


TERMIOS = r'''
import os, sys, json, termios, io
sys.path.insert(0, %r)
from invoke import Context
res = {}
before = termios.tcgetattr(sys.stdin)
seen = {}
import invoke.runners as R
orig = R.Runner.read_our_stdin
boom = {"on": False}
def spy(self, input_):
    seen.setdefault("during", termios.tcgetattr(input_))
    if boom["on"]:
        raise RuntimeError("injected: stdin worker dies inside character_buffered")
    return orig(self, input_)
R.Runner.read_our_stdin = spy
out = io.StringIO()
for cmd, kw in (("true", {}), ("exit 3", {"warn": False}), ("sleep 5", {"timeout": 0.3}), ("sleep 0.3", {"die": True})):
    boom["on"] = bool(kw.pop("die", False))
    try:
        Context().run(cmd, hide=True, out_stream=out, **kw)
    except Exception as e:
        res.setdefault("raised", []).append(type(e).__name__)
    res.setdefault("after", []).append(termios.tcgetattr(sys.stdin) == before)
    if termios.tcgetattr(sys.stdin) != before:
        termios.tcsetattr(sys.stdin, termios.TCSANOW, before)
# other starting modes of the terminal: ALL attributes must come back exactly as they were
import copy, signal, time
boom["on"] = False
modes = {}
def with_mode(name, change):
    a = termios.tcgetattr(sys.stdin)
    change(a)
    termios.tcsetattr(sys.stdin, termios.TCSANOW, a)
    b = termios.tcgetattr(sys.stdin)
    try:
        Context().run("true", hide=True, out_stream=out)
    except Exception as e:
        res.setdefault("raised_modes", []).append(type(e).__name__)
    modes[name] = termios.tcgetattr(sys.stdin) == b
    termios.tcsetattr(sys.stdin, termios.TCSANOW, before)
def echo_off(a): a[3] &= ~termios.ECHO
def no_icanon(a): a[3] &= ~termios.ICANON
def rawish(a):
    a[0] &= ~(termios.ICRNL | termios.IXON); a[3] &= ~(termios.ECHO | termios.ICANON | termios.ISIG)
    a[6][termios.VMIN] = 0; a[6][termios.VTIME] = 2
with_mode("echo off", echo_off)
with_mode("-icanon", no_icanon)
with_mode("raw-like, VMIN 0 VTIME 2", rawish)
res["modes_restored"] = modes
# the same program as a BACKGROUND job of this terminal (`inv t &`): it must not touch the terminal
# (SIGTTOU would stop it inside run() and it would never return)
pid = os.fork()
if pid == 0:
    try:
        os.setpgid(0, 0)
        signal.signal(signal.SIGTTOU, signal.SIG_DFL)
        signal.signal(signal.SIGTTIN, signal.SIG_DFL)
        Context().run("true", hide=True, out_stream=io.StringIO())
        os._exit(0)
    except BaseException:
        os._exit(5)
bg = "timeout"
t_end = time.time() + 10
while time.time() < t_end:
    p, st = os.waitpid(pid, os.WNOHANG | os.WUNTRACED)
    if p:
        bg = "stopped by signal %%d" %% os.WSTOPSIG(st) if os.WIFSTOPPED(st) else "exit %%d" %% os.WEXITSTATUS(st) if os.WIFEXITED(st) else "killed"
        break
    time.sleep(0.02)
if not bg.startswith("exit"):
    try:
        os.kill(pid, 9); os.waitpid(pid, 0)
    except OSError:
        pass
res["background_job"] = bg
# fd accounting with stdout redirected at descriptor level (`inv build > log`): _pty_size asks elsewhere
import gc
devnull = os.open(os.devnull, os.O_WRONLY)
saved1 = os.dup(1)
os.dup2(devnull, 1)
gc.collect()
n0 = len(os.listdir("/proc/self/fd"))
for _ in range(8):
    try:
        Context().run("true", pty=True, hide=True, in_stream=False)
    except Exception as e:
        res.setdefault("raised_fd", []).append(type(e).__name__)
gc.collect()
res["fds"] = [n0, len(os.listdir("/proc/self/fd"))]
os.dup2(saved1, 1)
d = seen.get("during")
res["cbreak_during"] = bool(d) and not (d[3] & termios.ICANON) and not (d[3] & termios.ECHO)
res["icanon_before"] = bool(before[3] & termios.ICANON)
open(%r, "w").write(json.dumps(res))
'''


def termios_check(tier):
    """a controlling pty as the input stream: cbreak during the run, saved attributes restored afterwards"""
    import json
    import pty
    import tempfile
    fd, path = tempfile.mkstemp(prefix="c08-termios-", dir=core.BUILD)
    os.close(fd)
    fails = []
    pid, master = pty.fork()
    if pid == 0:
        try:
            os.execv(sys.executable, [sys.executable, "-c", TERMIOS % (core.REPO, path)])
        finally:
            os._exit(97)
    try:
        import fcntl
        import struct
        import termios
        fcntl.ioctl(master, termios.TIOCSWINSZ, struct.pack("HHHH", 30, 100, 0, 0))   # a real window size
    except OSError:
        pass
    deadline = time.time() + 25
    status = None
    while time.time() < deadline:
        try:
            os.read(master, 1024) if _readable(master) else None
        except OSError:
            pass
        p, st = os.waitpid(pid, os.WNOHANG)
        if p:
            status = st
            break
        time.sleep(0.02)
    if status is None:
        try:
            os.kill(pid, 9)
            os.waitpid(pid, 0)
        except OSError:
            pass
        fails.append({"case": {"controlling_pty": True}, "what": "helper did not finish within 25 s"})
    os.close(master)
    res = {}
    try:
        res = json.load(open(path))
    except Exception:
        if not fails:
            fails.append({"case": {"controlling_pty": True}, "what": "helper wrote no result (status %r)" % (status,)})
    os.unlink(path)
    if res:
        if not all(res.get("after", [False])):
            fails.append({"case": res, "what": "terminal attributes of the input stream not restored after run()"})
        bad = [m for m, ok in (res.get("modes_restored") or {}).items() if not ok]
        if bad or len(res.get("modes_restored") or {}) != 3:
            fails.append({"case": res, "what": "terminal attributes differ after run() when the terminal started "
                                              "in mode(s): %s" % (bad or "helper did not get that far")})
        if res.get("background_job") != "exit 0":
            fails.append({"case": res, "what": "run() as a background job of the terminal: %s"
                                              % res.get("background_job")})
        fds = res.get("fds") or [0, 0]
        if fds[1] > fds[0] + 1:
            fails.append({"case": res, "what": "8 pty runs with stdout redirected: file descriptors %d -> %d "
                                              "inside the terminal-attached interpreter" % tuple(fds)})
        if not res.get("cbreak_during"):
            fails.append({"case": res, "what": "input terminal was not switched to character-buffered mode"})
    return {"name": "termios-restore", "evaluations": 4 if res else 0, "failures": fails,
            "note": "helper interpreter under pty.fork (controlling terminal = sys.stdin): exit 0, exit 3 "
                    "(UnexpectedExit), timeout kill, stdin worker dying inside the character-buffered block "
                    "(ThreadException); termios before == after each run, also from three other starting modes "
                    "(echo off, -icanon, raw-like); the same as a background job of the terminal (must not be "
                    "stopped by SIGTTOU); cbreak observed during: %s"
                    % json.dumps(res)}


def _readable(fd):
    import select
    r, _, _ = select.select([fd], [], [], 0)
    return bool(r)


PROP = C08()
