"""C06: a config behaves like a nested dict under any history of edits and
reloads (through the root or held nested proxies, item or attribute syntax)."""
import copy
import itertools

from .. import config_common as cc
from .. import coqterm as ct
from .. import gen_tree as gt
from ..core import Prop
from .c03 import supplied_levels

MUTATORS = ("set", "del", "pop", "popitem", "clear", "setdefault", "update")
READERS = ("get", "contains", "len", "keys")
RELOADS = ("load_defaults", "load_overrides", "load_collection", "load_shell_env")


# --------------------------------------------------------------------------
# generator state: a schema (path -> section | leaf kind) grown by the writes
# --------------------------------------------------------------------------
class Gen:
    def __init__(self, rng, long=False, kinds=None):
        self.rng = rng
        self.fresh_kinds = "nbislt" + ("eB" if kinds and "e" in kinds else "")
        # keys with a leading / trailing underscore too: attribute syntax applies to them
        self.keys = cc.SAFE_KEYS + (["_a", "a_", "_k"] if rng.random() < 0.4 else [])
        self.sch = cc.schema(rng, depth=rng.choice([2, 3, 3]), width=rng.choice([2, 3, 4]),
                             keys=(self.keys if len(self.keys) == len(cc.SAFE_KEYS)
                                   else ["_a", "a_", "_k"] + rng.sample(cc.SAFE_KEYS, 5)),
                             kinds=kinds or rng.choice(["nbis", "nbislt", "nbislt"]), p_section=0.5)
        self.files = {}        # location -> suffix, file levels that may be (re)loaded inside the history
        if not any(isinstance(v, dict) for v in self.sch.values()):
            self.sch[rng.choice(["s", "t"])] = {"x": "i", "y": "s"}
        self.handles = {}      # id -> absolute path (alive, in scope)
        self.deleted = set()   # paths some delete was aimed at (conservative)
        self.next_h = 0
        self.long = long

    # schema helpers
    def sections(self):
        return [()] + [p for p, sec in cc.schema_paths(self.sch) if sec]

    def node(self, p):
        t = self.sch
        for k in p:
            t = t[k]
        return t

    def inst(self, p_keep=None, kinds=None):
        return cc.jsonable(cc.instance(self.rng, self.sch, p_keep or self.rng.choice([0.4, 0.7, 0.9]), kinds))

    def kill(self, p, dict_write=False):
        """handles at or below a deleted/overwritten path leave the scope; a dict
        written at ``p`` also ends the handles above it (the written object is
        shared between their cache snapshot and the modifications level)"""
        for h, hp in list(self.handles.items()):
            if tuple(hp[:len(p)]) == tuple(p) or (dict_write and tuple(p[:len(hp)]) == tuple(hp)):
                del self.handles[h]
        if not dict_write:
            self.deleted.add(tuple(p))

    def value_for(self, kp, k):
        """(value, is_dict) for a write at kp+[k], keeping the schema consistent"""
        rng = self.rng
        par = self.node(kp)
        if k in par:
            if isinstance(par[k], dict):
                return cc.jsonable(cc.instance(rng, par[k], rng.choice([0.3, 0.7, 1.0]))), True
            return cc.leaf(rng, par[k]), False
        if rng.random() < 0.25:
            sub = cc.schema(rng, depth=rng.choice([1, 2]), width=2, kinds="nbis")
            par[k] = sub
            return cc.jsonable(cc.instance(rng, sub, 0.8)), True
        par[k] = rng.choice(self.fresh_kinds)
        return cc.leaf(rng, par[k]), False

    def pick_key(self, kp, want_leaf=None, p_fresh=0.15):
        rng = self.rng
        par = self.node(kp)
        ks = list(par)
        if want_leaf is True:
            ks = [k for k in ks if not isinstance(par[k], dict)]
        if ks and rng.random() > p_fresh:
            return rng.choice(ks)
        return rng.choice([k for k in self.keys + ["z", "w"] if k not in par] or ["zz"])

    def path_op(self, base=()):
        """a path operation relative to the section ``base``; returns (op, abs effects)"""
        rng = self.rng
        secs = [p for p in self.sections() if tuple(p[:len(base)]) == tuple(base)]
        if base:
            # through a held proxy: do not walk through sections a delete was aimed at
            # (F-C06b corner), except rarely
            ok = [p for p in secs if not any(tuple(p[:i]) in self.deleted for i in range(len(base) + 1, len(p) + 1))]
            secs = ok if (ok and rng.random() < 0.97) else secs
        abs_kp = rng.choice(secs) if rng.random() < (0.6 if not base else 0.3) else tuple(base)
        kp = list(abs_kp[len(base):])
        fl = rng.choice(["item", "attr"])
        kind = rng.choices(
            ["set", "del", "pop", "popitem", "clear", "setdefault", "update", "get", "contains", "len", "keys",
             "getm", "view", "eq", "update_both", "update_proxy", "rawset"],
            [24, 13, 8, 3, 3, 6, 5, 6, 3, 2, 3, 6, 4, 2, 2, 0.5, 0.8])[0]
        if kind == "getm":
            k = self.pick_key(abs_kp, p_fresh=0.3)
            d = None if rng.random() < 0.5 else {"d": cc.leaf(rng, "isn")}
            return ["getm", fl, kp, k, d]
        if kind == "view":
            return ["view", fl, kp, rng.choice(["items", "values", "dict"])]
        if kind == "eq":
            return ["eq", fl, kp, rng.random() < 0.5]
        if kind == "update_both":
            def some(n):
                out = []
                for _ in range(n):
                    k = self.pick_key(abs_kp, want_leaf=True, p_fresh=0.3)
                    if k in [x[0] for x in out]:
                        continue
                    v, isd = self.value_for(abs_kp, k)
                    if not isd:
                        out.append([k, v])
                return out
            return ["update_both", fl, kp, some(rng.randint(1, 2)), some(rng.randint(0, 2))]
        if kind == "update_proxy":
            # c.<kp>.update(c.<src>): iterating the proxy yields KEYS; key s writes s[0] := s[1]
            srcs = [p for p in self.sections() if p and tuple(p) != tuple(abs_kp)]
            rng.shuffle(srcs)
            tgt = self.node(abs_kp)
            for sp in srcs:
                ks = [k for k in self.node(sp) if len(k) >= 2]
                if all(not isinstance(tgt.get(k[0]), dict) for k in ks):
                    for k in ks:
                        tgt[k[0]] = "s"
                    if base:
                        return self.path_op(base)
                    return ["update_proxy", fl, kp, list(sp)]
            kind = "get"
        if kind == "rawset":
            secs2 = [p for p in secs if len(p) > len(base)]
            if secs2:
                P = rng.choice(secs2)
                k = self.pick_key(P, want_leaf=True, p_fresh=0.4)
                v, isd = self.value_for(P, k)
                if not isd:
                    return ["rawset", fl, list(P[len(base):-1]), P[-1], k, v,
                            rng.choice(["get", "get", "setdefault"])]
            kind = "get"
        if kind == "set":
            k = self.pick_key(abs_kp, want_leaf=(True if rng.random() < 0.9 else None))
            v, isd = self.value_for(abs_kp, k)
            if isd:
                self.kill(abs_kp + (k,), True)
            return ["set", fl, kp, k, v]
        if kind == "del":
            k = self.pick_key(abs_kp, p_fresh=0.08)
            self.kill(abs_kp + (k,))
            return ["del", fl, kp, k]
        if kind == "pop":
            k = self.pick_key(abs_kp, p_fresh=0.3)
            self.kill(abs_kp + (k,))
            if k not in self.node(abs_kp):      # later reloads may define the key popped in vain
                self.node(abs_kp)[k] = rng.choice("is")
            d = None if rng.random() < 0.4 else {"d": cc.leaf(rng, "isn")}      # pop(k, None) too
            return ["pop", fl, kp, k, d]
        if kind == "popitem":
            for k in list(self.node(abs_kp)):
                self.kill(abs_kp + (k,))
            return ["popitem", fl, kp]
        if kind == "clear":
            for k in list(self.node(abs_kp)):
                self.kill(abs_kp + (k,))
            return ["clear", fl, kp]
        if kind == "setdefault":
            k = self.pick_key(abs_kp, p_fresh=0.5)
            if rng.random() < 0.08:
                # one argument: stores None -- only where the schema has a leaf or nothing
                k = self.pick_key(abs_kp, want_leaf=True, p_fresh=0.5)
                if k not in self.node(abs_kp):
                    self.node(abs_kp)[k] = "n"
                return ["setdefault", fl, kp, k, None]
            v, isd = self.value_for(abs_kp, k)
            if isd:
                self.kill(abs_kp + (k,), True)
            return ["setdefault", fl, kp, k, {"d": v}]
        if kind == "update":
            kvs = []
            if rng.random() < 0.08:       # update() / update({}) / update([]): nothing happens
                return ["update", fl, kp, [], rng.choice(["none", "dict", "pairs", "gen"])]
            for _ in range(rng.randint(1, 3)):
                k = self.pick_key(abs_kp, want_leaf=(True if rng.random() < 0.92 else None), p_fresh=0.3)
                if k in [x[0] for x in kvs]:
                    continue
                v, isd = self.value_for(abs_kp, k)
                if isd:
                    self.kill(abs_kp + (k,), True)
                kvs.append([k, v])
            # a dict, keyword arguments, a list of pairs, or a ONE-SHOT iterable of pairs
            style = rng.choice(["dict", "kwargs", "pairs", "gen", "zip", "iter"])
            return ["update", fl, kp, kvs, style]
        if kind == "get":
            return ["get", fl, kp, self.pick_key(abs_kp, p_fresh=0.15)]
        if kind == "contains":
            return ["contains", fl, kp, self.pick_key(abs_kp, p_fresh=0.3)]
        if kind == "keys":
            return ["keys", fl, kp, rng.choice(["keys", "iter"])]
        return [kind, fl, kp]

    def settle(self):
        """a call that always merges"""
        rng = self.rng
        r = rng.random()
        if r < 0.4:
            return ["merge"]
        if r < 0.55:
            return ["load_defaults", self.inst()]
        if r < 0.65:
            return ["load_overrides", self.inst(rng.choice([0.1, 0.3]))]
        if r < 0.8:
            return ["load_collection", self.inst()]
        return ["load_shell_env", cc.env_for(rng, self.sch, rng.choice([0.2, 0.5]), p_bad=0.0)]

    def reload(self):
        """one or more calls: a plain reload; or merge=False loads / re-pointings
        followed (mostly) by a call that merges; or a reload of a file level"""
        rng = self.rng
        r = rng.random()
        if r < 0.27:
            return [["load_defaults", self.inst()]]
        if r < 0.42:
            return [["load_overrides", self.inst(rng.choice([0.1, 0.3]))]]
        if r < 0.60:
            return [["load_collection", self.inst()]]
        if r < 0.75:
            return [["load_shell_env", cc.env_for(rng, self.sch, rng.choice([0.2, 0.5]), p_bad=0.0)]]
        if r < 0.87:
            # merge=False: not visible until something merges
            out = []
            for _ in range(rng.randint(1, 2)):
                k = rng.random()
                if k < 0.35:
                    out.append(["load_defaults_d", self.inst()])
                elif k < 0.55:
                    out.append(["load_overrides_d", self.inst(rng.choice([0.1, 0.3]))])
                elif k < 0.8:
                    out.append(["load_collection_d", self.inst()])
                else:
                    out.append([rng.choice(["load_system_d", "load_user_d", "load_project_d", "load_runtime_d"])])
            if rng.random() < 0.85:
                out.append(self.settle())
            return out
        if r < 0.94 and self.files:
            # a file level inside the history: re-point, load again, merge
            if "projB" in self.files and rng.random() < 0.5:
                out = [["set_project_location", rng.choice(["projB", "projA", None])]]
                if rng.random() < 0.8:
                    out.append([rng.choice(["load_project_d", "load_project"])])
            elif "rtB" in self.files:
                out = [["set_runtime_path", rng.choice([["rtB", self.files["rtB"]], None])]]
                if rng.random() < 0.8:
                    out.append([rng.choice(["load_runtime_d", "load_runtime"])])
            else:
                return [[rng.choice(["load_system", "load_user", "load_project", "load_runtime"])]]
            if rng.random() < 0.85:
                out.append(self.settle())
            return out
        return [[rng.choice(["load_system", "load_user", "load_project", "load_runtime", "merge"])]]

    def case(self):
        rng = self.rng
        fs = []
        for loc in ("sys", "usr"):
            if rng.random() < 0.5:
                fs.append([loc, rng.choice(cc.SUFFIXES), {"data": self.inst(kinds="nbisl")}])
        init = {"defaults": self.inst(0.9), "overrides": self.inst(0.2) if rng.random() < 0.4 else None,
                "proj": None, "rt": None, "lazy": False}
        ops = []
        if rng.random() < 0.25:
            fs.append(["projA", rng.choice(cc.SUFFIXES), {"data": self.inst(kinds="nbisl")}])
            init["proj"] = "projA"
            ops.append(["load_project"])
        if rng.random() < 0.2:
            sfx = rng.choice(cc.SUFFIXES)
            fs.append(["rtA", sfx, {"data": self.inst(0.3, kinds="nbisl")}])
            init["rt"] = ["rtA", sfx]
            ops.append(["load_runtime"])
        if rng.random() < 0.3:
            ops.append(["load_collection", self.inst()])
        if rng.random() < 0.3:        # second locations, for re-pointing inside the history
            self.files["projB"] = rng.choice(cc.SUFFIXES)
            fs.append(["projB", self.files["projB"], {"data": self.inst(kinds="nbisl")}])
        if rng.random() < 0.25:
            self.files["rtB"] = rng.choice(cc.SUFFIXES)
            fs.append(["rtB", self.files["rtB"], {"data": self.inst(0.4, kinds="nbisl")}])
        for loc, sfx, _ in fs:
            self.files.setdefault(loc, sfx)
        n = rng.randint(1, 8) if not self.long else rng.randint(6, 25)
        hold_rate = rng.choice([0.0, 0.12, 0.2])
        if rng.random() < 0.03:
            # the F-C06b corner on purpose: a proxy held across the deletion of a
            # section it then writes through
            nested = [p for p in self.sections() if len(p) >= 2]
            if nested:
                q = rng.choice(nested)
                k = self.pick_key(q, want_leaf=True, p_fresh=0.5)
                v, isd = self.value_for(q, k)
                if not isd:
                    ops += [["hold", 90, "item", list(q[:-1])],
                            ["set", "item", [], self.pick_key((), want_leaf=True, p_fresh=1.0), 1],
                            ["del", "item", list(q[:-1]), q[-1]],
                            ["via", 90, ["set", "item", [q[-1]], k, v]]]
                    return {"fs": fs, "init": init, "ops": ops}
        while len(ops) < n + 3:
            r = rng.random()
            secs = [p for p in self.sections() if p]
            if r < hold_rate and secs and len(self.handles) < 3:
                p = rng.choice(secs)
                h = self.next_h
                self.next_h += 1
                self.handles[h] = tuple(p)
                ops.append(["hold", h, rng.choice(["item", "attr"]), list(p)])
            elif r < hold_rate + 0.13:
                ops.extend(self.reload())
            elif r < hold_rate + 0.16:
                self.handles = {}
                # clone(), or clone(into=<subclass with its own global defaults>): judged by C11,
                # the history goes on with the clone
                ops.append(["clone", None if rng.random() < 0.75 else self.inst(0.3)])
            elif self.handles and rng.random() < 0.45:
                h = rng.choice(list(self.handles))
                hp = self.handles[h]
                op = self.path_op(base=hp)
                ops.append(["via", h, op])
            else:
                ops.append(self.path_op())
        return {"fs": fs, "init": init, "ops": ops}


# --------------------------------------------------------------------------
# Python twin of the nested-dict reference -- used ONLY to say which known
# mechanism a failing case belongs to (the verdict is Spec.C06Spec.spec_ok)
# --------------------------------------------------------------------------
def overlay(a, b):
    out = copy.deepcopy(a)
    for k, v in b.items():
        if isinstance(v, dict) and isinstance(out.get(k), dict):
            out[k] = overlay(out[k], v)
        else:
            out[k] = copy.deepcopy(v)
    return out


def set_path(d, p, v):
    for k in p[:-1]:
        if not isinstance(d.get(k), dict):
            d[k] = {}
        d = d[k]
    d[p[-1]] = copy.deepcopy(v)


def del_path(d, p):
    for k in p[:-1]:
        if not isinstance(d.get(k), dict):
            return
        d = d[k]
    d.pop(p[-1], None)


def base_of(case, loads, env):
    lv = supplied_levels(dict(case, ops=loads))
    out = {}
    for name in ("defaults", "collection", "system", "user", "project"):
        out = overlay(out, cc.unjson(lv[name]) or {})
    out = overlay(out, cc.unjson(env) or {})
    for name in ("runtime", "overrides"):
        out = overlay(out, cc.unjson(lv[name]) or {})
    return out


def diff_paths(a, b, pre=()):
    """minimal paths at which two trees differ"""
    if isinstance(a, dict) and isinstance(b, dict):
        out = []
        for k in list(a) + [k for k in b if k not in a]:
            if k not in a or k not in b:
                out.append(pre + (k,))
            else:
                out.extend(diff_paths(a[k], b[k], pre + (k,)))
        return out
    return [] if (a == b and type(a) is type(b)) else [pre]


def expect(root, op, out):
    """what a nested dict rooted at ``root`` answers to the path operation ``op``
    (absolute key path), and the edits it performs: (want, events)"""
    name, fl, kp = op[0], op[1], op[2]
    miss = {"err": "KeyError" if fl == "item" else "AttributeError"}
    d = root
    for k in kp:
        if isinstance(d, dict) and k in d and isinstance(d[k], dict):
            d = d[k]
        else:
            return miss, []
    J = cc.jsonable
    if name == "get":
        return ({"val": J(d[op[3]])} if op[3] in d else miss), []
    if name == "set":
        return {"none": 1}, [("set", kp + [op[3]], cc.unjson(op[4]))]
    if name == "del":
        return ({"none": 1}, [("del", kp + [op[3]])]) if op[3] in d else (miss, [])
    if name == "pop":
        if op[3] in d:
            return {"val": J(d[op[3]])}, [("del", kp + [op[3]])]
        return ({"val": op[4]["d"]} if op[4] is not None else {"err": "KeyError"}), []
    if name == "popitem":
        if not d:
            return {"err": "KeyError"}, []
        if "pair" in out and out["pair"][0] in d:
            return {"pair": [out["pair"][0], J(d[out["pair"][0]])]}, [("del", kp + [out["pair"][0]])]
        return {"err": "?"}, []
    if name == "clear":
        return {"none": 1}, [("del", kp + [k]) for k in list(d)]
    if name == "setdefault":
        if op[3] in d:
            return {"val": J(d[op[3]])}, []
        dv = None if op[4] is None else cc.unjson(op[4]["d"])
        return {"val": J(dv)}, [("set", kp + [op[3]], dv)]
    if name == "update":
        return {"none": 1}, [("set", kp + [k], cc.unjson(v)) for k, v in op[3]]
    if name == "update_both":
        return {"none": 1}, [("set", kp + [k], cc.unjson(v)) for k, v in list(op[3]) + list(op[4])]
    if name == "update_proxy":
        sd = root
        for k in op[3]:
            if isinstance(sd, dict) and k in sd and isinstance(sd[k], dict):
                sd = sd[k]
            else:
                return miss, []
        return {"none": 1}, [("set", kp + [k], copy.deepcopy(v)) for k, v in sd.items()]
    if name == "rawset":
        if isinstance(d.get(op[3]), dict):
            return {"none": 1}, [("set", kp + [op[3], op[4]], cc.unjson(op[5]))]
        return {"err": "TypeError"}, []
    if name == "contains":
        return {"bool": op[3] in d}, []
    if name == "len":
        return {"nat": len(d)}, []
    if name == "keys":
        return {"keys": list(d)}, []
    if name == "view":
        return {"val": J(d)}, []
    if name == "eq":
        return {"bool": bool(op[3])}, []
    if name == "getm":
        if op[3] in d:
            return {"val": J(d[op[3]])}, []
        return {"val": None if op[4] is None else op[4]["d"]}, []
    return {"none": 1}, []


def same_out(out, want):
    if "keys" in out and "keys" in want:
        return sorted(out["keys"]) == sorted(want["keys"])
    return out == want


def apply_events(root, evs):
    for e in evs:
        if e[0] == "set":
            set_path(root, e[1], e[2])
        else:
            del_path(root, e[1])


def diagnose(case, obs):
    """First step at which the nested-dict reference disagrees with what was
    observed: (index, "outcome"|"view"|..., info) or None.  ``info`` carries what
    the attribution of known mechanisms needs: the paths at which the views
    differ, what the held proxy's own snapshot would have answered, the dict
    writes and raw-dict writes so far."""
    journal, loads, env = [], [], {}
    handles = {}          # h -> (generation, path)
    gen, snaps = 0, {}    # cache generations that some held proxy points into
    st = base_of(case, loads, env)
    dict_writes, raw_writes, lost_writes, stale_paths = [], [], [], []

    def remerged():
        nonlocal gen
        gen += 1
    for i, (op0, step) in enumerate(zip(case["ops"], obs["trace"])):
        out, view = step["out"], cc.unjson(step["view"])
        op, via = op0, None
        if op[0] == "hold":
            want, _ = expect(st, ["len", op[2], list(op[3])], out)
            want = {"none": 1} if "nat" in want else want
            if "none" in want:
                handles[op[1]] = (gen, list(op[3]))
                snaps.setdefault(gen, copy.deepcopy(st))
            if out != want or view != st:
                return i, "hold", {"op": op}
            continue
        if op[0] == "via":
            if op[1] not in handles:
                continue
            via = op[1]
            g, hp = handles[via]
            o = list(op[2])
            o[2] = hp + list(o[2])
            op = o
        name = op[0]
        if name in cc.PATH_OPS:
            want, evs = expect(st, op, out)
            info = {"op": op, "via": via}
            if via is not None:
                g = handles[via][0]
                info["stale"] = g != gen
                if g in snaps:
                    info["snap"] = expect(snaps[g], op, out)
                    if g != gen:
                        # edits the stale snapshot decides differently from the live view surface later
                        se = [(e[0], list(e[1])) for e in info["snap"][1]]
                        le = [(e[0], list(e[1])) for e in evs]
                        stale_paths.extend(e[1] for e in se if e not in le)
                        stale_paths.extend(e[1] for e in le if e not in se)
            # the edit lands in the nested dict ...
            apply_events(st, evs)
            for e in evs:
                journal.append(e)
                if e[0] == "set" and isinstance(e[2], dict):
                    dict_writes.append((e[1], e[2]))
            if name == "rawset" and evs:
                raw_writes.append(evs[0][1])
            if name == "update_both" and evs and op[4]:
                lost_writes.extend(list(op[2]) + [k] for k, _ in op[3] if k not in [x[0] for x in op[4]])
            # ... and, as a local edit, in the cache generation of the proxy used
            tgt = handles[via][0] if via is not None else gen
            if tgt in snaps:
                # a stale proxy edits its own snapshot by what IT holds (a clear through it removes the
                # snapshot's keys, not the live ones)
                own = info["snap"][1] if (via is not None and info.get("stale") and "snap" in info) else evs
                apply_events(snaps[tgt], own)
            for e in evs:
                for h, (hg, hp) in list(handles.items()):
                    if hp[:len(e[1])] == e[1] and (e[0] == "del" or isinstance(e[2], dict)):
                        del handles[h]
                    elif e[0] == "set" and isinstance(e[2], dict) and e[1][:len(hp)] == hp:
                        del handles[h]
            info["diff"] = diff_paths(view, st)
            info["dict_writes"] = list(dict_writes)
            info["raw_writes"] = list(raw_writes)
            info["lost_writes"] = list(lost_writes)
            info["stale_paths"] = list(stale_paths)
            if not same_out(out, want):
                return i, "outcome", info
            if view != st:
                return i, "view", info
            if evs and name != "rawset":
                remerged()
            continue
        if name.endswith("_d") or name.startswith("set_"):
            # merge=False / re-pointing: recorded, visible at the next call that merges
            loads.append(op)
            if "err" not in out and view != st:
                return i, "view", {"op": op, "via": None, "dict_writes": list(dict_writes),
                                   "raw_writes": list(raw_writes), "lost_writes": list(lost_writes),
                                   "stale_paths": list(stale_paths), "diff": diff_paths(view, st)}
            continue
        if name.startswith("load_") or name == "merge":
            if "err" in out:
                return i, "reload-error", {"op": op, "dict_writes": list(dict_writes), "raw_writes": list(raw_writes),
                                           "lost_writes": list(lost_writes), "stale_paths": list(stale_paths), "diff": []}
            loads.append(op)
            env = step["env"]
            st = base_of(case, loads, env)
            apply_events(st, journal)
            remerged()
            if view != st:
                return i, "view", {"op": op, "via": None, "dict_writes": list(dict_writes),
                                   "raw_writes": list(raw_writes), "lost_writes": list(lost_writes),
                                   "stale_paths": list(stale_paths), "diff": diff_paths(view, st)}
            continue
        if name == "clone":
            handles = {}
            if view != st:
                return i, "view", {"op": op, "via": None, "dict_writes": list(dict_writes),
                                   "raw_writes": list(raw_writes), "lost_writes": list(lost_writes),
                                   "stale_paths": list(stale_paths), "diff": diff_paths(view, st)}
    return None


def under(p, q):
    """path p lies at or below path q"""
    return list(p[:len(q)]) == list(q)


def levels_have_section_with_other_key(case, obs, path, value):
    """does some level content appearing in the case hold, at ``path`` or below
    it inside ``value``, a section with a key the written dict does not have?"""
    contents = []
    for k in range(len(case["ops"]) + 1):
        loads = [o for o in case["ops"][:k] if o[0].startswith("load_") or o[0].startswith("set_")]
        lv = supplied_levels(dict(case, ops=loads))
        contents.extend(cc.unjson(t) or {} for t in lv.values())
    for st in obs.get("trace", []):
        contents.append(cc.unjson(st["env"]) or {})
    # earlier writes are a level too (the modifications level)
    def sub(t, p):
        for k in p:
            if not isinstance(t, dict) or k not in t:
                return None
            t = t[k]
        return t

    def differs(sec, val):
        if not isinstance(sec, dict) or not isinstance(val, dict):
            return False
        if any(k not in val for k in sec):
            return True
        return any(differs(sec[k], val[k]) for k in sec if isinstance(sec[k], dict))
    return any(differs(sub(c, path), value) for c in contents)


class C06(Prop):
    id = "C06"
    corr_module = "Corr.C06Corr"
    quick_n = 1300
    thorough_n = 20000
    shard_size = 120
    rule = ("one schema per case (grown by the writes) keeps every level, reload and written value type-"
            "consistent; histories of 1-25 operations over all mutators and readers, item and attribute "
            "syntax (mixed inside one navigation), through the root or through 1-3 held nested proxies "
            "fetched earlier (used after other writes/reloads re-merged the root), interleaved with "
            "load_defaults/overrides/collection/shell_env, merge=False loads and re-pointings of the project / "
            "runtime location followed by merge() or a reload, reloads of file levels, clone() and clone(into=...); "
            "keys with a leading/trailing underscore (_a, a_) in 40% of the cases; update() with a dict, keyword "
            "arguments, a list of pairs, one-shot iterables (generator, zip, iter) and no/empty argument; reads also through .get(k[,d]), items(), "
            "values(), iter and ==; pop(k, None); update(mapping, **kw), update(<nested proxy>) and edits "
            "through the raw dict handed out by get()/setdefault() at a low rate (known findings F-C06g/h); "
            "list and tuple leaves in levels and writes; 3% of the cases walk into the F-C06b corner on "
            "purpose; the deep view is read through the root after every operation.  Non-trivial = a deletion followed later by a reload or by a "
            "write at another depth, or a mutation through a held proxy that went stale")
    trusted_base = [
        "Coq 8.16.1 kernel + vm_compute (shard evaluation)",
        "hand-written model coq/Model/ConfigModel.v (+ MergeModel.v, EnvModel.v) tied to invoke/config.py "
        "by differential execution of whole histories (this run)",
        "harness/coqterm.py, harness/config_common.py, harness/props/c06.py (generator, canonicaliser; "
        "the Python twin of the reference is used only to name the known mechanism of a failing case)",
        "CPython 3.12 executing the repository under test",
    ]
    assumptions = [
        "type-consistent values (the property's quantifier): a path is a section everywhere or a leaf everywhere",
        "held proxies are used only while their own section and its ancestors have not been deleted or "
        "overwritten by a dict (F-C06b corner excluded)",
        "keys are not names of real attributes/dict-protocol methods under attribute syntax",
        "the environment level after load_shell_env is taken as observed (its content is C16's subject)",
        "after a merge=False load or a re-pointing the history is judged only if the next call merges "
        "(merge(), a dict-level reload, load_shell_env); values are of the modelled leaf kinds "
        "(an uncopyable value: known finding F-C06i, extra check)",
    ]
    not_modelled = [
        "state of a Config after merge() raised (histories end at the first exception that is not "
        "KeyError/AttributeError)",
        "aliasing between a written dict object and the modifications level",
        "navigation through a leaf value",
    ]

    def teardown(self):
        cc.cleanup()

    def generate(self, rng, tier, n):
        for i in range(n):
            yield Gen(rng, long=(i % 3 == 0)).case()

    def enumerate_small(self, tier):
        base = {"fs": [], "init": {"defaults": {"a": {"x": 0, "y": 0}, "k": 1}, "overrides": None,
                                   "proj": None, "rt": None, "lazy": False}}
        alpha = [
            ["set", "item", ["a"], "x", 1], ["set", "attr", [], "a", {"x": 1}], ["set", "item", [], "k", 2],
            ["del", "item", ["a"], "x"], ["del", "attr", [], "a"], ["del", "item", [], "k"],
            ["pop", "item", ["a"], "y", None], ["setdefault", "item", ["a"], "z", {"d": 2}],
            ["clear", "item", ["a"]], ["load_defaults", {"a": {"x": 5}}], ["load_collection", {}],
            ["load_overrides", {"a": {"y": 7}}], ["clone", None], ["hold", 0, "item", ["a"]],
            ["via", 0, ["del", "item", [], "x"]], ["via", 0, ["set", "item", [], "x", 3]],
            ["via", 0, ["pop", "item", [], "y", {"d": 9}]],
        ]
        maxlen = 3 if tier == "thorough" else 2

        def in_scope(ops):
            # the held proxy (section a) leaves the scope once a is deleted or overwritten by a dict
            dead = False
            for o in ops:
                if o[0] == "hold":
                    dead = False
                elif o[0] == "via" and dead:
                    return False
                elif (o[0] == "del" and o[2] == [] and o[3] == "a") or \
                        (o[0] == "set" and o[2] == [] and o[3] == "a") or o[0] == "clone":
                    dead = True
            return True
        for n in range(1, maxlen + 1):
            for ops in itertools.product(alpha, repeat=n):
                if in_scope(ops):
                    yield dict(base, ops=[copy.deepcopy(o) for o in ops])

    def run_impl(self, case, rng_seed=1):
        import random
        rng = random.Random(rng_seed)
        s = cc.Session(case)
        try:
            try:
                cfg = s.construct()
            except Exception as e:
                return {"view0": {"err": type(e).__name__}, "trace": []}
            obs = {"view0": {"ok": cc.view_of(cfg)}, "trace": []}
            for op in case["ops"]:
                cfg, out = s.try_op(cfg, op, rng)
                obs["trace"].append({"out": out, "view": cc.view_of(cfg), "env": cc.level_view(cfg._env)})
                if cc.abnormal(out):
                    break
            return obs
        finally:
            s.close()

    def to_coq(self, case, obs):
        v0 = obs["view0"]
        v0c = "(Err %s)" % ct.err(v0["err"]) if "err" in v0 else "(Ok %s)" % cc.c_tree(v0["ok"])
        tr = ct.lst(["(%s, %s, %s)" % (cc.c_outcome(s["out"]), cc.c_tree(s["view"]), cc.c_tree(s["env"]))
                     for s in obs["trace"]])
        return "(mk %s %s %s %s %s)" % (cc.c_fs(case["fs"]), cc.c_init(case["init"]),
                                        cc.c_sops(case["ops"]), v0c, tr)

    # -- statistics ----------------------------------------------------------
    def nontrivial(self, case, obs):
        ops = case["ops"]
        dels = [i for i, o in enumerate(ops) if (o[2][0] if o[0] == "via" else o[0]) in
                ("del", "pop", "popitem", "clear")]
        if not dels:
            return False
        first = dels[0]
        later = ops[first + 1:]
        if any(o[0] in RELOADS for o in later):
            return True
        if any((o[2][0] if o[0] == "via" else o[0]) in ("set", "update", "setdefault") for o in later):
            return True
        return any(o[0] == "via" for o in ops)

    def classify(self, case, obs):
        n = len(case["ops"])
        b = "len<=4" if n <= 4 else ("len<=12" if n <= 12 else "len>12")
        if any(o[0] == "via" for o in case["ops"]):
            b += "+held"
        if obs["trace"] and cc.abnormal(obs["trace"][-1]["out"]):
            b += "+err:" + obs["trace"][-1]["out"]["err"]
        return b

    # -- known mechanisms ------------------------------------------------------
    def finding_of(self, case, obs):
        if "err" in obs["view0"]:
            return None
        try:
            d = diagnose(case, {"trace": obs["trace"]})
        except Exception:
            return None
        if d is None:
            return None
        i, what, info = d
        op = info.get("op") or case["ops"][i]
        out = obs["trace"][i]["out"]
        diff = info.get("diff", [])
        # F-C06g: update(<nested proxy>) iterates the proxy's KEYS as if they were pairs
        if op[0] == "update_proxy" and what in ("outcome", "view"):
            return "F-C06g"
        # F-C06f: update(mapping, **kw) ignores the mapping: only keys of the mapping are wrong
        # F-C06b: write through a held proxy below a section deleted meanwhile -> TypeError in excise()
        if what == "outcome" and info.get("via") is not None and info.get("stale") \
                and out == {"err": "TypeError"} and op[0] in ("set", "setdefault", "update"):
            return "F-C06b"
        # F-C06e: a held proxy that went stale decided by its own snapshot, not by the live view
        if info.get("via") is not None and info.get("stale") and "snap" in info:
            swant, sevs = info["snap"]
            if what == "outcome" and same_out(out, swant):
                return "F-C06e"
            if what == "view":
                live = expect(self._live_before(case, obs, i), op, out)
                if same_out(out, swant) and [e[:2] for e in sevs] != [e[:2] for e in live[1]]:
                    return "F-C06e"
        # a view disagreement: EVERY path at which the views differ must be explained by a known
        # mechanism (several may show up in the same step)
        if what == "view" and diff:
            bad = [pv[0] for pv in info.get("dict_writes", [])
                   if levels_have_section_with_other_key(case, obs, pv[0], pv[1])]

            def why(p):
                if any(under(p, q) or under(q, p) for q in info.get("stale_paths", [])):
                    return "F-C06e"      # an earlier stale decision surfaces
                if any(under(p, q) or under(q, p) for q in info.get("raw_writes", [])):
                    return "F-C06h"      # raw-dict edit lost at a re-merge
                if any(under(p, q) for q in bad):
                    return "F-C06a"      # dict written onto a section of a lower level
                return None
            reasons = [why(p) for p in diff]
            if all(reasons):
                return reasons[0]
        return None

    def extra_checks(self, tier, seed):
        return [self.check_uncopyable()]

    def check_uncopyable(self):
        """F-C06i: a written value copy.copy cannot copy raises from merge() after it
        was recorded; every later write / reload raises too."""
        import threading
        res = {"name": "uncopyable-value", "evaluations": 0, "failures": [],
               "note": "witness of the known finding F-C06i (values outside the modelled leaf kinds)"}
        case = {"fs": [], "init": {"defaults": {"k": 1}, "lazy": True}, "ops": []}
        s = cc.Session(case)
        try:
            cfg = s.construct()
            steps = []
            for what, f in (("c.lock = threading.Lock()", lambda: cfg.__setattr__("lock", threading.Lock())),
                            ("c.y = 1", lambda: cfg.__setitem__("y", 1)),
                            ("c.load_defaults({})", lambda: cfg.load_defaults({}))):
                try:
                    f()
                    steps.append((what, None))
                except Exception as e:
                    steps.append((what, type(e).__name__))
            res["evaluations"] += 1
            bad = [w for w, e in steps if e is not None]
            if bad:
                known = [e for _, e in steps] == ["TypeError"] * 3
                f = {"case": {"steps": steps}, "what": "raised: %r" % (steps,)}
                if known:
                    f["finding"] = "F-C06i"
                res["failures"].append(f)
        finally:
            s.close()
        return [res][0]

    def _live_before(self, case, obs, i):
        """the nested-dict reference right before step i (views agree up to there)"""
        if i == 0:
            return cc.unjson(obs["view0"]["ok"])
        return cc.unjson(obs["trace"][i - 1]["view"])

    def shrink_candidates(self, case):
        ops = case["ops"]
        for i in range(len(ops) - 1, 0, -1):
            yield dict(case, ops=ops[:i])
        yield from cc.shrink_common(case)
        for i, op in enumerate(ops):
            if op[0] == "via":
                yield dict(case, ops=ops[:i] + [op[2]] + ops[i + 1:])

    def mutate(self, case, rng):
        ops = case["ops"]
        for _ in range(30):
            if not ops:
                return
            i = rng.randrange(len(ops))
            j = rng.randrange(len(ops))
            new = [copy.deepcopy(o) for o in ops]
            r = rng.random()
            if r < 0.4:
                new[i], new[j] = new[j], new[i]
            elif r < 0.7:
                new.insert(j, copy.deepcopy(ops[i]))
            else:
                del new[i]
            yield dict(case, ops=new)


PROP = C06()
