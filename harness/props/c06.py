"""C06: a config behaves like a nested dict under any history of edits and
reloads (through the root or held nested proxies, item or attribute syntax)."""
import copy
import itertools

from .. import config_common as cc
from .. import coqterm as ct
from .. import gen_tree as gt
from ..core import Prop
from .c03 import supplied_levels

MUTATORS = ("set", "del", "pop", "popitem", "clear", "setdefault", "update")
READERS = ("get", "contains", "len", "keys")
RELOADS = ("load_defaults", "load_overrides", "load_collection", "load_shell_env")


# --------------------------------------------------------------------------
# generator state: a schema (path -> section | leaf kind) grown by the writes
# --------------------------------------------------------------------------
class Gen:
    def __init__(self, rng, long=False):
        self.rng = rng
        self.sch = cc.schema(rng, depth=rng.choice([2, 3, 3]), width=rng.choice([2, 3, 4]),
                             kinds="nbis", p_section=0.5)
        if not any(isinstance(v, dict) for v in self.sch.values()):
            self.sch[rng.choice(["s", "t"])] = {"x": "i", "y": "s"}
        self.handles = {}      # id -> absolute path (alive, in scope)
        self.deleted = set()   # paths some delete was aimed at (conservative)
        self.next_h = 0
        self.long = long

    # schema helpers
    def sections(self):
        return [()] + [p for p, sec in cc.schema_paths(self.sch) if sec]

    def node(self, p):
        t = self.sch
        for k in p:
            t = t[k]
        return t

    def inst(self, p_keep=None):
        return gt.jsonable(cc.instance(self.rng, self.sch, p_keep or self.rng.choice([0.4, 0.7, 0.9])))

    def kill(self, p, dict_write=False):
        """handles at or below a deleted/overwritten path leave the scope; a dict
        written at ``p`` also ends the handles above it (the written object is
        shared between their cache snapshot and the modifications level)"""
        for h, hp in list(self.handles.items()):
            if tuple(hp[:len(p)]) == tuple(p) or (dict_write and tuple(p[:len(hp)]) == tuple(hp)):
                del self.handles[h]
        if not dict_write:
            self.deleted.add(tuple(p))

    def value_for(self, kp, k):
        """(value, is_dict) for a write at kp+[k], keeping the schema consistent"""
        rng = self.rng
        par = self.node(kp)
        if k in par:
            if isinstance(par[k], dict):
                return gt.jsonable(cc.instance(rng, par[k], rng.choice([0.3, 0.7, 1.0]))), True
            return gt.leaf(rng, par[k]), False
        if rng.random() < 0.25:
            sub = cc.schema(rng, depth=rng.choice([1, 2]), width=2, kinds="nbis")
            par[k] = sub
            return gt.jsonable(cc.instance(rng, sub, 0.8)), True
        par[k] = rng.choice("nbis")
        return gt.leaf(rng, par[k]), False

    def pick_key(self, kp, want_leaf=None, p_fresh=0.15):
        rng = self.rng
        par = self.node(kp)
        ks = list(par)
        if want_leaf is True:
            ks = [k for k in ks if not isinstance(par[k], dict)]
        if ks and rng.random() > p_fresh:
            return rng.choice(ks)
        return rng.choice([k for k in cc.SAFE_KEYS + ["z", "w"] if k not in par] or ["zz"])

    def path_op(self, base=()):
        """a path operation relative to the section ``base``; returns (op, abs effects)"""
        rng = self.rng
        secs = [p for p in self.sections() if tuple(p[:len(base)]) == tuple(base)]
        if base:
            # through a held proxy: do not walk through sections a delete was aimed at
            # (F-C06b corner), except rarely
            ok = [p for p in secs if not any(tuple(p[:i]) in self.deleted for i in range(len(base) + 1, len(p) + 1))]
            secs = ok if (ok and rng.random() < 0.97) else secs
        abs_kp = rng.choice(secs) if rng.random() < (0.6 if not base else 0.3) else tuple(base)
        kp = list(abs_kp[len(base):])
        fl = rng.choice(["item", "attr"])
        kind = rng.choices(
            ["set", "del", "pop", "popitem", "clear", "setdefault", "update", "get", "contains", "len", "keys"],
            [24, 13, 8, 3, 3, 6, 5, 8, 3, 2, 2])[0]
        if kind == "set":
            k = self.pick_key(abs_kp, want_leaf=(True if rng.random() < 0.9 else None))
            v, isd = self.value_for(abs_kp, k)
            if isd:
                self.kill(abs_kp + (k,), True)
            return ["set", fl, kp, k, v]
        if kind == "del":
            k = self.pick_key(abs_kp, p_fresh=0.08)
            self.kill(abs_kp + (k,))
            return ["del", fl, kp, k]
        if kind == "pop":
            k = self.pick_key(abs_kp, p_fresh=0.3)
            self.kill(abs_kp + (k,))
            if k not in self.node(abs_kp):      # later reloads may define the key popped in vain
                self.node(abs_kp)[k] = rng.choice("is")
            d = None if rng.random() < 0.4 else {"d": gt.leaf(rng, "is")}
            return ["pop", fl, kp, k, d]
        if kind == "popitem":
            for k in list(self.node(abs_kp)):
                self.kill(abs_kp + (k,))
            return ["popitem", fl, kp]
        if kind == "clear":
            for k in list(self.node(abs_kp)):
                self.kill(abs_kp + (k,))
            return ["clear", fl, kp]
        if kind == "setdefault":
            k = self.pick_key(abs_kp, p_fresh=0.5)
            if rng.random() < 0.08:
                # one argument: stores None -- only where the schema has a leaf or nothing
                k = self.pick_key(abs_kp, want_leaf=True, p_fresh=0.5)
                if k not in self.node(abs_kp):
                    self.node(abs_kp)[k] = "n"
                return ["setdefault", fl, kp, k, None]
            v, isd = self.value_for(abs_kp, k)
            if isd:
                self.kill(abs_kp + (k,), True)
            return ["setdefault", fl, kp, k, {"d": v}]
        if kind == "update":
            kvs = []
            for _ in range(rng.randint(1, 3)):
                k = self.pick_key(abs_kp, want_leaf=(True if rng.random() < 0.92 else None), p_fresh=0.3)
                if k in [x[0] for x in kvs]:
                    continue
                v, isd = self.value_for(abs_kp, k)
                if isd:
                    self.kill(abs_kp + (k,), True)
                kvs.append([k, v])
            style = rng.choice(["dict", "kwargs", "pairs"])
            return ["update", fl, kp, kvs, style]
        if kind == "get":
            return ["get", fl, kp, self.pick_key(abs_kp, p_fresh=0.15)]
        if kind == "contains":
            return ["contains", fl, kp, self.pick_key(abs_kp, p_fresh=0.3)]
        return [kind, fl, kp]

    def reload(self):
        rng = self.rng
        r = rng.random()
        if r < 0.35:
            return ["load_defaults", self.inst()]
        if r < 0.55:
            return ["load_overrides", self.inst(rng.choice([0.1, 0.3]))]
        if r < 0.8:
            return ["load_collection", self.inst()]
        return ["load_shell_env", cc.env_for(rng, self.sch, rng.choice([0.2, 0.5]), p_bad=0.0)]

    def case(self):
        rng = self.rng
        fs = []
        for loc in ("sys", "usr"):
            if rng.random() < 0.5:
                fs.append([loc, rng.choice(cc.SUFFIXES), {"data": self.inst()}])
        init = {"defaults": self.inst(0.9), "overrides": self.inst(0.2) if rng.random() < 0.4 else None,
                "proj": None, "rt": None, "lazy": False}
        ops = []
        if rng.random() < 0.25:
            fs.append(["projA", rng.choice(cc.SUFFIXES), {"data": self.inst()}])
            init["proj"] = "projA"
            ops.append(["load_project"])
        if rng.random() < 0.2:
            sfx = rng.choice(cc.SUFFIXES)
            fs.append(["rtA", sfx, {"data": self.inst(0.3)}])
            init["rt"] = ["rtA", sfx]
            ops.append(["load_runtime"])
        if rng.random() < 0.3:
            ops.append(["load_collection", self.inst()])
        n = rng.randint(1, 8) if not self.long else rng.randint(6, 25)
        hold_rate = rng.choice([0.0, 0.12, 0.2])
        while len(ops) < n + 3:
            r = rng.random()
            secs = [p for p in self.sections() if p]
            if r < hold_rate and secs and len(self.handles) < 3:
                p = rng.choice(secs)
                h = self.next_h
                self.next_h += 1
                self.handles[h] = tuple(p)
                ops.append(["hold", h, rng.choice(["item", "attr"]), list(p)])
            elif r < hold_rate + 0.13:
                ops.append(self.reload())
            elif r < hold_rate + 0.16:
                self.handles = {}
                ops.append(["clone", None])
            elif self.handles and rng.random() < 0.45:
                h = rng.choice(list(self.handles))
                hp = self.handles[h]
                op = self.path_op(base=hp)
                ops.append(["via", h, op])
            else:
                ops.append(self.path_op())
        return {"fs": fs, "init": init, "ops": ops}


# --------------------------------------------------------------------------
# Python twin of the nested-dict reference -- used ONLY to say which known
# mechanism a failing case belongs to (the verdict is Spec.C06Spec.spec_ok)
# --------------------------------------------------------------------------
def overlay(a, b):
    out = copy.deepcopy(a)
    for k, v in b.items():
        if isinstance(v, dict) and isinstance(out.get(k), dict):
            out[k] = overlay(out[k], v)
        else:
            out[k] = copy.deepcopy(v)
    return out


def set_path(d, p, v):
    for k in p[:-1]:
        if not isinstance(d.get(k), dict):
            d[k] = {}
        d = d[k]
    d[p[-1]] = copy.deepcopy(v)


def del_path(d, p):
    for k in p[:-1]:
        if not isinstance(d.get(k), dict):
            return
        d = d[k]
    d.pop(p[-1], None)


def base_of(case, loads, env):
    lv = supplied_levels(dict(case, ops=loads))
    out = {}
    for name in ("defaults", "collection", "system", "user", "project"):
        out = overlay(out, gt.unjson(lv[name]) or {})
    out = overlay(out, gt.unjson(env) or {})
    for name in ("runtime", "overrides"):
        out = overlay(out, gt.unjson(lv[name]) or {})
    return out


def diagnose(case, obs):
    """(index of the first step the reference disagrees at, what, info) or None"""
    if "err" in obs.get("view0", {}) if isinstance(obs.get("view0"), dict) else False:
        return None
    journal, loads, env = [], [], {}
    handles = {}
    st = base_of(case, loads, env)
    dict_writes = []      # (abs path, value) of dict-valued writes so far
    merges_since = {}     # handle -> number of re-merges since it was fetched
    for i, (op, step) in enumerate(zip(case["ops"], obs["trace"])):
        out, view = step["out"], gt.unjson(step["view"])
        via = None
        if op[0] == "hold":
            try:
                t = st
                for k in op[3]:
                    t = t[k]
                    if not isinstance(t, dict):
                        raise KeyError(k)
                handles[op[1]] = list(op[3])
                merges_since[op[1]] = 0
                want = {"none": 1}
            except (KeyError, TypeError):
                want = {"err": "KeyError" if op[2] == "item" else "AttributeError"}
            if out != want or view != st:
                return i, "hold", {}
            continue
        if op[0] == "via":
            if op[1] not in handles:
                continue
            via = op[1]
            o = list(op[2])
            o[2] = handles[op[1]] + list(o[2])
            op = o
        name = op[0]
        if name in cc.PATH_OPS:
            fl, kp = op[1], op[2]
            miss = {"err": "KeyError" if fl == "item" else "AttributeError"}
            d = st
            ok = True
            for k in kp:
                if isinstance(d, dict) and k in d and isinstance(d[k], dict):
                    d = d[k]
                else:
                    ok = False
                    break
            evs = []
            if not ok:
                want = miss
            elif name == "get":
                want = {"val": gt.jsonable(d[op[3]])} if op[3] in d else miss
            elif name == "set":
                want, evs = {"none": 1}, [("set", kp + [op[3]], gt.unjson(op[4]))]
            elif name == "del":
                want, evs = ({"none": 1}, [("del", kp + [op[3]])]) if op[3] in d else (miss, [])
            elif name == "pop":
                if op[3] in d:
                    want, evs = {"val": gt.jsonable(d[op[3]])}, [("del", kp + [op[3]])]
                elif op[4] is not None:
                    want = {"val": op[4]["d"]}
                else:
                    want = {"err": "KeyError"}
            elif name == "popitem":
                if not d:
                    want = {"err": "KeyError"}
                elif "pair" in out and out["pair"][0] in d:
                    want, evs = {"pair": [out["pair"][0], gt.jsonable(d[out["pair"][0]])]}, \
                        [("del", kp + [out["pair"][0]])]
                else:
                    want = {"err": "?"}
            elif name == "clear":
                want, evs = {"none": 1}, [("del", kp + [k]) for k in list(d)]
            elif name == "setdefault":
                if op[3] in d:
                    want = {"val": gt.jsonable(d[op[3]])}
                else:
                    dv = None if op[4] is None else gt.unjson(op[4]["d"])
                    want, evs = {"val": gt.jsonable(dv)}, [("set", kp + [op[3]], dv)]
            elif name == "update":
                want, evs = {"none": 1}, [("set", kp + [k], gt.unjson(v)) for k, v in op[3]]
            elif name == "contains":
                want = {"bool": op[3] in d}
            elif name == "len":
                want = {"nat": len(d)}
            else:
                want = {"keys": list(d)}
            for e in evs:
                if e[0] == "set":
                    set_path(st, e[1], e[2])
                    if isinstance(e[2], dict):
                        dict_writes.append((e[1], e[2]))
                else:
                    del_path(st, e[1])
                journal.append(e)
                for h, hp in list(handles.items()):
                    if hp[:len(e[1])] == e[1] and (e[0] == "del" or isinstance(e[2], dict)):
                        del handles[h]
                    elif e[0] == "set" and isinstance(e[2], dict) and e[1][:len(hp)] == hp:
                        del handles[h]
            info = {"via": via, "stale": via is not None and merges_since.get(via, 0) > 0,
                    "dict_writes": dict_writes, "op": op}
            same_out = out == want or ("keys" in out and "keys" in want and sorted(out["keys"]) == sorted(want["keys"]))
            if not same_out:
                return i, "outcome", info
            if view != st:
                return i, "view", info
            if evs:
                for h in merges_since:
                    merges_since[h] += 1
            continue
        if name in ("load_defaults", "load_overrides", "load_collection", "load_shell_env", "load_system",
                    "load_user", "load_project", "load_runtime", "set_project_location", "set_runtime_path"):
            if "err" in out:
                return i, "reload-error", {"dict_writes": dict_writes, "op": op}
            loads.append(op)
            env = step["env"]
            st = base_of(case, loads, env)
            for e in journal:
                if e[0] == "set":
                    set_path(st, e[1], e[2])
                else:
                    del_path(st, e[1])
            for h in merges_since:
                merges_since[h] += 1
            if view != st:
                return i, "view", {"via": None, "stale": False, "dict_writes": dict_writes, "op": op}
            continue
        if name == "clone":
            handles, merges_since = {}, {}
            if view != st:
                return i, "view", {"via": None, "stale": False, "dict_writes": dict_writes, "op": op}
    return None


def levels_have_section_with_other_key(case, obs, path, value):
    """does some level content appearing in the case hold, at ``path`` or below
    it inside ``value``, a section with a key the written dict does not have?"""
    contents = []
    for k in range(len(case["ops"]) + 1):
        loads = [o for o in case["ops"][:k] if o[0].startswith("load_") or o[0].startswith("set_")]
        lv = supplied_levels(dict(case, ops=loads))
        contents.extend(gt.unjson(t) or {} for t in lv.values())
    for st in obs.get("trace", []):
        contents.append(gt.unjson(st["env"]) or {})
    # earlier writes are a level too (the modifications level)
    def sub(t, p):
        for k in p:
            if not isinstance(t, dict) or k not in t:
                return None
            t = t[k]
        return t

    def differs(sec, val):
        if not isinstance(sec, dict) or not isinstance(val, dict):
            return False
        if any(k not in val for k in sec):
            return True
        return any(differs(sec[k], val[k]) for k in sec if isinstance(sec[k], dict))
    return any(differs(sub(c, path), value) for c in contents)


class C06(Prop):
    id = "C06"
    corr_module = "Corr.C06Corr"
    quick_n = 1300
    thorough_n = 20000
    shard_size = 120
    rule = ("one schema per case (grown by the writes) keeps every level, reload and written value type-"
            "consistent; histories of 1-25 operations over all mutators and readers, item and attribute "
            "syntax (mixed inside one navigation), through the root or through 1-3 held nested proxies "
            "fetched earlier (used after other writes/reloads re-merged the root), interleaved with "
            "load_defaults/overrides/collection/shell_env and clone; the deep view is read through the "
            "root after every operation.  Non-trivial = a deletion followed later by a reload or by a "
            "write at another depth, or a mutation through a held proxy that went stale")
    trusted_base = [
        "Coq 8.16.1 kernel + vm_compute (shard evaluation)",
        "hand-written model coq/Model/ConfigModel.v (+ MergeModel.v, EnvModel.v) tied to invoke/config.py "
        "by differential execution of whole histories (this run)",
        "harness/coqterm.py, harness/config_common.py, harness/props/c06.py (generator, canonicaliser; "
        "the Python twin of the reference is used only to name the known mechanism of a failing case)",
        "CPython 3.12 executing the repository under test",
    ]
    assumptions = [
        "type-consistent values (the property's quantifier): a path is a section everywhere or a leaf everywhere",
        "held proxies are used only while their own section and its ancestors have not been deleted or "
        "overwritten by a dict (F-C06b corner excluded)",
        "keys are not names of real attributes/dict-protocol methods under attribute syntax",
        "the environment level after load_shell_env is taken as observed (its content is C16's subject)",
    ]
    not_modelled = [
        "state of a Config after merge() raised (histories end at the first exception that is not "
        "KeyError/AttributeError)",
        "aliasing between a written dict object and the modifications level",
        "navigation through a leaf value",
    ]

    def teardown(self):
        cc.cleanup()

    def generate(self, rng, tier, n):
        for i in range(n):
            yield Gen(rng, long=(i % 3 == 0)).case()

    def enumerate_small(self, tier):
        base = {"fs": [], "init": {"defaults": {"a": {"x": 0, "y": 0}, "k": 1}, "overrides": None,
                                   "proj": None, "rt": None, "lazy": False}}
        alpha = [
            ["set", "item", ["a"], "x", 1], ["set", "attr", [], "a", {"x": 1}], ["set", "item", [], "k", 2],
            ["del", "item", ["a"], "x"], ["del", "attr", [], "a"], ["del", "item", [], "k"],
            ["pop", "item", ["a"], "y", None], ["setdefault", "item", ["a"], "z", {"d": 2}],
            ["clear", "item", ["a"]], ["load_defaults", {"a": {"x": 5}}], ["load_collection", {}],
            ["load_overrides", {"a": {"y": 7}}], ["clone", None], ["hold", 0, "item", ["a"]],
            ["via", 0, ["del", "item", [], "x"]], ["via", 0, ["set", "item", [], "x", 3]],
            ["via", 0, ["pop", "item", [], "y", {"d": 9}]],
        ]
        maxlen = 3 if tier == "thorough" else 2

        def in_scope(ops):
            # the held proxy (section a) leaves the scope once a is deleted or overwritten by a dict
            dead = False
            for o in ops:
                if o[0] == "hold":
                    dead = False
                elif o[0] == "via" and dead:
                    return False
                elif (o[0] == "del" and o[2] == [] and o[3] == "a") or \
                        (o[0] == "set" and o[2] == [] and o[3] == "a") or o[0] == "clone":
                    dead = True
            return True
        for n in range(1, maxlen + 1):
            for ops in itertools.product(alpha, repeat=n):
                if in_scope(ops):
                    yield dict(base, ops=[copy.deepcopy(o) for o in ops])

    def run_impl(self, case, rng_seed=1):
        import random
        rng = random.Random(rng_seed)
        s = cc.Session(case)
        try:
            try:
                cfg = s.construct()
            except Exception as e:
                return {"view0": {"err": type(e).__name__}, "trace": []}
            obs = {"view0": {"ok": cc.view_of(cfg)}, "trace": []}
            for op in case["ops"]:
                cfg, out = s.try_op(cfg, op, rng)
                obs["trace"].append({"out": out, "view": cc.view_of(cfg), "env": cc.level_view(cfg._env)})
                if cc.abnormal(out):
                    break
            return obs
        finally:
            s.close()

    def to_coq(self, case, obs):
        v0 = obs["view0"]
        v0c = "(Err %s)" % ct.err(v0["err"]) if "err" in v0 else "(Ok %s)" % cc.c_tree(v0["ok"])
        tr = ct.lst(["(%s, %s, %s)" % (cc.c_outcome(s["out"]), cc.c_tree(s["view"]), cc.c_tree(s["env"]))
                     for s in obs["trace"]])
        return "(mk %s %s %s %s %s)" % (cc.c_fs(case["fs"]), cc.c_init(case["init"]),
                                        cc.c_sops(case["ops"]), v0c, tr)

    # -- statistics ----------------------------------------------------------
    def nontrivial(self, case, obs):
        ops = case["ops"]
        dels = [i for i, o in enumerate(ops) if (o[2][0] if o[0] == "via" else o[0]) in
                ("del", "pop", "popitem", "clear")]
        if not dels:
            return False
        first = dels[0]
        later = ops[first + 1:]
        if any(o[0] in RELOADS for o in later):
            return True
        if any((o[2][0] if o[0] == "via" else o[0]) in ("set", "update", "setdefault") for o in later):
            return True
        return any(o[0] == "via" for o in ops)

    def classify(self, case, obs):
        n = len(case["ops"])
        b = "len<=4" if n <= 4 else ("len<=12" if n <= 12 else "len>12")
        if any(o[0] == "via" for o in case["ops"]):
            b += "+held"
        if obs["trace"] and cc.abnormal(obs["trace"][-1]["out"]):
            b += "+err:" + obs["trace"][-1]["out"]["err"]
        return b

    # -- known mechanisms ------------------------------------------------------
    def finding_of(self, case, obs):
        if "err" in obs["view0"]:
            return None
        o2 = dict(obs, view0=obs["view0"])
        try:
            d = diagnose(case, {"trace": obs["trace"]})
        except Exception:
            return None
        if d is None:
            return None
        i, what, info = d
        op = info.get("op") or case["ops"][i]
        # F-C06b: write through a held proxy below a section deleted meanwhile -> TypeError in excise()
        if what == "outcome" and info.get("via") is not None and info.get("stale") \
                and obs["trace"][i]["out"] == {"err": "TypeError"} and op[0] in ("set", "setdefault", "update"):
            return "F-C06b"
        # F-C06e: a held proxy that went stale decides by its old snapshot
        if info.get("via") is not None and info.get("stale"):
            return "F-C06e"
        # F-C06a: a dict written onto a path where some level has a section with other keys
        if what == "view":
            for p, v in info.get("dict_writes", []):
                if levels_have_section_with_other_key(case, obs, p, v) or self._mods_had(case, i, p, v):
                    return "F-C06a"
        return None

    def _mods_had(self, case, upto, path, value):
        """an earlier write below ``path`` survives in the modifications level when
        a dict is later written at ``path``?  No: _modify replaces the sub-dict.  Only
        lower levels matter; kept for clarity."""
        return False

    def shrink_candidates(self, case):
        ops = case["ops"]
        for i in range(len(ops) - 1, 0, -1):
            yield dict(case, ops=ops[:i])
        yield from cc.shrink_common(case)
        for i, op in enumerate(ops):
            if op[0] == "via":
                yield dict(case, ops=ops[:i] + [op[2]] + ops[i + 1:])

    def mutate(self, case, rng):
        ops = case["ops"]
        for _ in range(30):
            if not ops:
                return
            i = rng.randrange(len(ops))
            j = rng.randrange(len(ops))
            new = [copy.deepcopy(o) for o in ops]
            r = rng.random()
            if r < 0.4:
                new[i], new[j] = new[j], new[i]
            elif r < 0.7:
                new.insert(j, copy.deepcopy(ops[i]))
            else:
                del new[i]
            yield dict(case, ops=new)


PROP = C06()
