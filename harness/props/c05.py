"""C05: exit status is reported truthfully and decides return vs. raise."""
import io
import itertools
import locale
import os
import shutil
import subprocess
import sys

from .. import coqterm as ct
from ..core import Prop

# signals whose default action terminates the process (Linux); 9 cannot be caught
TERM_SIGNALS = [1, 2, 3, 4, 5, 6, 7, 8, 9, 10, 11, 12, 13, 14, 15, 16, 24, 25, 26, 27, 29, 30, 31] + \
    list(range(34, 65))
HIDES = [None, False, "out", "stdout", "err", "stderr", "both", True]      # all eight legal values
CORE_SIGNALS = [3, 4, 6, 7, 8, 11, 24, 25, 31]      # default action: terminate and dump core
STDIN_TEXT = "abcdefghijkl\n"
STDINS = ["closed", "head", "unread"]
CODES = [0, 1, 2, 127, 255, -9, -15]
STREAM = ["ok", "other", "watcher", "rna"]      # rna = ResponseNotAccepted (a WatcherError)
VIAS = ["runner", "ctx_run", "ctx_sudo"]
ASYNCS = [False, "join", "with"]
# where warn comes from: run.warn in the configuration (None = configured nowhere) x the keyword of the call
# ("omitted" = not passed; None = passed as None, what a wrapper forwarding an optional setting does)
WARN_CFGS = [None, False, True]
WARN_KWS = ["omitted", None, True, False]
WARN_PAIRS = [(cfg, kw) for cfg in WARN_CFGS for kw in WARN_KWS]
HIDE_FROMS = ["kwarg", "config", "config+none"]      # config+none: configured, and the call passes hide=None


def kw_given(kw):
    return isinstance(kw, bool)


def warn_parts(case):
    """(configured run.warn or None, keyword) of a case; cases written before the dimension existed carry
    'warn' (+ 'opts_from')"""
    if "warn_kw" in case:
        return case.get("warn_cfg"), case["warn_kw"]
    w = bool(case.get("warn", False))
    return (w, "omitted") if case.get("opts_from") == "config" else (None, w)


def warn_effective(case):
    cfg, kw = warn_parts(case)
    return kw if kw_given(kw) else bool(cfg)


def as_pair(warn):
    return tuple(warn) if isinstance(warn, (tuple, list)) else (None, bool(warn))


def pick_warn(rng, eff=None):
    pairs = [w for w in WARN_PAIRS if eff is None or (w[1] if kw_given(w[1]) else bool(w[0])) == eff]
    return rng.choice(pairs)


def call_opts(case):
    """(run.* configuration, keyword arguments) carrying warn and hide the way the case says"""
    cfg, kw = warn_parts(case)
    run, kws = {}, {}
    if cfg is not None:
        run["warn"] = cfg
    if kw_given(kw) or kw is None:
        kws["warn"] = kw
    hf = case.get("hide_from") or ("config" if case.get("opts_from") == "config" else "kwarg")
    if hf == "kwarg":
        kws["hide"] = case["hide"]
    else:
        run["hide"] = case["hide"]
        if hf == "config+none":
            kws["hide"] = None
    return run, kws


def coq_kw(kw):
    return "(KwVal %s)" % ct.b(kw) if kw_given(kw) else "KwNone" if kw is None else "KwOmitted"


def coq_ws(case):
    cfg, kw = warn_parts(case)
    return "(mkWs %s %s)" % (ct.opt(None if cfg is None else ct.b(cfg)), coq_kw(kw))


PROGRAM_EVENTS = (
    [{"ev": "success"}, {"ev": "parse"}, {"ev": "kbd"}, {"ev": "core_parse"}, {"ev": "nocoll"},
     {"ev": "warn_flag", "code": 3}, {"ev": "warn_config", "code": 4},
     {"ev": "multi", "first": "ok", "code": 5}, {"ev": "multi", "first": "fail", "code": 6}] +
    [{"ev": "unexpected", "code": c, "via": "raise"} for c in (1, 2, 17, 127, 255, -9, -15)] +
    [{"ev": "unexpected", "code": c, "via": "run"} for c in (1, 3, 42, 200, 255)] +
    [{"ev": "exit", "code": c, "msg": m} for c in (None, 0, 1, 5, 99, 255) for m in (None, "", "bye")] +
    [{"ev": "other", "cls": c} for c in ("CommandTimedOut", "Failure", "ThreadException", "ValueError")] +
    # one task running one command with warn=<kw>, with / without -w, run.warn configured on the collection or not
    [{"ev": "warn_src", "flag": f, "cfg": cfg, "kw": kw, "code": c}
     for f in (False, True) for cfg, kw in WARN_PAIRS for c in (0, 7)]
)


class OhNoz(Exception):
    pass


def view(res):
    return {"exited": res.exited, "ok": res.ok, "failed": res.failed, "bool": bool(res),
            "return_code": res.return_code}


def observe(thunk, complete):
    """run thunk() -> Result; canonical outcome"""
    from invoke.exceptions import ThreadException, Failure
    try:
        res = thunk()
    except ThreadException:
        return {"raise": "ThreadException", "result": None}
    except Failure as e:
        nm = type(e).__name__
        if nm not in ("Failure", "CommandTimedOut", "UnexpectedExit", "AuthFailure") or not complete(e.result):
            return {"other": nm}
        return {"raise": nm, "result": view(e.result)}
    except BaseException as e:  # noqa
        return {"other": type(e).__name__}
    if not complete(res):
        return {"other": "incomplete-result"}
    return {"return": view(res)}


class Swallowed(Exception):
    """the with-block ended without an exception and without a joined result"""


def finish_async(mode, start):
    """start() -> Promise; finish it the way the case says"""
    if mode == "with":
        box = []
        promise = start()
        orig = promise.join

        def recording_join():
            r = orig()
            box.append(r)
            return r
        promise.join = recording_join      # Promise.__exit__ calls self.join()
        with promise:
            pass
        if not box:
            raise Swallowed()
        return box[0]
    return start().join()


def coq_optz(x):
    return ct.opt(None if x is None else ct.z(x))


def coq_view(v):
    return "(mkRv %s %s %s %s %s)" % (coq_optz(v["exited"]), ct.b(v["ok"]), ct.b(v["failed"]),
                                      ct.b(v["bool"]), coq_optz(v["return_code"]))


KINDS = {"ThreadException": "RThreadException", "Failure": "RFailure",
         "CommandTimedOut": "RCommandTimedOut", "UnexpectedExit": "RUnexpectedExit",
         "AuthFailure": "RAuthFailure"}


def coq_outcome(o):
    if "return" in o:
        return "(Return %s)" % coq_view(o["return"])
    if "raise" in o:
        r = o["result"]
        return "(Raise %s %s)" % (KINDS[o["raise"]], ct.opt(None if r is None else coq_view(r)))
    return "OtherOutcome"


class C05(Prop):
    id = "C05"
    corr_module = "Corr.C05Corr"
    quick_n = 900
    thorough_n = 3000
    shard_size = 400
    rule = ("(real) child processes run through Local for every exit code 0..255 and every terminating signal "
            "(python child resetting the disposition, then killing itself), pty on/off, warn, hide, sync / "
            "Promise.join; (scripted) the real Runner.run/_finish/Promise.join driven through a subclass whose "
            "worker reads raise OhNoz / WatcherError, with scripted returncode, timed_out, timeout, warn, hide, "
            "async -- the full truth table in thorough; (program) Program.run in-process for success, parse "
            "error, UnexpectedExit (raised and via a real c.run), Exit(code/message), KeyboardInterrupt and "
            "foreign exceptions; (stdin) real children that close stdin at once / read one byte / never read while "
            "run() still feeds an in_stream; (core) real pty children dumping core; (decode) Local.returncode under "
            "a pty driven with the wait status of every exit code and of every signal with and without the core "
            "flag; (warn source) warn decided from configured run.warn {unset, False, True} x the call's keyword "
            "{omitted, None, True, False} -- the whole table through Runner.run / Context.run / Context.sudo / "
            "Promise.join, real children with and without a pty, and Program.run with / without -w on a task "
            "that runs one command with that keyword; hide from keyword / configuration / configuration with "
            "hide=None passed; the timeout from keyword or timeouts.command.  A returned or carried result must be complete: command, pty, stdout, stderr, encoding, hide, "
            "shell, env as run.  non-trivial = anything but a plain zero exit; distinct by the whole case")
    trusted_base = [
        "Coq 8.16.1 kernel + vm_compute (shard evaluation)",
        "hand-written model coq/Model/ExitModel.v tied to invoke/runners.py, exceptions.py, program.py by "
        "differential execution (this run) and, for the _finish tail and Result.ok/failed, by "
        "coq/Generated/Tables.v (harness/translate.py)",
        "OS contract: Linux wait-status encoding (exit code << 8; signal number in the low 7 bits, 0x80 core "
        "flag); subprocess.Popen.returncode = code or -signal (non-pty runs)",
        "harness/props/c05.py: scripted Runner subclass, child commands, canonicaliser; harness/coqterm.py",
        "CPython 3.12 executing /repo",
    ]
    assumptions = [
        "stopped/continued children (WIFSTOPPED) are out of scope: the command has finished",
        "core dumps are disabled (soft RLIMIT_CORE = 0) except in the dedicated core cases, which raise the limit "
        "inside the child, in a scratch directory; whether the kernel then sets the core flag depends on the host, "
        "so the flag is ALSO driven deterministically through Local.returncode (decode cases)",
        "in_stream=False except in the stdin cases (in_stream=StringIO, child closes / barely reads / ignores stdin)",
    ]
    not_modelled = [
        "how output is captured (C02), the wait loop / thread joins themselves (C08), when the timer fires (C14)",
        "Windows; Fabric's remote runner",
        "Program.run(exit=False)",
    ]

    def setup(self, tier, seed):
        import resource
        try:
            hard = resource.getrlimit(resource.RLIMIT_CORE)[1]
            resource.setrlimit(resource.RLIMIT_CORE, (0, hard))      # soft only: the core cases raise it again
        except Exception:  # noqa
            pass
        self.scratch = "/tmp/c05v-%d" % os.getpid()
        shutil.rmtree(self.scratch, ignore_errors=True)
        os.makedirs(self.scratch)

    def teardown(self):
        shutil.rmtree(getattr(self, "scratch", "/tmp/c05v-none"), ignore_errors=True)

    # -------------------------------------------------------------------- cases
    @staticmethod
    def _real(how, n, pty, warn, hide=None, asyn=False, nofileno=False, stdin=None, core=False):
        cfg, kw = as_pair(warn)          # warn: a bool (keyword, nothing configured) or (configured, keyword)
        c = {"kind": "real", "how": how, "n": n, "pty": pty, "warn_cfg": cfg, "warn_kw": kw, "hide": hide,
             "async": asyn}
        if nofileno:
            c["nofileno"] = True        # sys.stdin without fileno(): pty=True falls back to no pty
        if stdin:
            c["stdin"] = stdin          # in_stream=StringIO(...); the child closes / reads 1 byte of / ignores stdin
        if core:
            c["core"] = True            # the child raises its core limit first (scratch cwd)
        return c

    @staticmethod
    def _decode(how, n, core=False):
        return {"kind": "decode", "how": how, "n": n, "core": core}

    @staticmethod
    def _scripted(out, err, timeout, timed_out, code, warn, hide=None, asyn=False, via="runner",
                  hide_from="kwarg", timeout_from="kwarg"):
        if via == "ctx_sudo":
            asyn = False          # a promise returned by sudo() is joined outside sudo's own handler
        cfg, kw = as_pair(warn)
        return {"kind": "scripted", "out": out, "err": err, "timeout": timeout, "timed_out": timed_out,
                "code": code, "warn_cfg": cfg, "warn_kw": kw, "hide": hide, "async": asyn, "via": via,
                "hide_from": hide_from, "timeout_from": timeout_from}

    def warn_family(self, tier, rng=None):
        """configured run.warn {unset, False, True} x keyword {omitted, None, True, False}, whole, through every
        way of running a command"""
        thorough = tier == "thorough"
        hide = (lambda: rng.choice(HIDES)) if rng else (lambda: None)
        hfrom = (lambda: rng.choice(HIDE_FROMS)) if rng else (lambda: "kwarg")
        asyncs = ASYNCS if thorough else (False, "join")
        for w in WARN_PAIRS:
            for code in ((0, 1, 3, 255, -9) if thorough else (0, 3)):
                for via in VIAS:
                    for asyn in (asyncs if via != "ctx_sudo" else (False,)):
                        yield self._scripted("ok", "ok", None, False, code, w, hide(), asyn, via, hfrom())
            # the failures that do not depend on warn, whatever its source
            yield self._scripted("ok", "ok", 5, True, 1, w, hide(), False, "runner", hfrom())
            yield self._scripted("watcher", "ok", None, False, 1, w, hide(), False, "ctx_run", hfrom())
            for code in ((0, 3, 255) if thorough else (0, 3)):
                for pty in (False, True):
                    for asyn in asyncs:
                        yield self._real("exit", code, pty, w, hide(), asyn)
            yield self._real("signal", 15, False, w, hide(), False)

    def generate(self, rng, tier, n):
        thorough = tier == "thorough"
        asy = lambda: rng.choice(ASYNCS) if rng.random() < 0.45 else False
        W = lambda eff=None: pick_warn(rng, eff)      # a random source of warn (with that effective value)
        yield from self.warn_family(tier, rng)
        # every exit code and terminating signal, pty on/off
        for code in range(256):
            for pty in (False, True):
                if thorough:
                    for warn in (False, True):
                        for asyn in ASYNCS:
                            yield self._real("exit", code, pty, W(warn), rng.choice(HIDES), asyn)
                else:
                    yield self._real("exit", code, pty, W(), rng.choice(HIDES), asy())
        for sig in TERM_SIGNALS:
            for pty in (False, True):
                if thorough:
                    for warn in (False, True):
                        yield self._real("signal", sig, pty, W(warn), rng.choice(HIDES), asy())
                else:
                    yield self._real("signal", sig, pty, W(), rng.choice(HIDES), asy())
        # pty requested while sys.stdin has no fileno(): the runner falls back to a plain subprocess
        for code in ([0, 1, 3, 127, 255] if not thorough else range(0, 256, 5)):
            for warn in (False, True):
                yield self._real("exit", code, True, W(warn), rng.choice(HIDES), asy(), nofileno=True)
        for sig in (9, 15):
            yield self._real("signal", sig, True, True, None, False, nofileno=True)
        # the child ends without consuming the input run() feeds it: the exit status still decides
        for code in ((0, 3) if not thorough else (0, 1, 3, 255)):
            for pty in (False, True):
                for warn in (False, True):
                    for mode in STDINS:
                        yield self._real("exit", code, pty, W(warn), rng.choice(HIDES),
                                         asy() if thorough else False, stdin=mode)
        # real pty / plain children that dump core
        for sig in ((6, 8, 11) if not thorough else CORE_SIGNALS):
            for pty in (True, False):
                yield self._real("signal", sig, pty, W(), rng.choice(HIDES), False, core=True)
        # Local.returncode under a pty, every wait status the OS contract allows
        for code in range(256):
            yield self._decode("exit", code)
        for sig in range(1, 127):
            for core in (False, True):
                yield self._decode("signal", sig, core)
        # Program.run
        for ev in PROGRAM_EVENTS:
            yield {"kind": "program", "event": ev}
        if thorough:
            for f in (False, True):
                for cfg, kw in WARN_PAIRS:
                    for c in (1, 3, 255):
                        yield {"kind": "program", "event": {"ev": "warn_src", "flag": f, "cfg": cfg, "kw": kw,
                                                            "code": c}}
        # scripted truth table: random sample (the whole table is enumerate_small)
        for _ in range(n):
            w = [0.64, 0.12, 0.12, 0.12]
            yield self._scripted(rng.choices(STREAM, w)[0], rng.choices(STREAM, w)[0], rng.choice([None, 5]),
                                 rng.random() < 0.5, rng.choice(CODES + list(range(3, 9))),
                                 W(), rng.choice(HIDES), asy(),
                                 rng.choice(VIAS), rng.choice(HIDE_FROMS), rng.choice(["kwarg", "config"]))

    def enumerate_small(self, tier):
        import random
        rng = random.Random(5)
        if tier == "thorough":
            for out, err, timeout, to, code, warn in itertools.product(
                    STREAM, STREAM, [None, 5], [False, True], CODES, [False, True]):
                for via in VIAS:
                    for asyn in (ASYNCS if via != "ctx_sudo" else [False]):
                        yield self._scripted(out, err, timeout, to, code, pick_warn(rng, warn),
                                             rng.choice(HIDES), asyn, via, rng.choice(HIDE_FROMS),
                                             rng.choice(["kwarg", "config"]))
            yield from self.warn_family(tier)
            return
        for out, err, timeout, to, code, warn in itertools.product(
                STREAM, STREAM, [None, 5], [False, True], [0, 1, -9], [False, True]):
            for via in VIAS:
                yield self._scripted(out, err, timeout, to, code, warn, None, False, via)
        yield from self.warn_family(tier)
        for ev in PROGRAM_EVENTS:
            yield {"kind": "program", "event": ev}
        for code in (0, 1, 255):
            for pty in (False, True):
                for warn in (False, True):
                    for asyn in ASYNCS:
                        yield self._real("exit", code, pty, warn, None, asyn)
            yield self._real("exit", code, True, True, None, False, nofileno=True)
        for pty in (False, True):
            yield self._real("signal", 15, pty, True)
            for mode in STDINS:
                yield self._real("exit", 0, pty, False, None, False, stdin=mode)
                yield self._real("exit", 3, pty, True, None, False, stdin=mode)
        for sig in range(1, 65):
            yield self._decode("signal", sig, True)

    # --------------------------------------------------------- implementation
    def run_impl(self, case):
        return getattr(self, "_run_" + case["kind"])(case)

    def _run_real(self, case):
        from invoke import Context
        from invoke.runners import Local
        if not hasattr(self, "scratch"):
            self.setup("quick", 0)
        from invoke.config import Config
        run_cfg, opt_kw = call_opts(case)
        runner = Local(Context(Config(overrides={"run": run_cfg}) if run_cfg else None))
        say = "printf c05out; printf c05err >&2; "
        if case["how"] == "exit":
            mode = case.get("stdin")
            pre = {"closed": "exec 0<&-; sleep 0.15; ", "head": "head -c1 >/dev/null; ", "unread": "",
                   None: ""}[mode]
            cmd = "%s%sexit %d" % (say, pre, case["n"])
        else:
            pre = "ulimit -c unlimited; cd %s; " % self.scratch if case.get("core") else ""
            cmd = ("%s%sexec %s -c \"import os, signal\ntry:\n    signal.signal(%d, signal.SIG_DFL)\n"
                   "except Exception:\n    pass\nos.kill(os.getpid(), %d)\nimport time\ntime.sleep(5)\"") % (
                say, pre, sys.executable, case["n"], case["n"])
        out_s, err_s = io.StringIO(), io.StringIO()
        in_stream = io.StringIO(STDIN_TEXT) if case.get("stdin") else False
        kw = dict(pty=case["pty"], in_stream=in_stream, out_stream=out_s, err_stream=err_s, **opt_kw)

        eff_pty = case["pty"] and not case.get("nofileno")

        def complete(res):
            # the result returned or carried is the complete description of THIS run
            if eff_pty:
                text_ok = "c05out" in res.stdout and "c05err" in res.stdout and res.stderr == ""
            else:
                text_ok = res.stdout == "c05out" and res.stderr == "c05err"
            return res.pty == eff_pty and res.command == cmd and text_ok and \
                res.encoding == locale.getpreferredencoding(False) and tuple(res.hide) == () and \
                res.shell == "/bin/bash" and res.env == dict(os.environ)

        def thunk():
            if case["async"]:
                return finish_async(case["async"], lambda: runner.run(cmd, asynchronous=True, **kw))
            return runner.run(cmd, **kw)
        saved_stdin, saved_stderr = sys.stdin, sys.stderr
        try:
            if case.get("nofileno"):
                sys.stdin = io.StringIO()
                sys.stderr = io.StringIO()      # the fallback prints a warning
            out = observe(thunk, complete)
        finally:
            sys.stdin, sys.stderr = saved_stdin, saved_stderr
            if case.get("core"):
                for fn in os.listdir(self.scratch):
                    try:
                        os.remove(os.path.join(self.scratch, fn))
                    except OSError:
                        pass
        raw = getattr(runner, "status", None) if eff_pty else None
        return {"outcome": out, "raw": raw, "eff_pty": eff_pty}

    def _run_decode(self, case):
        """Local.returncode under a pty, on the wait status the OS contract gives this ending"""
        from invoke import Context
        from invoke.runners import Local
        raw = (case["n"] << 8) if case["how"] == "exit" else (case["n"] | (0x80 if case["core"] else 0))
        runner = Local(Context())
        runner.using_pty = True
        runner.status = raw
        try:
            rc = runner.returncode()
            rc = rc if rc is None or (isinstance(rc, int) and not isinstance(rc, bool)) else "bad"
        except Exception as e:  # noqa
            rc = "exc:" + type(e).__name__
        return {"raw": raw, "rc": rc}

    def _run_scripted(self, case):
        from invoke import Context
        from invoke.runners import Runner
        from invoke.exceptions import WatcherError, ResponseNotAccepted
        from invoke.config import Config

        class Scripted(Runner):
            input_sleep = 0

            def __init__(self, context):
                super().__init__(context)
                self.reads = {"out": 0, "err": 0}

            def start(self, command, shell, env, timeout=None):
                pass

            def _read(self, which):
                n = self.reads[which]
                self.reads[which] = n + 1
                mode = case[which]
                if mode == "other":
                    raise OhNoz(which)
                if mode == "watcher":
                    raise WatcherError(which)
                if mode == "rna":
                    raise ResponseNotAccepted(which)
                return (b"<%s>" % which.encode()) if n == 0 else b""

            def read_proc_stdout(self, num_bytes):
                return self._read("out")

            def read_proc_stderr(self, num_bytes):
                return self._read("err")

            def _write_proc_stdin(self, data):
                pass

            def close_proc_stdin(self):
                pass

            @property
            def process_is_finished(self):
                return True

            def returncode(self):
                return case["code"]

            @property
            def timed_out(self):
                return case["timed_out"]

            def kill(self):
                pass

        via = case.get("via", "runner")
        run_cfg, opt_kw = call_opts(case)       # warn / hide: configuration and / or keyword
        kw = dict(in_stream=False, out_stream=io.StringIO(), err_stream=io.StringIO(), **opt_kw)
        overrides = {"runners": {"local": Scripted}}
        if run_cfg:
            overrides["run"] = run_cfg
        if case.get("timeout_from", "kwarg") == "config":
            if case["timeout"] is not None:
                overrides["timeouts"] = {"command": case["timeout"]}      # no keyword: the configured one counts
        else:
            kw["timeout"] = case["timeout"]
        ctx = Context(config=Config(overrides=overrides))
        want_out = "<out>" if case["out"] == "ok" else ""
        want_err = "<err>" if case["err"] == "ok" else ""

        def complete(res):
            cmd_ok = res.command.startswith("sudo -S -p ") if via == "ctx_sudo" else res.command == "cmd"
            return res.stdout == want_out and res.stderr == want_err and cmd_ok and res.pty is False and \
                res.encoding == locale.getpreferredencoding(False) and tuple(res.hide) == ()

        def start(**extra):
            if via == "runner":
                return Scripted(ctx).run("cmd", **kw, **extra)
            if via == "ctx_run":
                return ctx.run("cmd", **kw, **extra)
            return ctx.sudo("cmd", password="pw", **kw, **extra)

        def thunk():
            if case["async"]:
                return finish_async(case["async"], lambda: start(asynchronous=True))
            return start()
        return {"outcome": observe(thunk, complete)}

    def _run_program(self, case):
        from invoke import Program, Collection, task
        from invoke.runners import Result
        from invoke.exceptions import (UnexpectedExit, Exit, CommandTimedOut, Failure, ThreadException)
        ev = case["event"]

        def body(c):
            k = ev["ev"]
            if k == "unexpected":
                if ev["via"] == "run":
                    c.run("exit %d" % ev["code"], in_stream=False)
                    raise AssertionError("run returned")
                raise UnexpectedExit(Result(command="x", exited=ev["code"]))
            if k == "exit":
                raise Exit(message=ev["msg"], code=ev["code"])
            if k == "kbd":
                raise KeyboardInterrupt()
            if k == "other":
                cls = ev["cls"]
                if cls == "CommandTimedOut":
                    raise CommandTimedOut(Result(command="x", exited=-9), timeout=1)
                if cls == "Failure":
                    raise Failure(Result(command="x", exited=None))
                if cls == "ThreadException":
                    raise ThreadException([])
                raise ValueError("boom")

        ran = []

        @task
        def t(c):
            k = ev["ev"]
            if k in ("warn_flag", "warn_config"):
                r = c.run("exit %d" % ev["code"], in_stream=False)      # warn comes from -w / the configuration
                ran.append(r.exited)
                return
            if k == "warn_src":
                kws = {"warn": ev["kw"]} if (kw_given(ev["kw"]) or ev["kw"] is None) else {}
                r = c.run("exit %d" % ev["code"], in_stream=False, **kws)
                ran.append(r.exited)
                return
            if k == "multi" and ev["first"] == "ok":
                ran.append("t")
                return
            if k == "multi":
                raise UnexpectedExit(Result(command="x", exited=ev["code"]))
            body(c)

        @task
        def t2(c):
            ran.append("t2")
            if ev["ev"] == "multi" and ev["first"] == "ok":
                raise UnexpectedExit(Result(command="x", exited=ev["code"]))
        coll = Collection(t, t2)
        if ev["ev"] == "warn_config":
            coll.configure({"run": {"warn": True}})
        if ev["ev"] == "warn_src" and ev["cfg"] is not None:
            coll.configure({"run": {"warn": ev["cfg"]}})
        argv = ["inv", "t"]
        program = Program(namespace=coll)
        if ev["ev"] == "parse":
            argv = ["inv", "t", "--no-such-flag"]
        elif ev["ev"] == "core_parse":
            argv = ["inv", "--command-timeout"]              # a core flag that lacks its value
        elif ev["ev"] == "warn_flag" or (ev["ev"] == "warn_src" and ev["flag"]):
            argv = ["inv", "-w", "t"]
        elif ev["ev"] == "multi":
            argv = ["inv", "t", "t2"]
        elif ev["ev"] == "nocoll":
            program = Program()                               # loads a collection from the file system
            argv = ["inv", "--search-root", "/proc/self/fdinfo", "-c", "c05v_no_such_collection", "t"]
        saved = sys.stderr, sys.stdout
        sys.stderr, sys.stdout = io.StringIO(), io.StringIO()
        try:
            try:
                program.run(argv)
                out = {"returns": True}
                if ev["ev"] in ("warn_flag", "warn_config", "warn_src") and ran != [ev["code"]]:
                    out = {"propagates": "command-not-run-as-expected"}
                if ev["ev"] == "multi":
                    out = {"propagates": "second-task-did-not-fail"}
            except SystemExit as e:
                out = {"sysexit": e.code} if isinstance(e.code, int) and not isinstance(e.code, bool) \
                    else {"propagates": "SystemExit(%r)" % (e.code,)}
            except BaseException as e:  # noqa
                out = {"propagates": type(e).__name__}
            if ev["ev"] == "multi" and "sysexit" in out:
                want = ["t", "t2"] if ev["first"] == "ok" else []
                if ran != want:
                    out = {"propagates": "tasks-run:%r" % (ran,)}
        finally:
            sys.stderr, sys.stdout = saved
        return {"prog": out}

    # ------------------------------------------------------------------ terms
    def to_coq(self, case, obs):
        k = case["kind"]
        if k == "decode":
            e = "(Exited %s)" % ct.z(case["n"]) if case["how"] == "exit" else "(Killed %s)" % ct.z(case["n"])
            rc = obs["rc"]
            return "(CDecode %s %s %s %s)" % (e, ct.b(case["core"]), ct.z(obs["raw"]),
                                              "DBad" if isinstance(rc, str) else "(DCode %s)" % coq_optz(rc))
        if k == "real":
            e = "(Exited %s)" % ct.z(case["n"]) if case["how"] == "exit" else "(Killed %s)" % ct.z(case["n"])
            return "(CReal %s %s %s %s %s)" % (e, ct.b(case["pty"] and not case.get("nofileno")), coq_ws(case),
                                             coq_optz(obs["raw"]), coq_outcome(obs["outcome"]))
        if k == "scripted":
            te = sum(1 for w in ("out", "err") if case[w] == "other")
            werrs = [case[w] for w in ("out", "err") if case[w] in ("watcher", "rna")]   # thread order
            first_rna = bool(werrs) and werrs[0] == "rna"
            sit = "(mkSit %s %s %s %s %s %s %s %s)" % (
                ct.n(te), ct.n(len(werrs)), ct.b(case["timeout"] is not None), ct.b(case["timed_out"]),
                ct.z(case["code"]), ct.b(False), ct.b(case.get("via") == "ctx_sudo"), ct.b(first_rna))
            return "(CScripted %s %s %s)" % (sit, coq_ws(case), coq_outcome(obs["outcome"]))
        ev = case["event"]
        if ev["ev"] == "warn_src":
            o = obs["prog"]
            po = "PReturns" if "returns" in o else "(PSysExit %s)" % ct.z(o["sysexit"]) if "sysexit" in o \
                else "PPropagates"
            return "(CProgRun %s %s %s %s %s)" % (ct.b(ev["flag"]), ct.opt(None if ev["cfg"] is None else ct.b(ev["cfg"])),
                                                 coq_kw(ev["kw"]), ct.z(ev["code"]), po)
        if ev["ev"] in ("success", "warn_flag", "warn_config"):
            e = "PSuccess"
        elif ev["ev"] == "multi":
            e = "(PUnexpectedExit %s)" % ct.z(ev["code"])
        elif ev["ev"] == "core_parse":
            e = "PParseError"
        elif ev["ev"] == "nocoll":
            e = "(PExit None true)"
        elif ev["ev"] == "unexpected":
            e = "(PUnexpectedExit %s)" % ct.z(ev["code"])
        elif ev["ev"] == "exit":
            e = "(PExit %s %s)" % (coq_optz(ev["code"]), ct.b(bool(ev["msg"])))
        elif ev["ev"] == "parse":
            e = "PParseError"
        elif ev["ev"] == "kbd":
            e = "PKeyboardInterrupt"
        else:
            e = "POtherException"
        o = obs["prog"]
        if "returns" in o:
            po = "PReturns"
        elif "sysexit" in o:
            po = "(PSysExit %s)" % ct.z(o["sysexit"])
        else:
            po = "PPropagates"
        return "(CProgram %s %s)" % (e, po)

    # -------------------------------------------------------------- reporting
    def nontrivial(self, case, obs):
        k = case["kind"]
        if k == "decode":
            return True
        if k == "real":
            return not (case["how"] == "exit" and case["n"] == 0) or bool(case.get("stdin"))
        if k == "scripted":
            return case["code"] != 0 or case["out"] != "ok" or case["err"] != "ok" or \
                (case["timed_out"] and case["timeout"] is not None)
        ev = case["event"]
        return ev["ev"] != "success" and not (ev["ev"] == "warn_src" and ev["code"] == 0)

    def classify(self, case, obs):
        k = case["kind"]
        if k == "decode":
            return "decode:%s:core=%s" % (case["how"], case["core"])
        if k == "program":
            o = obs["prog"]
            return "program:%s:%s" % (case["event"]["ev"], "returns" if "returns" in o else
                                      "sysexit" if "sysexit" in o else "propagates")
        o = obs["outcome"]
        what = "return" if "return" in o else o.get("raise") or ("other:" + o["other"])
        if k == "real":
            extra = (":stdin=" + case["stdin"]) if case.get("stdin") else ""
            if case.get("core"):
                extra += ":coreflag=%s" % bool(obs.get("raw") and obs["raw"] & 0x80)
            return "real:%s:pty=%s:%s%s" % (case["how"], case["pty"], what, extra)
        return "scripted:%s%s" % (what, ":async" if case["async"] else "")

    def shrink_candidates(self, case):
        k = case["kind"]
        if k == "program":
            ev = case["event"]
            if ev["ev"] == "warn_src":
                for key, simple in (("flag", False), ("cfg", None), ("kw", "omitted"), ("code", 1)):
                    if ev[key] != simple or type(ev[key]) is not type(simple):
                        yield {"kind": "program", "event": dict(ev, **{key: simple})}
            return
        if k == "decode":
            return
        cfg, kw = warn_parts(case)
        base = {x: y for x, y in case.items() if x not in ("warn", "opts_from")}
        if "warn_kw" not in case:
            base["hide_from"] = "config" if case.get("opts_from") == "config" else "kwarg"
        case = dict(base, warn_cfg=cfg, warn_kw=kw)
        if case.get("async"):
            yield dict(case, **{"async": False})
        if case.get("via", "runner") != "runner" and not any(case[w] == "rna" for w in ("out", "err")):
            yield dict(case, via="runner")
        if case.get("hide_from", "kwarg") != "kwarg":
            yield dict(case, hide_from="kwarg")
        if case.get("timeout_from", "kwarg") != "kwarg":
            yield dict(case, timeout_from="kwarg")
        # simpler sources of warn first: nothing configured, nothing passed
        if cfg is not None:
            yield dict(case, warn_cfg=None)
            if cfg is True:
                yield dict(case, warn_cfg=False)
        if kw != "omitted":
            yield dict(case, warn_kw="omitted")
            if kw is True:
                yield dict(case, warn_kw=False)
        if case.get("hide") is not None:
            yield dict(case, hide=None)
        if k == "scripted":
            for w in ("out", "err"):
                if case[w] != "ok":
                    yield dict(case, **{w: "ok"})
            if case["timed_out"]:
                yield dict(case, timed_out=False)
            if case["timeout"] is not None:
                yield dict(case, timeout=None)
            for c in (0, 1):
                if case["code"] != c:
                    yield dict(case, code=c)
        else:
            if case["how"] == "exit":
                for c in (0, 1):
                    if case["n"] != c:
                        yield dict(case, n=c)

    def mutate(self, case, rng):
        if case["kind"] == "scripted":
            case = {x: y for x, y in case.items() if x not in ("warn", "opts_from")}
            for cfg, kw in WARN_PAIRS:
                yield dict(case, warn_cfg=cfg, warn_kw=kw)
            for _ in range(30):
                cfg, kw = pick_warn(rng)
                yield dict(case, code=rng.choice(CODES), warn_cfg=cfg, warn_kw=kw,
                           timed_out=rng.random() < 0.5, timeout=rng.choice([None, 5]))
        elif case["kind"] == "real":
            case = {x: y for x, y in case.items() if x not in ("warn", "opts_from")}
            for pty in (False, True):
                for cfg, kw in WARN_PAIRS:
                    yield dict(case, pty=pty, warn_cfg=cfg, warn_kw=kw)
        elif case["kind"] == "program" and case["event"]["ev"] in ("warn_src", "warn_flag", "warn_config"):
            for f in (False, True):
                for cfg, kw in WARN_PAIRS:
                    yield {"kind": "program", "event": {"ev": "warn_src", "flag": f, "cfg": cfg, "kw": kw,
                                                        "code": case["event"].get("code") or 7}}

    # ------------------------------------------------------------ extra checks
    def extra_checks(self, tier, seed):
        """the interpreter's own exit status when Program.run ends the process"""
        repo = os.environ.get("VERIF_REPO", "/repo")
        fails, n = [], 0
        prog = ("import sys\nfrom invoke import Program, Collection, task, Exit\n"
                "from invoke.exceptions import UnexpectedExit\nfrom invoke.runners import Result\n"
                "@task\ndef t(c, how='ok', code=0):\n"
                "    code = int(code)\n"
                "    if how == 'exit': raise Exit(code=code)\n"
                "    if how == 'unexpected': raise UnexpectedExit(Result(command='x', exited=code, hide=('stdout','stderr')))\n"
                "    if how == 'run': c.run('exit %d' % code, in_stream=False, hide=True)\n"
                "Program(namespace=Collection(t)).run(['inv'] + sys.argv[1:])\n")
        table = [(["t"], 0), (["t", "--how", "exit", "--code", "7"], 7),
                 (["t", "--how", "unexpected", "--code", "3"], 3),
                 (["t", "--how", "run", "--code", "42"], 42),
                 (["t", "--how", "unexpected", "--code", "-9"], 247),   # status = code & 0xff
                 (["t", "--bogus"], 1), (["nosuchtask"], 1)]
        for argv, want in table:
            n += 1
            p = subprocess.run([sys.executable, "-c", prog] + argv, stdin=subprocess.DEVNULL,
                               stdout=subprocess.DEVNULL, stderr=subprocess.DEVNULL,
                               env=dict(os.environ, PYTHONPATH=repo), timeout=60)
            if p.returncode != want:
                fails.append({"case": {"argv": argv, "want": want}, "what": p.returncode})
        return [{"name": "process-exit-status", "evaluations": n, "failures": fails,
                 "note": "child interpreter running Program.run: exit status 0 / Exit code / failing command's "
                         "code (mod 256) / 1 for parse errors"}]


PROP = C05()
