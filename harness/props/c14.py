"""C14: a timed-out command is killed and reported promptly; a timely one is left alone."""
import os
import subprocess
import sys
import tempfile
import time

from .. import core
from .. import runner_cases as cases
from .. import runner_common as rc
from ..core import Prop
from .c08 import C08


class C14(Prop):
    id = "C14"
    corr_module = "Corr.C14Corr"
    case_type = "wcase"
    quick_n = 900
    thorough_n = 12000
    shard_size = 300
    rule = ("same event scripts as C08, biased towards timeouts: a timeout from the run() keyword and/or "
            "config.timeouts.command in 70% of the cases, timer expiry placed anywhere relative to process exit, "
            "reads, EOFs and the decision; warn on/off; exit statuses; pipes held open by a descendant; the AGE of "
            "the command: [\"idle\", n] steps keep it running for n iterations of the wait loop (up to 2500 quick / "
            "12000 thorough, i.e. 0.1 s .. 8 s / 120 s of input_sleep = 10 ms / 0.5 ms / 2 ms / 50 ms / 250 ms) before it "
            "exits or the timer fires, and every duration the thread calling run() hands to time.sleep is observed.  "
            "Non-trivial = a timeout is in effect and the script contains a timer expiry or a process exit")
    trusted_base = C08.trusted_base
    assumptions = C08.assumptions + [
        "start_timer converts the timeout with float() (fix of F-C14c): a numeric text from the environment works; "
        "a non-numeric text raises ValueError in the main thread before anything is read -- not modelled",
        "threading.Timer contract: the function runs once after the interval unless cancelled first; the timer "
        "thread is alive until then (replaced by a scripted timer in the scripted runs)",
    ]
    not_modelled = C08.not_modelled + [
        "seconds: 'promptly' is 'without waiting for anything but the readers' EOF' in the model, plus 'the wait "
        "loop never asks to sleep longer than input_sleep between two looks at the process' (requested durations "
        "are observed, the scripted runs really sleep at most 0.1-0.5 ms per iteration); real latencies "
        "are measured by the real-child runs with generous margins",
        "processes that ignore signals (SIGKILL cannot be ignored) -- not explored",
    ]

    phases = None

    def setup(self, tier, seed):
        self.phases = rc.Phases()
        self.phases.mark("proof build (incl. waiting for the shared build lock)")

    def generate(self, rng, tier, n):
        if self.phases:
            self.phases.mark("scripted cases + shards")
        # input still queued at the moment the timer fires: a fixed small scope first, then a share of the
        # generated cases (PENDING_P of those that have an input stream and expire while running)
        yield from pending_small_cases()
        # the age of the command when it exits / is killed: idle iterations of the wait loop x input_sleep
        yield from wait_family(tier)
        if tier == "quick":
            # a slice of the exhaustive small scope (all of it: thorough tier) + generated cases; the ones
            # that cost real seconds (1 s per expiring join) are capped
            for c in cases.quick_cases(rng, n, focus="timeout"):
                yield with_idle(with_pending_input(c, rng), rng)
            return
        for _ in range(n):
            yield with_idle(with_pending_input(cases.gen_case(rng, focus="timeout"), rng), rng)

    def enumerate_small(self, tier):
        yield from pending_small_cases()
        yield from wait_family("quick")
        yield from cases.small_cases(tier)

    def run_impl(self, case):
        # C14 only: input events directly after a timer event are queued when the timer fires, and kill() is
        # the real Local.kill run against a stand-in child whose stdin pipe is the scripted sink; every
        # duration the thread calling run() hands to time.sleep is recorded (the wait loop's pauses)
        o = cases.run_impl(dict(case, pending_at_timer=True, real_kill=True, record_sleeps=True))
        return o

    def to_coq(self, case, obs):
        sleeps = obs.get("wait_sleeps") or []
        return "(mkw %s %s %s %s)" % (
            cases.to_coq(case, obs), n_coq(micro(input_sleep_of(case))), n_coq(int(obs.get("idle_done") or 0)),
            cases.ct.lst(["(%s, %s)" % (n_coq(micro(d)), n_coq(k)) for d, k in sleeps]))

    def nontrivial(self, case, obs):
        return cases.effective_timeout(case) is not None and cases.first_of(case) != "none"

    def classify(self, case, obs):
        idle = sum(e[1] for e in case["events"] if e[0] == "idle")
        return "%s %s%s%s %s" % ("timeout" if cases.effective_timeout(case) is not None else "no-timeout",
                                 cases.first_of(case), "+input-pending" if pending_units(case) else "",
                                 "" if not idle else "+idle<=100" if idle <= 100 else "+idle>100",
                                 obs["outcome"] or "HANG")

    def finding_of(self, case, obs):
        if cases.effective_timeout(case) is None or case.get("start_error"):
            return None
        f = cases.first_of(case)
        evs = case["events"]
        if f == "finished":
            xi = next(i for i, e in enumerate(evs) if e[0] in cases.END)
            if any(e[0] == "timer" for e in evs[xi + 1:]) and \
                    (obs["outcome"] == "CommandTimedOut" or obs["kills_after_exit"] > 0):
                return "F-C14a"
        if f == "expired" and case.get("never_eof") and obs["hang"] and obs["kills"] >= 1:
            return "F-C14b"
        return None

    _budget = rc.ShrinkBudget(45.0)

    def shrink_candidates(self, case):
        if not self._budget.ok():
            return
        yield from cases.shrink_candidates(case)
        evs = case["events"]
        for i, e in enumerate(evs):
            if e[0] == "idle" and e[1] > 1:
                for m in sorted({e[1] // 2, (3 * e[1]) // 4, e[1] - 10, e[1] - 1}):
                    if 0 < m < e[1]:
                        yield dict(case, events=evs[:i] + [["idle", m]] + evs[i + 1:])

    def mutate(self, case, rng):
        for _ in range(40):
            yield with_pending_input(cases.gen_case(rng, focus="timeout"), rng)
        # the same case at other ages / with another input_sleep
        for _ in range(12):
            yield with_idle({k: v for k, v in case.items() if k not in ("input_sleep", "pace")}, rng, p=1.0)

    def extra_checks(self, tier, seed):
        if self.phases:
            self.phases.mark("extra checks")
        budget = rc.ExtraBudget(tier, 30.0)
        res = [program_timeout_sources(tier), cli_source(tier), stdin_drain_rule(tier), real_pending_stdin(tier),
               real_timeouts(tier, budget)]
        if self.phases:
            self.phases.mark("end")
            res.append(self.phases.entry())
        return res


LATE = 1.2      # s: a timed-out command (nothing queued on stdin) is reported within this after the kill


def real_timeouts(tier, budget):
    fails, evals = [], 0
    reps = 1 if tier == "quick" else 5
    strict = tier == "thorough"
    for _ in range(reps):
        for pty in (False, True):
            for warn in ((False, True) if strict else ((True,) if pty else (False,))):   # quick: one per pty mode
                # still running at expiry: killed, reported, promptly
                evals += 1
                r = rc.run_real("echo started; sleep 20", hide=True, in_stream=False, pty=pty, warn=warn,
                                timeout=0.5, bound=25)
                case = {"cmd": "echo started; sleep 20", "timeout": 0.5, "pty": pty, "warn": warn}
                if r["outcome"] != "CommandTimedOut":
                    fails.append({"case": case, "what": "outcome %s after %.1fs" % (r["outcome"], r["elapsed"])})
                else:
                    if "started" not in (r["stdout"] or ""):
                        fails.append({"case": case, "what": "timed-out failure does not carry the output so far"})
                    if r["elapsed"] > (5.0 if strict else 15.0):
                        fails.append({"case": case, "what": "reported only after %.1fs" % r["elapsed"]})
                    if r["child_state"] not in (None,):
                        fails.append({"case": case, "what": "killed child not reaped (%s)" % r["child_state"]})
            # finishes first: normal outcome, timer disarmed, nothing killed later
            evals += 1
            r = rc.run_real("echo quick", hide=True, in_stream=False, pty=pty, timeout=30, bound=25)
            case = {"cmd": "echo quick", "timeout": 30, "pty": pty}
            if r["outcome"] != "Result" or r["timer_alive"]:
                fails.append({"case": case, "what": "outcome %s, timer alive %s" % (r["outcome"], r["timer_alive"])})
            evals += 1
            r = rc.run_real("exit 4", hide=True, in_stream=False, pty=pty, timeout=30, bound=25)
            if r["outcome"] != "UnexpectedExit" or r["timer_alive"]:
                fails.append({"case": {"cmd": "exit 4", "timeout": 30, "pty": pty},
                              "what": "outcome %s, timer alive %s" % (r["outcome"], r["timer_alive"])})
    # a single process that ignores SIGTERM is killed all the same (SIGKILL), promptly
    evals += 1
    prog = "import signal,time; signal.signal(signal.SIGTERM, signal.SIG_IGN); print('started', flush=True); time.sleep(25)"
    r = rc.run_real("exec %s -c \"%s\"" % (sys.executable, prog), hide=True, in_stream=False, timeout=0.5, bound=25)
    case = {"cmd": "exec python ignoring SIGTERM", "timeout": 0.5}
    if r["outcome"] != "CommandTimedOut":
        fails.append({"case": case, "what": "outcome %s after %.1fs" % (r["outcome"], r["elapsed"])})
    elif r["elapsed"] - 0.5 > 6.0:
        fails.append({"case": case, "what": "a SIGTERM-ignoring command was reported only after %.1fs" % r["elapsed"]})
    # detection latency does not grow with the age of the command: timeout 3.9 s (thorough: 6 s and 2.9 s too),
    # reported within LATE s of the kill (the unchanged code: a few hundredths; no stdin is mirrored, so
    # nothing of F-C14e is involved)
    from invoke.runners import Local
    for tmo in ((3.9,) if not strict else (3.9, 6.0, 2.9)):
        evals += 1
        kills = []

        class Rec(Local):
            def kill(self, kills=kills):
                kills.append(time.time())
                super().kill()
        t0 = time.time()
        r = rc.run_real("echo started; exec sleep 30", hide=True, in_stream=False, timeout=tmo, bound=25, runner_cls=Rec)
        case = {"cmd": "echo started; exec sleep 30", "timeout": tmo, "in_stream": False, "hide": True}
        if r["outcome"] != "CommandTimedOut" or len(kills) != 1:
            fails.append({"case": case, "what": "outcome %s after %.1fs, kill() ran %d times"
                                                % (r["outcome"], r["elapsed"], len(kills))})
        elif t0 + r["elapsed"] - kills[0] > LATE:
            fails.append({"case": case, "what": "timeout of %s s: the command was killed %.2f s after the start, but "
                                                "CommandTimedOut was raised only %.2f s after the kill (bound %.1f s, "
                                                "whatever the age of the command)"
                                                % (tmo, kills[0] - t0, t0 + r["elapsed"] - kills[0], LATE)})
    # a timely command under a fractional timeout is left alone
    evals += 1
    r = rc.run_real("sleep 0.2; echo done", hide=True, in_stream=False, timeout=0.9, bound=25)
    if r["outcome"] != "Result" or r["stdout"] != "done\n":
        fails.append({"case": {"cmd": "sleep 0.2; echo done", "timeout": 0.9},
                      "what": "outcome %s after %.2fs, stdout %r" % (r["outcome"], r["elapsed"], r["stdout"])})
    # asynchronous run joined late: the timer has fired meanwhile
    evals += 1
    r = rc.run_real("echo started; sleep 20", hide=True, in_stream=False, timeout=0.3, asynchronous=True,
                    join_delay=1.0, bound=25)
    if r["outcome"] != "CommandTimedOut" or "started" not in (r["stdout"] or ""):
        fails.append({"case": {"cmd": "echo started; sleep 20", "timeout": 0.3, "asynchronous": True,
                               "join_delay": 1.0},
                      "what": "outcome %s, stdout %r" % (r["outcome"], r["stdout"])})
    if not budget.allow("reproduction of known findings F-C14a/b"):
        return {"name": "real-timeouts", "evaluations": evals, "failures": fails,
                "note": budget.note() + "real children through Local (see the thorough tier for the full list)"}
    # F-C14d: disown=True returns before start_timer: a timeout is silently not in effect
    evals += 1
    r = rc.run_real("exec sleep 4", hide=True, in_stream=False, disown=True, timeout=0.3, bound=10)
    time.sleep(1.2)
    st = rc.proc_state(r["pid"]) if r.get("pid") else None
    if st not in (None, "Z"):
        try:
            os.kill(r["pid"], 9)
        except OSError:
            pass
        fails.append({"case": {"cmd": "exec sleep 4", "disown": True, "timeout": 0.3}, "finding": "F-C14d",
                      "what": "1.2 s after a disowned run with timeout=0.3 the command is still running (state %s): "
                              "no timer was armed" % st})
    r = None
    # F-C14a: the shell exits 0 at once, a background child keeps the pipes for 4 s, the timer fires at 1 s
    evals += 1
    r = rc.run_real("(sleep 4 &); exit 0", hide=True, in_stream=False, timeout=1, bound=25)
    if r["outcome"] == "CommandTimedOut" and r["exited"] == 0:
        fails.append({"case": {"cmd": "(sleep 4 &); exit 0", "timeout": 1}, "finding": "F-C14a",
                      "what": "CommandTimedOut raised for a command that had exited 0 before the timer fired"})
    elif r["outcome"] != "Result":
        fails.append({"case": {"cmd": "(sleep 4 &); exit 0", "timeout": 1}, "what": "outcome %s" % r["outcome"]})
    # F-C14b: the kill reaches the shell only; a descendant keeps the pipe open for 3 s
    evals += 1
    r = rc.run_real("sleep 3 & exec sleep 20", hide=True, in_stream=False, timeout=0.5, bound=25)
    if r["outcome"] == "CommandTimedOut" and r["elapsed"] > 2.5:
        fails.append({"case": {"cmd": "sleep 3 & exec sleep 20", "timeout": 0.5}, "finding": "F-C14b",
                      "what": "timeout of 0.5 s reported after %.1f s (a descendant held the pipe)" % r["elapsed"]})
    elif r["outcome"] != "CommandTimedOut":
        fails.append({"case": {"cmd": "sleep 3 & exec sleep 20", "timeout": 0.5}, "what": "outcome %s" % r["outcome"]})
    return {"name": "real-timeouts", "evaluations": evals, "failures": fails,
            "note": budget.note() + "real children through Local: sleep 20 with timeout 0.5 (killed, CommandTimedOut with the output "
                    "so far, within %s s), quick commands with timeout 30 (normal outcome, timer thread gone), and "
                    "the two timing defects" % ("5" if strict else "15 (loaded machine margin)")}


PENDING_P = 0.6

# ---------------------------------------------------------------------------
# the age of the command: idle iterations of the wait loop
# ---------------------------------------------------------------------------
SLEEPS = (0.01, 0.0005, 0.002, 0.05, 0.25)          # input_sleep: Runner's default, the scripted runner's, others
AGES = (0.1, 0.99, 1.0, 1.1, 1.5, 3.0, 8.0, 30.0, 120.0)  # seconds (of requested sleep) the command has been running
AGES_QUICK = (0.1, 1.0, 1.1, 3.0, 8.0)
PACE = 0.0001                                       # s really slept per iteration in the idle family
IDLE_P = 0.05


def input_sleep_of(case):
    return case["input_sleep"] if case.get("input_sleep") is not None else rc.runner_class().input_sleep


def micro(d):
    """seconds -> microseconds; anything that is not a sane duration -> 10**12"""
    try:
        v = int(round(float(d) * 1e6))
    except (TypeError, ValueError, OverflowError):
        return 10 ** 12
    return v if 0 <= v <= 10 ** 12 else 10 ** 12


def n_coq(x):
    return "%d%%N" % x


def idle_case(s, n, end, pty=False, warn=False, ins=None, async_=False, split=False, cfg=False, pending=()):
    eofs = [["out", []]] + ([] if pty else [["err", []]])
    idle = [["idle", n]] if not split or n < 2 else [["idle", n // 2], ["out", [66]], ["idle", n - n // 2]]
    c = {"events": [["out", [65]]] + idle + [list(end)] + [list(u) for u in pending] + eofs, "pty": pty, "in": ins,
         "warn": warn, "async": async_, "start_error": None, "never_eof": [], "input_sleep": s, "pace": PACE}
    if cfg:
        c["config_timeout"] = 2
    else:
        c["timeout"] = 5
    return c


def wait_family(tier):
    """the command runs idle for n = age / input_sleep iterations of the wait loop, then exits by itself or is
    killed by the timer; quick: every (input_sleep, age in AGES_QUICK) with n <= 2500, thorough: every age with
    n <= 12000 and the small ones also with a pty / warn / asynchronous / an input stream (units pending at the expiry) / a read in
    the middle / a configured timeout"""
    cap = 2500 if tier == "quick" else 12000
    for s in SLEEPS:
        seen = set()
        for a in (AGES_QUICK if tier == "quick" else AGES):
            n = int(round(a / s))
            if n < 1 or n > cap or n in seen:
                continue
            seen.add(n)
            yield idle_case(s, n, ["timer"], warn=(n % 2 == 0))
            if n <= (300 if tier == "quick" else 800):
                yield idle_case(s, n, ["exit", 3 if n % 2 else 0], split=(n % 3 == 0))
            if tier != "quick" and n <= 800:
                yield idle_case(s, n, ["timer"], pty=True)
                yield idle_case(s, n, ["timer"], async_=True, cfg=True)
                yield idle_case(s, n, ["timer"], ins={"mode": "text"}, pending=(["in", "a"], ["in", "b"]), split=True)
                yield idle_case(s, n, ["exit", 0], pty=True, ins={"mode": "text"})
                yield idle_case(s, n, ["exit", 1], warn=True, async_=True)
        # one step past the cap's neighbours: ages at which NOTHING special should happen
        for n in ((1, 101) if tier == "quick" else (1, 2, 3, 101, 128, 257, 1001)):
            if n not in seen:
                yield idle_case(s, n, ["timer"])


def with_idle(case, rng, p=IDLE_P):
    """with probability p a generated case gets another input_sleep and an idle stretch of 1..400 iterations
    somewhere before the process ends (or anywhere, if it never does)"""
    if case.get("start_error") or rng.random() >= p:
        return case
    evs = case["events"]
    first = next((i for i, e in enumerate(evs) if e[0] in ("exit", "exit_kbd", "timer")), len(evs))
    pos = rng.randrange(first + 1)
    n = rng.choice([1, 3, 30, 101, 130, 260])
    return dict(case, events=evs[:pos] + [["idle", n]] + evs[pos:], input_sleep=rng.choice(SLEEPS), pace=PACE)



def pending_units(case):
    """the input units queued when the (first) timer fires: the in events directly after it, if that
    expiry happens while the command is running and an input stream exists"""
    evs = case["events"]
    if not case.get("in") or cases.first_of(case) != "expired" or cases.effective_timeout(case) is None:
        return []
    k = next(i for i, e in enumerate(evs) if e[0] == "timer")
    out = []
    for e in evs[k + 1:]:
        if e[0] != "in":
            break
        out.append(e[1])
    return out


def with_pending_input(case, rng):
    """with probability PENDING_P, a generated case that has an input stream which has not ended and whose
    timer expires before the command exits gets 1-3 input units queued at the expiry"""
    evs = case["events"]
    if not case.get("in") or case.get("start_error") or cases.first_of(case) != "expired" \
            or cases.effective_timeout(case) is None:
        return case
    k = next(i for i, e in enumerate(evs) if e[0] == "timer")
    if any(e[0] == "in_eof" for e in evs[:k]):     # an ended stream has nothing pending (cf. F-C12d / F-C08h)
        return case
    if rng.random() >= PENDING_P:
        return case
    units = [["in", rng.choice(["a", "b", "\n"])] for _ in range(rng.randint(1, 3))]
    return dict(case, events=evs[:k + 1] + units + evs[k + 1:])


def pending_small_cases():
    """timer expiry with 1 or 3 input units queued, before / between / after the readers' EOFs, with and
    without a pty, warn, asynchronous, a configured instead of a keyword timeout, input before the expiry too,
    and -- for contrast -- the same scripts with the command finishing first"""
    for pty in (False, True):
        eofs = [["out", []]] + ([] if pty else [["err", []]])
        for units in ([["in", "a"]], [["in", "a"], ["in", "b"], ["in", "\n"]]):
            for warn in (False, True):
                for pos in range(len(eofs) + 1):
                    evs = [["out", [65]]] + eofs[:pos] + [["timer"]] + units + eofs[pos:]
                    yield {"events": evs, "pty": pty, "in": {"mode": "text"}, "warn": warn, "async": False,
                           "start_error": None, "never_eof": [], "timeout": 5}
            yield {"events": [["in", "x"], ["out", [65]], ["timer"]] + units + [["out", [66]]] + eofs, "pty": pty,
                   "in": {"mode": "text"}, "warn": False, "async": True, "start_error": None, "never_eof": [],
                   "config_timeout": 2}
            # the command finishes first (input queued at its exit): left alone
            yield {"events": [["out", [65]], ["exit", 3]] + units + eofs, "pty": pty, "in": {"mode": "text"},
                   "warn": False, "async": False, "start_error": None, "never_eof": [], "timeout": 5}


class _TimedQueue:
    """in_stream with input queued: a StringIO of n characters (`endless_for` seconds of 'y' instead: an
    input that never runs dry, like `yes | inv ...`, cut off so that the check ends) which notes when each
    character is taken"""

    def __init__(self, n=None, endless_for=None):
        import io
        self.total = n
        self.buf = io.StringIO("x" * (n or 0))
        self.t_end = None if endless_for is None else time.time() + endless_for
        self.times = []

    def read(self, size=-1):
        if self.t_end is not None:
            s = "y" if time.time() < self.t_end else ""
        else:
            s = self.buf.read(size)
        if s:
            self.times.append(time.time())
        return s

    def describe(self):
        return "like io.StringIO('x' * %d)" % self.total if self.total is not None else \
            "read() always returns 'y' (for 4 s)"


PROMPT = 1.5     # s: the report must follow the kill / the command's end within this, whatever is queued
FOLLOW = 1.0     # s: a late report counts as "late because of the drain" only if it follows the drain's end this closely


def _drain_verdict(stream, t_ref, report_at, pending):
    """(late, attributable): the report came more than PROMPT after t_ref; and the only reason is F-C14e --
    input was pending at t_ref, the stdin worker was still taking queued input after the deadline and the
    report followed the last character within FOLLOW"""
    late = report_at - t_ref > PROMPT
    if not late:
        return False, False
    after = [t for t in stream.times if t > t_ref + PROMPT]
    return True, bool(pending and after and report_at - stream.times[-1] <= FOLLOW)


def real_pending_stdin(tier):
    """The timer fires (or the command finishes) while the stdin-mirroring worker still has input to forward.
    A non-terminal in_stream is mirrored one character per input_sleep (10 ms), so N characters keep that
    worker busy for at least N/100 s: with a timeout of 0.3 s there is input pending at the expiry however the
    threads are scheduled (recorded: what the worker had taken when kill() ran).  Judged at full strength:
    CommandTimedOut with the output so far, one kill, nothing left behind, and PROMPTLY -- within PROMPT s of
    the kill, a bound that does not depend on how much input is queued.  The unchanged code fails the last
    point (F-C14e: the worker forwards everything that is queued before it ends, and is joined without a
    timeout); a run that is late ONLY for that reason is attributed to the finding, anything else is not."""
    from invoke.runners import Local
    strict = tier == "thorough"
    fails, evals, inconclusive, lat = [], 0, 0, []

    def scenario(cmd, stream, **kw):
        kills = []

        class Rec(Local):
            def kill(self):
                kills.append((time.time(), len(stream.times)))     # when, and what the worker had taken by then
                super().kill()
        t0 = time.time()
        return rc.run_real(cmd, hide=True, in_stream=stream, runner_cls=Rec, bound=25, **kw), kills, t0

    expiry = [(300, {}), (300, {"pty": True}), (100, {"warn": True}), (100, {"asynchronous": True})]
    if strict:
        vs = [{}, {"warn": True}, {"asynchronous": True}, {"pty": True}, {"pty": True, "warn": True},
              {"asynchronous": True, "join_delay": 0.8}, {"asynchronous": True, "pty": True}, {"timeout": 0.05}]
        expiry = [(300, v) for v in vs] * 2 + [(100, {}), (600, {}), (None, {})]
    for n_in, v in expiry:
        evals += 1
        kw = dict({"timeout": 0.3}, **v)
        cmd = "echo started; exec sleep 8"
        stream = _TimedQueue(n_in) if n_in is not None else _TimedQueue(endless_for=4.0)
        r, kills, t0 = scenario(cmd, stream, **kw)
        case = dict({"cmd": cmd, "in_stream": stream.describe(), "hide": True}, **kw)
        tex = ("; worker errors: %s" % ", ".join(r["thread_excs"])) if r.get("thread_excs") else ""
        if r["hang"]:
            fails.append({"case": case, "what": "run() still blocked 25 s after a timeout of %s s with input "
                                                "pending (then: %s)" % (kw["timeout"], r["outcome"])})
            continue
        if r["outcome"] != "CommandTimedOut":
            left = "?" if not kills else "unboundedly many" if n_in is None else str(n_in - kills[0][1])
            fails.append({"case": case, "what": "the timeout expired while %s input characters were still to be "
                                                "forwarded: outcome %s after %.1fs instead of CommandTimedOut%s"
                                                % (left, r["outcome"], r["elapsed"], tex)})
            continue
        wrong = []
        if len(kills) != 1:
            wrong.append("kill() ran %d times" % len(kills))
        if "started" not in (r["stdout"] or ""):
            wrong.append("the timed-out failure does not carry the output so far: %r" % (r["stdout"],))
        if getattr(r["exc"], "timeout", None) != kw["timeout"]:
            wrong.append("CommandTimedOut.timeout is %r" % (getattr(r["exc"], "timeout", None),))
        if r["child_state"] is not None:
            wrong.append("killed child not reaped (%s)" % r["child_state"])
        if r["alive_after"] or r["timer_alive"]:
            wrong.append("left behind: workers %s, timer alive %s" % (r["alive_after"], r["timer_alive"]))
        if kills and kills[0][0] - t0 > kw["timeout"] + PROMPT:
            wrong.append("kill() ran only %.1fs after the start" % (kills[0][0] - t0))
        if wrong:
            fails.append({"case": case, "what": "; ".join(wrong)})
            continue
        t_kill, taken = kills[0]
        pending = None if n_in is None else n_in - taken
        if pending == 0:
            inconclusive += 1                 # nothing was pending after all: says nothing, not counted as a pass
            evals -= 1
        report_at = t0 + r["elapsed"]
        lat.append("%s: %.1f" % (n_in if n_in is not None else "endless(4 s)", report_at - t_kill))
        late, drain = _drain_verdict(stream, t_kill, report_at, pending is None or pending > 0)
        if late:
            what = ("timeout %s s, %s characters still queued at the kill: CommandTimedOut raised only %.1f s after "
                    "the kill (bound %.1f s, whatever is queued)" % (
                        kw["timeout"], "unboundedly many" if pending is None else pending, report_at - t_kill, PROMPT))
            if drain:
                fails.append({"case": case, "finding": "F-C14e",
                              "what": what + " -- the stdin worker went on forwarding queued input to the dead "
                                             "command until %.1f s after the kill" % (stream.times[-1] - t_kill)})
            else:
                fails.append({"case": case, "what": what + "; not explained by queued input"})
    # the command finishes first while input is still queued: normal outcome, nothing killed, timer disarmed,
    # and the result is there promptly
    timely = [("sleep 0.2; echo done", 300, {}, "Result", "done\n", 0),
              ("cat; echo done", 30, {}, "Result", "x" * 30 + "done\n", 0)]
    if strict:
        timely += [("sleep 0.2; echo done; exit 3", 300, {}, "UnexpectedExit", "done\n", 3),
                   ("sleep 0.2; echo done; exit 3", 300, {"warn": True}, "Result", "done\n", 3),
                   ("sleep 0.2; echo done", 300, {"asynchronous": True}, "Result", "done\n", 0),
                   ("sleep 0.2; echo done", 300, {"pty": True}, "Result", "x" * 20 + "done\r\n", 0)]
    for cmd, n, v, want, out, code in timely:
        evals += 1
        kw = dict({"timeout": 20}, **v)
        stream = _TimedQueue(n)
        r, kills, t0 = scenario(cmd, stream, **kw)
        case = dict({"cmd": cmd, "in_stream": stream.describe(), "hide": True}, **kw)
        got_out = r["stdout"]
        if v.get("pty") and got_out is not None:
            out, got_out = "done\r\n", got_out[got_out.find("done"):]     # the pty echoes what was typed so far
        if r["outcome"] != want or got_out != out or r["exited"] != code:
            fails.append({"case": case, "what": "a command that finishes well before its timeout, input still queued: "
                                                "outcome %s after %.1fs, stdout %r, exited %r (expected %s, %r, %r)"
                                                % (r["outcome"], r["elapsed"], r["stdout"], r["exited"], want, out, code)})
            continue
        if kills or r["timer_alive"]:
            fails.append({"case": case, "what": "kill() calls %d, timer alive afterwards %s" % (len(kills), r["timer_alive"])})
            continue
        if r["child_state"] is not None or r["alive_after"]:
            fails.append({"case": case, "what": "left behind: child %s, workers %s" % (r["child_state"], r["alive_after"])})
            continue
        report_at = t0 + r["elapsed"]
        if cmd.startswith("cat"):
            t_ref, pending = (stream.times[-1] if stream.times else t0), False    # ends when its input does
        else:
            t_ref = t0 + 0.2
            pending = len([t for t in stream.times if t <= t_ref]) < n
        late, drain = _drain_verdict(stream, t_ref, report_at, pending)
        if late:
            what = ("the command had finished after about %.1f s, %s: its %s was delivered only %.1f s later (bound "
                    "%.1f s)" % (t_ref - t0, "input still queued" if pending else "no input queued", want,
                                 report_at - t_ref, PROMPT))
            if drain:
                fails.append({"case": case, "finding": "F-C14e",
                              "what": what + " -- the stdin worker went on forwarding queued input to the finished "
                                             "command until %.1f s after its end" % (stream.times[-1] - t_ref)})
            else:
                fails.append({"case": case, "what": what + "; not explained by queued input"})
    return {"name": "real-timeout-pending-stdin", "evaluations": evals, "failures": fails,
            "note": "real children through Local with in_stream = N queued characters (mirrored one per 10 ms): "
                    "'exec sleep 8' under timeout 0.3 is killed while input is still pending -> CommandTimedOut with "
                    "the output so far, one kill, child reaped, no worker error, and promptly = within %.1f s of the "
                    "kill whatever N is (plain, pty, warn, asynchronous%s); commands that finish first with input "
                    "still queued -> normal outcome, no kill, timer gone, result within %.1f s of the end.  Observed "
                    "kill-to-report times by N: %s s; late-only-because-of-the-drain runs are attributed to F-C14e "
                    "(worker still taking queued input after the deadline, report within %.1f s of the last "
                    "character), everything else is unattributed%s"
                    % (PROMPT, ", ... x2, N = 100/300/600/endless" if strict else "", PROMPT, ", ".join(lat), FOLLOW,
                       "; %d runs inconclusive (no input pending at expiry), not counted" % inconclusive
                       if inconclusive else "")}


class _DCase:
    id = "C14"
    corr_module = "Corr.C14Corr"
    case_type = "dcase"
    preds = ("dcorr",)
    shard_size = 400


def stdin_drain_rule(tier):
    """The exit rule of the stdin worker's loop (Model/StdinDrainModel.v) against the real Runner.handle_stdin,
    without threads or timing: handle_stdin is called directly on a scripted input stream (ScriptedIn: readiness
    and reads answered from a list data / empty / not-ready), program_finished is set inside the readiness probe
    of a chosen iteration; observed: iterations made from that one on (= probes), units written to the command's
    stdin meanwhile, whether its stdin was closed.  Judged in Coq by Corr.C14Corr.dcorr."""
    import itertools
    import threading
    from invoke import Context
    from invoke.runners import Runner
    rc.install()

    class Sink(Runner):
        input_sleep = 0

        def __init__(self):
            super().__init__(Context())
            self.using_pty = False
            self.encoding = "utf-8"
            self.written = []
            self.closes = 0

        def _write_proc_stdin(self, data):
            self.written.append(bytes(data))

        def close_proc_stdin(self):
            self.closes += 1

    class Probe:
        def __init__(self, runner, pre, after):
            self.runner, self.results, self.finish_at = runner, list(pre) + list(after), len(pre)
            self.probes, self.cur, self.fwd_before = 0, None, None
            self.cap = len(self.results) + 50

        def in_ready(self):
            i = self.probes
            self.probes += 1
            if i >= self.cap:
                raise rc.HarnessAbort()
            if i == self.finish_at:
                self.fwd_before = len(self.runner.written)
                self.runner.program_finished.set()
            self.cur = self.results[i] if i < len(self.results) else "empty"
            return self.cur != "notready"

        def read_in(self, mode):
            return "x" if self.cur == "data" else ""

    alpha = ("data", "empty", "notready")
    depth = 4 if tier == "thorough" else 3
    afters = [list(t) for k in range(depth + 1) for t in itertools.product(alpha, repeat=k)]
    for n in ((10, 50, 200, 1000) if tier == "thorough" else (10, 50, 200)):
        afters += [["data"] * n, ["data"] * n + ["notready", "data"], ["data"] * n + ["empty"]]
    pres = ([], ["data"], ["notready"], ["data", "notready", "data"])
    items, terms, fails = [], [], []
    RD = {"data": "RData", "empty": "REmpty", "notready": "RNotReady"}
    for pre in pres:
        for after in afters:
            runner = Sink()
            probe = Probe(runner, pre, after)
            box = {}

            def call(runner=runner, probe=probe, box=box):
                try:
                    runner.handle_stdin(rc.ScriptedIn(probe, "text"), None, echo=False)
                    box["ok"] = True
                except BaseException as e:   # noqa
                    box["exc"] = type(e).__name__
            t = threading.Thread(target=call, daemon=True)
            t.start()
            t.join(10)
            nd = next((i for i, x in enumerate(after) if x != "data"), len(after))
            short = {"before_finish": pre, "from_finish_on": after if len(after) <= 8 else
                     "%d x data, then %r" % (nd, after[nd:])}
            if t.is_alive() or "exc" in box:
                fails.append({"case": short, "what": "handle_stdin did not leave its loop after program_finished was "
                                                     "set (%s after %d iterations)" % (box.get("exc", "still running"),
                                                                                       probe.probes)})
                continue
            items.append(short)
            terms.append("(mkd %s %s %s %s)" % (cases.ct.lst([RD[x] for x in after]),
                                                cases.ct.n(probe.probes - probe.finish_at),
                                                cases.ct.n(len(runner.written) - probe.fwd_before),
                                                cases.ct.b(runner.closes > 0)))
            items[-1] = dict(short, iterations=probe.probes - probe.finish_at,
                             forwarded=len(runner.written) - probe.fwd_before, closed=runner.closes > 0)
    res = core.eval_shards(_DCase, terms, "drain")
    for case, r in zip(items, res):
        if not r["dcorr"]:
            fails.append({"case": case, "what": "the stdin worker's loop after program_finished differs from the model "
                                                "(leave by the first read that is not input; one iteration per queued "
                                                "unit, each forwarded)"})
    return {"name": "stdin-drain-rule", "evaluations": len(pres) * len(afters), "failures": fails,
            "note": "real Runner.handle_stdin called directly on a scripted stream, program_finished set during a "
                    "chosen iteration; all read sequences over {data, empty, not ready} up to length %d after that "
                    "moment (x 4 histories before it) and queues of up to %d units: iterations / units forwarded / "
                    "stdin closed compared with Model.StdinDrainModel by Corr.C14Corr.dcorr (F-C14e: the count "
                    "grows with the queue -- C14_prompt_pending_refuted)" % (depth, 1000 if tier == "thorough" else 200)}


class _PCase:
    id = "C14"
    corr_module = "Corr.C14Corr"
    case_type = "pcase"
    preds = ("pcorr",)
    shard_size = 400


_PROG = {}


def program_timeout_sources(tier):
    """Timeout source at the Program level.  A task whose body is c.run(...) is run through the real
    Program (parse, update_config, executor) for every combination of the five sources
    {timeout= keyword, -T, INVOKE_TIMEOUTS_COMMAND, project invoke.yaml, collection configuration}; the
    runner is the scripted one, so what is observed is the Timer the real start_timer arms (or not)."""
    import contextlib
    import io
    import itertools
    import shutil
    from unittest import mock
    from invoke import Config, Program
    VAL = {"kwarg": 9, "cli": 7, "env": 3, "file": 5, "coll": 4}
    base = rc.runner_class()
    made = []

    class Cap(base):
        def __init__(self, context):
            env = rc.Env([["exit", 0]])
            super().__init__(context, env)
            made.append(self)

    class Cfg(Config):
        @staticmethod
        def global_defaults():
            g = Config.global_defaults()
            g["runners"]["local"] = Cap
            return g

    items, terms, fails = [], [], []
    root = tempfile.mkdtemp(prefix="c14-prog-", dir=core.BUILD)
    try:
        combos = [set(c) for k in range(6) for c in itertools.combinations(sorted(VAL), k)]
        combos.append({"cli0", "file"})            # -T 0 is dropped by `if command:`; the configured value stays
        # every combination through c.run(); through c.sudo() the ones where the keyword matters most
        plan = [("run", s) for s in combos] + [("sudo", s) for s in combos if len(s) <= 2 or "kwarg" in s]
        for n, (method, srcs) in enumerate(plan):
            d = os.path.join(root, "p%d" % n)
            os.mkdir(d)
            with open(os.path.join(d, "ptasks.py"), "w") as f:
                f.write("from invoke import Collection, task\nfrom harness.props import c14 as H\n\n"
                        "@task\ndef t(c):\n    H._PROG['body'](c)\n\nns = Collection(t)\n"
                        + ("ns.configure({'timeouts': {'command': %d}})\n" % VAL["coll"] if "coll" in srcs else ""))
            if "file" in srcs:
                with open(os.path.join(d, "invoke.yaml"), "w") as f:
                    f.write("timeouts:\n  command: %d\n" % VAL["file"])
            kwargs = {"hide": True, "in_stream": False}
            if "kwarg" in srcs:
                kwargs["timeout"] = VAL["kwarg"]
            rec = {}

            def body(c, kwargs=kwargs, rec=rec, method=method):
                try:
                    getattr(c, method)("scripted", **kwargs)
                except Exception as e:   # noqa
                    rec["exc"] = type(e).__name__
            _PROG["body"] = body
            argv = ["inv", "-r", d, "-c", "ptasks"]
            if "cli" in srcs:
                argv += ["-T", str(VAL["cli"])]
            if "cli0" in srcs:
                argv += ["-T", "0"]
            argv += ["t"]
            environ = {k: v for k, v in os.environ.items() if not k.startswith("INVOKE_")}
            if "env" in srcs:
                environ["INVOKE_TIMEOUTS_COMMAND"] = str(VAL["env"])
            del made[:]
            outer = None
            sys.modules.pop("ptasks", None)
            with mock.patch.dict(os.environ, environ, clear=True), contextlib.redirect_stdout(io.StringIO()), \
                    contextlib.redirect_stderr(io.StringIO()):
                try:
                    Program(config_class=Cfg).run(argv, exit=False)
                except BaseException as e:   # noqa
                    outer = type(e).__name__
            for r in made:
                with r._verif_env.cv:
                    r._verif_env.abort = True
                    r._verif_env.cv.notify_all()
            timer = made[0]._verif_env.timer if made else None
            got = None if timer is None else timer.interval
            is_num = got is None or (isinstance(got, (int, float)) and not isinstance(got, bool))
            lower = VAL["env"] if "env" in srcs else VAL["file"] if "file" in srcs else VAL["coll"] if "coll" in srcs else None
            case = {"method": method, "sources": sorted(srcs), "armed_interval": repr(got), "outer": outer,
                    "ran": len(made)}
            if len(made) != 1:
                fails.append({"case": case, "what": "the task's run() was not reached exactly once"})
                continue
            try:
                got_n = None if got is None else int(float(got))
            except (TypeError, ValueError):
                got_n = 99
            items.append(case)
            terms.append("(mkp %s %s %s %s %s)" % (
                cases.opt_n(VAL["kwarg"] if "kwarg" in srcs else None),
                cases.opt_n(VAL["cli"] if "cli" in srcs else 0 if "cli0" in srcs else None),
                cases.opt_n(lower), cases.opt_n(got_n), "true" if is_num else "false"))
    finally:
        shutil.rmtree(root, ignore_errors=True)
        sys.modules.pop("ptasks", None)
    res = core.eval_shards(_PCase, terms, "prog")
    for case, r in zip(items, res):
        if r["pcorr"]:
            continue
        f = {"case": case, "what": "timeout in effect differs from 'keyword > -T > environment variable > project "
                                   "file > collection configuration': Timer interval %s" % case["armed_interval"]}
        fails.append(f)          # (the env-only case was F-C14c, fixed: start_timer converts with float())
    return {"name": "program-timeout-sources", "evaluations": len(plan), "failures": fails,
            "note": "real Program.run, task body c.run(...) or c.sudo(...), over all 32 combinations of {timeout= keyword, -T, INVOKE_TIMEOUTS_COMMAND, "
                    "project invoke.yaml, collection configuration} (+ -T 0 with a project file); observed: the "
                    "Timer armed by the real start_timer inside the scripted runner; judged in Coq by "
                    "Corr.C14Corr.pcorr (rule proved equal to the Program/option model: C14_timeout_source_program)"}


TASKS = '''
from invoke import task

@task
def nap(c):
    c.run("echo napping; exec sleep 20", hide=True, in_stream=False)


@task
def show(c):
    print("TIMEOUT=%r" % (c.config.timeouts.command,))
    r = c.run("echo x", hide=True, in_stream=False)
    print("KW=%r" % (c.run("echo y", hide=True, in_stream=False, timeout=9) is not None,))
'''


def cli_source(tier):
    """-T on the command line feeds config.timeouts.command"""
    d = tempfile.mkdtemp(prefix="c14-cli-", dir=core.BUILD)
    fails, evals = [], 0
    try:
        open(os.path.join(d, "tasks.py"), "w").write(TASKS)
        for args, want in ((["-T", "7"], "TIMEOUT=7"), (["--command-timeout=3"], "TIMEOUT=3"), ([], "TIMEOUT=None")):
            evals += 1
            env = dict(os.environ, PYTHONPATH=core.REPO)
            p = subprocess.run([sys.executable, "-m", "invoke"] + args + ["show"], cwd=d, env=env,
                               capture_output=True, text=True, timeout=60)
            if want not in p.stdout:
                fails.append({"case": {"args": args}, "what": "expected %s, got %r %r" % (want, p.stdout[:200],
                                                                                          p.stderr[-200:])})
        # the timeout comes ONLY from the project's invoke.yaml: no -T, no keyword -- the sleeper is killed
        evals += 1
        open(os.path.join(d, "invoke.yaml"), "w").write("timeouts:\n  command: 1\n")
        t0 = time.time()
        try:
            p = subprocess.run([sys.executable, "-m", "invoke", "nap"], cwd=d,
                               env=dict(os.environ, PYTHONPATH=core.REPO), capture_output=True, text=True, timeout=40)
            el = time.time() - t0
            if p.returncode == 0 or el > 12:
                fails.append({"case": {"args": ["nap"], "invoke.yaml": "timeouts.command: 1"},
                              "what": "exit %s after %.1fs: %r" % (p.returncode, el, (p.stdout + p.stderr)[-200:])})
        except subprocess.TimeoutExpired:
            fails.append({"case": {"args": ["nap"], "invoke.yaml": "timeouts.command: 1"},
                          "what": "exec sleep 20 under a configured timeout of 1 s still running after 40 s"})
        os.unlink(os.path.join(d, "invoke.yaml"))
        evals += 1
        t0 = time.time()
        try:
            p = subprocess.run([sys.executable, "-m", "invoke", "-T", "1", "nap"], cwd=d,
                               env=dict(os.environ, PYTHONPATH=core.REPO), capture_output=True, text=True, timeout=40)
            el = time.time() - t0
            if p.returncode == 0 or el > 12:
                fails.append({"case": {"args": ["-T", "1", "nap"]},
                              "what": "exit %s after %.1fs: %r" % (p.returncode, el, (p.stdout + p.stderr)[-200:])})
        except subprocess.TimeoutExpired:
            fails.append({"case": {"args": ["-T", "1", "nap"]}, "what": "sleep 20 under -T 1 still running after 40 s"})
    finally:
        import shutil
        shutil.rmtree(d, ignore_errors=True)
    return {"name": "cli-timeout-source", "evaluations": evals, "failures": fails,
            "note": "python -m invoke [-T n] show: the task sees config.timeouts.command = n (None without the flag)"}


PROP = C14()
