"""C14: a timed-out command is killed and reported promptly; a timely one is left alone."""
import os
import subprocess
import sys
import tempfile
import time

from .. import core
from .. import runner_cases as cases
from .. import runner_common as rc
from ..core import Prop
from .c08 import C08


class C14(Prop):
    id = "C14"
    corr_module = "Corr.C14Corr"
    quick_n = 900
    thorough_n = 12000
    shard_size = 300
    rule = ("same event scripts as C08, biased towards timeouts: a timeout from the run() keyword and/or "
            "config.timeouts.command in 70% of the cases, timer expiry placed anywhere relative to process exit, "
            "reads, EOFs and the decision; warn on/off; exit statuses; pipes held open by a descendant.  "
            "Non-trivial = a timeout is in effect and the script contains a timer expiry or a process exit")
    trusted_base = C08.trusted_base
    assumptions = C08.assumptions + [
        "threading.Timer contract: the function runs once after the interval unless cancelled first; the timer "
        "thread is alive until then (replaced by a scripted timer in the scripted runs)",
    ]
    not_modelled = C08.not_modelled + [
        "seconds: 'promptly' is 'without waiting for anything but the readers' EOF' in the model; real latencies "
        "are measured by the real-child runs with generous margins",
        "processes that ignore signals (SIGKILL cannot be ignored) -- not explored",
    ]

    phases = None

    def setup(self, tier, seed):
        self.phases = rc.Phases()
        self.phases.mark("proof build (incl. waiting for the shared build lock)")

    def generate(self, rng, tier, n):
        if self.phases:
            self.phases.mark("scripted cases + shards")
        if tier == "quick":
            # a slice of the exhaustive small scope (all of it: thorough tier) + generated cases; the ones
            # that cost real seconds (1 s per expiring join) are capped
            yield from cases.quick_cases(rng, n, focus="timeout")
            return
        for _ in range(n):
            yield cases.gen_case(rng, focus="timeout")

    def enumerate_small(self, tier):
        return cases.small_cases(tier)

    def run_impl(self, case):
        return cases.run_impl(case)

    def to_coq(self, case, obs):
        return cases.to_coq(case, obs)

    def nontrivial(self, case, obs):
        return cases.effective_timeout(case) is not None and cases.first_of(case) != "none"

    def classify(self, case, obs):
        return "%s %s %s" % ("timeout" if cases.effective_timeout(case) is not None else "no-timeout",
                             cases.first_of(case), obs["outcome"] or "HANG")

    def finding_of(self, case, obs):
        if cases.effective_timeout(case) is None or case.get("start_error"):
            return None
        f = cases.first_of(case)
        evs = case["events"]
        if f == "finished":
            xi = next(i for i, e in enumerate(evs) if e[0] in cases.END)
            if any(e[0] == "timer" for e in evs[xi + 1:]) and \
                    (obs["outcome"] == "CommandTimedOut" or obs["kills_after_exit"] > 0):
                return "F-C14a"
        if f == "expired" and case.get("never_eof") and obs["hang"] and obs["kills"] >= 1:
            return "F-C14b"
        return None

    _budget = rc.ShrinkBudget(45.0)

    def shrink_candidates(self, case):
        if not self._budget.ok():
            return
        yield from cases.shrink_candidates(case)

    def mutate(self, case, rng):
        for _ in range(40):
            yield cases.gen_case(rng, focus="timeout")

    def extra_checks(self, tier, seed):
        if self.phases:
            self.phases.mark("extra checks")
        budget = rc.ExtraBudget(tier, 30.0)
        res = [cli_source(tier), real_timeouts(tier, budget)]
        if self.phases:
            self.phases.mark("end")
            res.append(self.phases.entry())
        return res


def real_timeouts(tier, budget):
    fails, evals = [], 0
    reps = 1 if tier == "quick" else 5
    strict = tier == "thorough"
    for _ in range(reps):
        for pty in (False, True):
            for warn in ((False, True) if strict else ((True,) if pty else (False,))):   # quick: one per pty mode
                # still running at expiry: killed, reported, promptly
                evals += 1
                r = rc.run_real("echo started; sleep 20", hide=True, in_stream=False, pty=pty, warn=warn,
                                timeout=0.5, bound=25)
                case = {"cmd": "echo started; sleep 20", "timeout": 0.5, "pty": pty, "warn": warn}
                if r["outcome"] != "CommandTimedOut":
                    fails.append({"case": case, "what": "outcome %s after %.1fs" % (r["outcome"], r["elapsed"])})
                else:
                    if "started" not in (r["stdout"] or ""):
                        fails.append({"case": case, "what": "timed-out failure does not carry the output so far"})
                    if r["elapsed"] > (5.0 if strict else 15.0):
                        fails.append({"case": case, "what": "reported only after %.1fs" % r["elapsed"]})
                    if r["child_state"] not in (None,):
                        fails.append({"case": case, "what": "killed child not reaped (%s)" % r["child_state"]})
            # finishes first: normal outcome, timer disarmed, nothing killed later
            evals += 1
            r = rc.run_real("echo quick", hide=True, in_stream=False, pty=pty, timeout=30, bound=25)
            case = {"cmd": "echo quick", "timeout": 30, "pty": pty}
            if r["outcome"] != "Result" or r["timer_alive"]:
                fails.append({"case": case, "what": "outcome %s, timer alive %s" % (r["outcome"], r["timer_alive"])})
            evals += 1
            r = rc.run_real("exit 4", hide=True, in_stream=False, pty=pty, timeout=30, bound=25)
            if r["outcome"] != "UnexpectedExit" or r["timer_alive"]:
                fails.append({"case": {"cmd": "exit 4", "timeout": 30, "pty": pty},
                              "what": "outcome %s, timer alive %s" % (r["outcome"], r["timer_alive"])})
    # a single process that ignores SIGTERM is killed all the same (SIGKILL), promptly
    evals += 1
    prog = "import signal,time; signal.signal(signal.SIGTERM, signal.SIG_IGN); print('started', flush=True); time.sleep(25)"
    r = rc.run_real("exec %s -c \"%s\"" % (sys.executable, prog), hide=True, in_stream=False, timeout=0.5, bound=25)
    case = {"cmd": "exec python ignoring SIGTERM", "timeout": 0.5}
    if r["outcome"] != "CommandTimedOut":
        fails.append({"case": case, "what": "outcome %s after %.1fs" % (r["outcome"], r["elapsed"])})
    elif r["elapsed"] - 0.5 > 6.0:
        fails.append({"case": case, "what": "a SIGTERM-ignoring command was reported only after %.1fs" % r["elapsed"]})
    # detection latency does not grow with the age of the command: timeout 6 s, reported well before 8 s
    evals += 1
    r = rc.run_real("echo started; sleep 30", hide=True, in_stream=False, timeout=6, bound=25)
    case = {"cmd": "echo started; sleep 30", "timeout": 6}
    if r["outcome"] != "CommandTimedOut":
        fails.append({"case": case, "what": "outcome %s after %.1fs" % (r["outcome"], r["elapsed"])})
    elif r["elapsed"] - 6.0 > 1.8:
        fails.append({"case": case, "what": "timeout of 6 s reported after %.2fs (exit noticed %.2fs late)"
                                            % (r["elapsed"], r["elapsed"] - 6.0)})
    # a timely command under a fractional timeout is left alone
    evals += 1
    r = rc.run_real("sleep 0.2; echo done", hide=True, in_stream=False, timeout=0.9, bound=25)
    if r["outcome"] != "Result" or r["stdout"] != "done\n":
        fails.append({"case": {"cmd": "sleep 0.2; echo done", "timeout": 0.9},
                      "what": "outcome %s after %.2fs, stdout %r" % (r["outcome"], r["elapsed"], r["stdout"])})
    # asynchronous run joined late: the timer has fired meanwhile
    evals += 1
    r = rc.run_real("echo started; sleep 20", hide=True, in_stream=False, timeout=0.3, asynchronous=True,
                    join_delay=1.0, bound=25)
    if r["outcome"] != "CommandTimedOut" or "started" not in (r["stdout"] or ""):
        fails.append({"case": {"cmd": "echo started; sleep 20", "timeout": 0.3, "asynchronous": True,
                               "join_delay": 1.0},
                      "what": "outcome %s, stdout %r" % (r["outcome"], r["stdout"])})
    if not budget.allow("reproduction of known findings F-C14a/b"):
        return {"name": "real-timeouts", "evaluations": evals, "failures": fails,
                "note": budget.note() + "real children through Local (see the thorough tier for the full list)"}
    # F-C14a: the shell exits 0 at once, a background child keeps the pipes for 4 s, the timer fires at 1 s
    evals += 1
    r = rc.run_real("(sleep 4 &); exit 0", hide=True, in_stream=False, timeout=1, bound=25)
    if r["outcome"] == "CommandTimedOut" and r["exited"] == 0:
        fails.append({"case": {"cmd": "(sleep 4 &); exit 0", "timeout": 1}, "finding": "F-C14a",
                      "what": "CommandTimedOut raised for a command that had exited 0 before the timer fired"})
    elif r["outcome"] != "Result":
        fails.append({"case": {"cmd": "(sleep 4 &); exit 0", "timeout": 1}, "what": "outcome %s" % r["outcome"]})
    # F-C14b: the kill reaches the shell only; a descendant keeps the pipe open for 3 s
    evals += 1
    r = rc.run_real("sleep 3 & exec sleep 20", hide=True, in_stream=False, timeout=0.5, bound=25)
    if r["outcome"] == "CommandTimedOut" and r["elapsed"] > 2.5:
        fails.append({"case": {"cmd": "sleep 3 & exec sleep 20", "timeout": 0.5}, "finding": "F-C14b",
                      "what": "timeout of 0.5 s reported after %.1f s (a descendant held the pipe)" % r["elapsed"]})
    elif r["outcome"] != "CommandTimedOut":
        fails.append({"case": {"cmd": "sleep 3 & exec sleep 20", "timeout": 0.5}, "what": "outcome %s" % r["outcome"]})
    return {"name": "real-timeouts", "evaluations": evals, "failures": fails,
            "note": budget.note() + "real children through Local: sleep 20 with timeout 0.5 (killed, CommandTimedOut with the output "
                    "so far, within %s s), quick commands with timeout 30 (normal outcome, timer thread gone), and "
                    "the two timing defects" % ("5" if strict else "15 (loaded machine margin)")}


TASKS = '''
from invoke import task

@task
def nap(c):
    c.run("echo napping; sleep 20", hide=True, in_stream=False)


@task
def show(c):
    print("TIMEOUT=%r" % (c.config.timeouts.command,))
    r = c.run("echo x", hide=True, in_stream=False)
    print("KW=%r" % (c.run("echo y", hide=True, in_stream=False, timeout=9) is not None,))
'''


def cli_source(tier):
    """-T on the command line feeds config.timeouts.command"""
    d = tempfile.mkdtemp(prefix="c14-cli-", dir=core.BUILD)
    fails, evals = [], 0
    try:
        open(os.path.join(d, "tasks.py"), "w").write(TASKS)
        for args, want in ((["-T", "7"], "TIMEOUT=7"), (["--command-timeout=3"], "TIMEOUT=3"), ([], "TIMEOUT=None")):
            evals += 1
            env = dict(os.environ, PYTHONPATH=core.REPO)
            p = subprocess.run([sys.executable, "-m", "invoke"] + args + ["show"], cwd=d, env=env,
                               capture_output=True, text=True, timeout=60)
            if want not in p.stdout:
                fails.append({"case": {"args": args}, "what": "expected %s, got %r %r" % (want, p.stdout[:200],
                                                                                          p.stderr[-200:])})
        evals += 1
        t0 = time.time()
        try:
            p = subprocess.run([sys.executable, "-m", "invoke", "-T", "1", "nap"], cwd=d,
                               env=dict(os.environ, PYTHONPATH=core.REPO), capture_output=True, text=True, timeout=40)
            el = time.time() - t0
            if p.returncode == 0 or el > 12:
                fails.append({"case": {"args": ["-T", "1", "nap"]},
                              "what": "exit %s after %.1fs: %r" % (p.returncode, el, (p.stdout + p.stderr)[-200:])})
        except subprocess.TimeoutExpired:
            fails.append({"case": {"args": ["-T", "1", "nap"]}, "what": "sleep 20 under -T 1 still running after 40 s"})
    finally:
        import shutil
        shutil.rmtree(d, ignore_errors=True)
    return {"name": "cli-timeout-source", "evaluations": evals, "failures": fails,
            "note": "python -m invoke [-T n] show: the task sees config.timeouts.command = n (None without the flag)"}


PROP = C14()
