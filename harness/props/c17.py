"""C17: a task's namespace settings are the deep merge along its path, outer
wins; the returned mapping is a fresh copy (aliasing half: snapshot test)."""
import copy
import itertools
import time
import random

from .. import config_common as cc
from .. import coqterm as ct
from .. import gen_tree as gt
from .. import ns
from ..core import Prop


def walk_info(d, name):
    """Python mirror of the *reference* walk, only to classify cases: returns
    (resolves, uses_default_subcollection, depth)."""
    segs = [] if name == "" else name.split(".")
    used_dsub = False
    depth = 0
    cur = d
    while True:
        subs = dict((k, v) for k, v in cur["subs"])
        tasks = dict((k, v) for k, v in cur["tasks"])
        aliases = dict((k, v) for k, v in cur["aliases"])
        if not segs:
            dflt = cur["default"]
            if dflt is None:
                return False, used_dsub, depth
            if dflt in subs:
                used_dsub = True
                cur = subs[dflt]
                depth += 1
                continue
            return (dflt in tasks or aliases.get(dflt) in tasks), used_dsub, depth
        s = segs[0]
        if len(segs) == 1:
            if s in subs:
                cur = subs[s]
                segs = []
                depth += 1
                continue
            return (s in tasks or aliases.get(s) in tasks), used_dsub, depth
        if s not in subs:
            return False, used_dsub, depth
        cur = subs[s]
        segs = segs[1:]
        depth += 1


# ---- build histories (seed C17-6): one module object with an explicit namespace, mounted several times ----
MOUNT_BINDS = ["docs", "www", "api", "site", "lib"]


def flatten_hist(h):
    """What the history must leave behind, computed with plain dict merges and NO Collection code:
    -> (script of the root, script of the module's own namespace).  Every mount is a collection of its own
    whose stored configuration is: the namespace's configuration AT THE MOMENT of the mount, then config=,
    then the configure() calls made on that very mount -- nothing a sibling mount or the namespace got later."""
    ns_cfg = copy.deepcopy(h["ns"].get("config", {}))
    root_cfg = {}
    mounts, cur = [], {}
    for op in h["ops"]:
        if op[0] == "mount":
            _, bind, ad, cfg, dflt, via = op
            if via == "add":                  # add_collection(module): no auto_dash_names=, no config=
                ad, cfg = None, None
            m = {"bind": bind, "ad": ad, "dflt": bool(dflt), "cfg": ns.py_merge(ns_cfg, cfg or {})}
            mounts.append(m)
            cur[bind] = m
        elif op[0] == "ns":
            ns_cfg = ns.py_merge(ns_cfg, op[1])
        elif op[0] == "conf":
            cur[op[1]]["cfg"] = ns.py_merge(cur[op[1]]["cfg"], op[2])
        elif op[0] == "root":
            root_cfg = ns.py_merge(root_cfg, op[1])
    items = [{"coll": {"module": h["module"], "ad": m["ad"], "ns": dict(h["ns"], config=copy.deepcopy(m["cfg"]))},
              "bind": m["bind"], "default": m["dflt"]} for m in mounts]
    root = {"name": h.get("root_name"), "auto_dash": True, "config": copy.deepcopy(root_cfg), "items": items}
    return root, dict(h["ns"], config=copy.deepcopy(ns_cfg))


def coq_hist(h):
    """coq/Model/CollHist.v [hist]"""
    def bopt(x):
        return ct.opt(ct.b(x) if x is not None else None)
    ops = []
    for op in h["ops"]:
        if op[0] == "mount":
            _, bind, ad, cfg, dflt, via = op
            ops.append("(HMount %s %s %s %s)" % (bopt(ad if via != "add" else None),
                                                ct.opt(ct.tree(gt.unjson(cfg)) if cfg is not None and via != "add" else None),
                                                ct.s(bind), ct.b(bool(dflt))))
        elif op[0] == "ns":
            ops.append("(HConfNs %s)" % ct.tree(gt.unjson(op[1])))
        elif op[0] == "conf":
            ops.append("(HConfMount %s %s)" % (ct.s(op[1]), ct.tree(gt.unjson(op[2]))))
        elif op[0] == "root":
            ops.append("(HConfRoot %s)" % ct.tree(gt.unjson(op[1])))
    return "(mkHist %s %s %s %s)" % (ct.s(h["module"]), ns.sub(h["ns"]), ns.opt_s(h.get("root_name")), ct.lst(ops))


def script_of(case):
    return flatten_hist(case["hist"])[0] if "hist" in case else case["script"]


def hist_ok(h):
    """the history is inside what flatten_hist can express: configure() only on existing mounts,
    type-consistent configurations"""
    try:
        flatten_hist(h)
    except (KeyError, ValueError):
        return False
    return any(op[0] == "mount" for op in h["ops"])


class C17(Prop):
    id = "C17"
    corr_module = "Corr.C17Corr"
    quick_n = 1100
    thorough_n = 24000
    shard_size = 150
    rule = ("random namespace trees (depth<=3, auto-dash on/off per collection, renamed bindings, aliases, default "
            "tasks and default sub-collections) x per-collection nested configs drawn from a shared section schema "
            "(overlapping sections, disjoint keys inside shared sections; 12% deliberately type-inconsistent) x every "
            "resolvable dotted name + spelling variants + junk; non-trivial = some name resolves below the root and "
            ">=2 collections on its path configure the same top-level section; distinct by (script, names)")
    trusted_base = [
        "Coq 8.16.1 kernel + vm_compute (shard evaluation)",
        "hand-written model coq/Model/CollModel.v + MergeModel.v tied to invoke/collection.py, config.merge_dicts by "
        "differential execution (built tree and every lookup compared, this run)",
        "harness/coqterm.py, harness/ns.py (script executor, dump of the real objects), harness/props/c17.py",
        "CPython 3.12 executing /repo",
    ]
    assumptions = [
        "names are ASCII without dots; configuration leaves are None/bool/int/str",
        "type-inconsistent configurations along a path (section vs value) are outside the statement "
        "(merge_dicts raises AmbiguousMergeError; compared with the model, not judged)",
        "trees where bindings inside one collection collide are outside the statement (compared with the model only)",
        "fresh-copy half is an aliasing property: checked by snapshot comparison on the real objects (extra_checks), "
        "not by a theorem (the functional model has no sharing)",
    ]
    not_modelled = ["Collection.from_module re-import (deepcopy + re-transform)", "object identity / aliasing of dicts",
                    "float / list configuration leaves"]

    # ---- cases -----------------------------------------------------------
    def _names(self, rng, spec):
        _, st = ns.build_and_dump(spec)
        names = set()
        if "ok" in st:
            res = ns.resolvable_names(st["ok"])
            names.update(res)
            for r in rng.sample(res, min(len(res), 4)):
                names.update(".".join(p) for p in itertools.product(*[ns.variants(s) for s in r.split(".")][:3]))
            names.add("")
        tw, cw = ns.vocabulary(spec)
        for _ in range(3):
            if tw:
                parts = [rng.choice(cw) for _ in range(rng.randint(0, 2)) if cw] + [rng.choice(tw)]
                names.add(".".join(parts))
        names.update(["nope", "sub.", ".x"][:rng.randint(0, 3)])
        return sorted(names), st

    def _split(self, spec, names, st):
        """names whose reference walk goes through a collection-valued default
        (region of F-C17b) are put in a case of their own"""
        if "ok" not in st:
            return [{"script": spec, "names": names[:3]}]
        a, b = [], []
        for nm in names:
            (b if walk_info(st["ok"], nm)[1] else a).append(nm)
        out = []
        for grp in (a, b):
            for i in range(0, len(grp), 14):
                out.append({"script": spec, "names": grp[i:i + 14]})
        return out

    def _reconfigure(self, rng, spec):
        """list-valued settings; configurations given in several configure() calls, one dict object
        handed to two sibling collections"""
        p_break = 0.04 if rng.random() < 0.12 else 0.0

        def walk(sp):
            if "module" in sp:
                return walk(sp["ns"])
            sp["config"] = gt.jsonable(ns.schema_config(rng, p_break=p_break, kinds="nbisl"))
            subs = [it["coll"] for it in sp["items"] if "coll" in it and "module" not in it["coll"]]
            for c in [it["coll"] for it in sp["items"] if "coll" in it]:
                walk(c)
            if len(subs) >= 2 and rng.random() < 0.5:
                base = gt.jsonable(ns.schema_config(rng, p_keep=0.3, kinds="nbisl"))
                if base:
                    for c in rng.sample(subs, 2):
                        try:
                            merged = ns.py_merge(base, c["config"])
                        except ValueError:
                            continue
                        c["config_parts"] = [base, c["config"]]
                        c["config"] = merged
        walk(spec)

    def _gen_hist(self, rng):
        """a build history: one module object whose explicit namespace carries configuration, mounted 2-3
        times into one root (add_collection(module) / add_collection(from_module(module, [config=]))), with
        configure() calls on the namespace, on single mounts and on the root, and reads, in between"""
        ids = ns.Ids()
        while True:
            nsp = ns.gen_coll(rng, rng.choice([1, 1, 2]), ids, name=rng.choice(["sphinxmod", "m", None]), clean=True)
            if any("task" in it for it in nsp["items"]):
                break

        def cfg(p=0.45):
            return gt.jsonable(ns.schema_config(rng, p_keep=p))
        nsp["config"] = cfg(0.6)
        binds = rng.sample(MOUNT_BINDS, rng.choice([2, 2, 3]))
        ops, mounted, has_default = [], [], False
        todo = list(binds)
        if rng.random() < 0.1:
            todo.append(binds[0])              # the same name mounted again: replaces the first mount
        while todo or rng.random() < 0.75:
            r = rng.random()
            if todo and (not mounted or r < 0.4):
                b = todo.pop(0)
                via = rng.choice(["add", "add", "fm", "fm_cfg"])
                dflt = (not has_default) and rng.random() < 0.15
                has_default = has_default or dflt
                ops.append(["mount", b, rng.choice([None, True, False]) if via != "add" else None,
                            cfg() if via == "fm_cfg" else None, dflt, via])
                mounted.append(b)
            elif r < 0.7 and mounted:
                ops.append(["conf", rng.choice(mounted), cfg()])
            elif r < 0.85:
                ops.append(["ns", cfg()])
            elif r < 0.93:
                ops.append(["root", cfg()])
            else:
                ops.append(["read"])
            if len(ops) > 12:
                break
        return {"module": rng.choice(ns.MOD_NAMES), "attr": rng.choice(["ns", "ns", "namespace"]),
                "root_name": rng.choice([None, "root"]), "ns": nsp, "ops": ops}

    def _hist_cases(self, rng, h):
        names, st = self._names(rng, flatten_hist(h)[0])
        form = rng.choice(["str", "pair", "ctx"])
        for c in self._split(None, names, st):
            c = dict(c, hist=h, req_form=form)
            del c["script"]
            yield c

    def generate(self, rng, tier, n):
        out = 0
        while out < n:
            if rng.random() < 0.2:
                h = self._gen_hist(rng)
                if not hist_ok(h):
                    continue
                for c in self._hist_cases(rng, h):
                    yield c
                    out += 1
                    if out >= n:
                        break
                continue
            ids = ns.Ids()
            clean = rng.random() < 0.85
            spec = ns.gen_coll(rng, rng.choice([2, 2, 3, 3]), ids, name=rng.choice([None, "root"]),
                               clean=clean, p_break=0.04 if rng.random() < 0.12 else 0.0,
                               share=0.0 if clean else 0.1)
            self._reconfigure(rng, spec)
            names, st = self._names(rng, spec)
            seed = rng.randrange(1 << 30) if rng.random() < 0.4 else None
            # (trees with colliding bindings are outside the statement: the command line and the
            #  lookup may then legitimately disagree on what an alias means -- C10 -- so no contexts there)
            form = rng.choice(["str", "pair", "ctx"]) if clean else rng.choice(["str", "pair"])
            for c in self._split(spec, names, st):
                if seed is not None:
                    c = dict(c, build_seed=seed)   # attach-then-populate order, queries in between
                yield dict(c, req_form=form)
                out += 1
                if out >= n:
                    break

    def enumerate_small(self, tier):
        cfgs = [{}, {"a": {"x": 1}}, {"a": {"y": 2}}, {"a": {"x": 3, "z": {"w": 1}}}, {"a": 1}, {"b": 2, "a": {"z": {"v": 2}}}]
        t1 = {"id": 1, "name": "t", "aliases": ["al"], "default": False}
        t2 = {"id": 2, "name": "u", "aliases": [], "default": False}
        sel = cfgs if tier == "thorough" else cfgs[:4]
        for c0, c1, c2 in itertools.product(sel, sel, sel):
            for dflt_task in (None, True):
                for dflt_sub in (False, True):
                    inner = {"name": "inner", "auto_dash": True, "config": c2,
                             "items": [{"task": t1, "bind": None, "aliases": [], "default": dflt_task}]}
                    sib = {"name": "sib", "auto_dash": True, "config": {"a": {"sib": 9}, "c": 1},
                           "items": [{"task": t2, "bind": None, "aliases": [], "default": None}]}
                    sub = {"name": "sub", "auto_dash": True, "config": c1,
                           "items": [{"coll": inner, "bind": None, "default": dflt_sub},
                                     {"coll": sib, "bind": None, "default": False}]}
                    root = {"name": None, "auto_dash": True, "config": c0,
                            "items": [{"coll": sub, "bind": None, "default": False},
                                      {"task": t2, "bind": "top", "aliases": [], "default": None}]}
                    names = ["sub.inner.t", "sub.inner.al", "sub.inner", "sub.sib.u", "top"]
                    yield {"script": root, "names": names}
                    if dflt_sub:
                        yield {"script": root, "names": ["sub"]}
        # build histories: module namespace (configured c0) mounted twice (second mount: add_collection(module),
        # from_module(module) or from_module(module, config=c1)), then ONE later configure() somewhere
        t1d = dict(t1, default=True)
        for c0, c1, c2 in itertools.product(sel, [None] + sel[1:3], sel[1:]):
            for late in (["conf", "docs", c2], ["conf", "www", c2], ["ns", c2], ["root", c2]):
                for early_ns in (False, True):
                    nsp = {"name": "m", "auto_dash": True, "config": c0,
                           "items": [{"task": t1d, "bind": None, "aliases": [], "default": None}]}
                    ops = [["mount", "docs", None, None, False, "add"]]
                    if early_ns:
                        ops.append(["ns", {"a": {"early": 5}}])
                    ops += [["mount", "www", None, c1, False, "fm_cfg" if c1 is not None else "add"], ["read"], late]
                    h = {"module": "mod", "attr": "ns", "root_name": None, "ns": nsp, "ops": ops}
                    if hist_ok(h):
                        yield {"hist": h, "names": ["docs.t", "docs.al", "docs", "www.t", "www"]}

    # ---- implementation ----------------------------------------------------
    def run_impl(self, case):
        self._seen = seen = []
        b = ns.Builder(build_seed=case.get("build_seed"), sigs=_NoArgs(), probe_names=case["names"], late_config=True,
                       on_call=lambda tid, ctx, a, k: seen.append([tid, gt.jsonable(gt.deep_view(ctx.config))]))

        def early_lookups(c):
            # every name is looked up once BEFORE the held-back configure() calls: lookup, then
            # configure() on a collection of the path, then the judged lookup below
            for nm in case["names"]:
                try:
                    c.configuration(nm)
                except Exception:  # noqa
                    pass
        if "hist" in case:
            b = ns.Builder(sigs=_NoArgs(), on_call=b.on_call)
            coll, st = self._run_hist(case, b)
        else:
            coll, st = ns.build_and_dump(case["script"], b, before_finish=early_lookups)
        obs = []
        if coll is not None:
            for nm in case["names"]:
                try:
                    t = coll[nm]
                    cfg = coll.configuration(nm)
                    obs.append({"ok": [ns.task_id(t), gt.jsonable(gt.deep_view(cfg))]})
                except RecursionError:
                    obs.append({"err": "RecursionError"})
                except Exception as e:  # noqa
                    obs.append({"err": type(e).__name__})
        out = {"state": st, "obs": obs, "body": self._body_views(case, coll, b, obs) if coll is not None else []}
        if "hist" in case:
            # the module's own namespace object, dumped AFTER every lookup and execution
            out["modns"] = ns.dump(self._modobj) if coll is not None else None
        return out

    def _run_hist(self, case, b):
        """replay a build history on real objects -> (root | None, {"ok": dump} | {"err": cls})"""
        import types
        from invoke import Collection
        h = copy.deepcopy(case["hist"])
        try:
            mod = types.ModuleType(h["module"])
            mod.__doc__ = "COLL"
            b._in_module += 1
            try:
                nsobj = b.coll(h["ns"])
            finally:
                b._in_module -= 1
            setattr(mod, h.get("attr", "ns"), nsobj)
            root = Collection(*([h["root_name"]] if h.get("root_name") else []))
            root.__doc__ = "COLL"
            for op in h["ops"]:
                if op[0] == "mount":
                    _, bind, ad, cfg, dflt, via = op
                    kw = {"name": bind}
                    if dflt:
                        kw["default"] = True
                    if via == "add":
                        root.add_collection(mod, **kw)          # -> Collection.from_module(mod)
                    else:
                        fkw = {} if cfg is None else {"config": gt.unjson(cfg)}
                        root.add_collection(Collection.from_module(mod, auto_dash_names=ad, **fkw), **kw)
                elif op[0] == "ns":
                    nsobj.configure(gt.unjson(op[1]))
                elif op[0] == "conf":
                    root.collections[op[1]].configure(gt.unjson(op[2]))
                elif op[0] == "root":
                    root.configure(gt.unjson(op[1]))
                elif op[0] == "read":
                    for nm in case["names"]:
                        try:
                            root.configuration(nm)
                        except Exception:  # noqa
                            pass
            self._modobj = nsobj
        except Exception as e:  # noqa
            return None, {"err": type(e).__name__}
        return root, {"ok": ns.dump(root)}

    def _body_views(self, case, coll, builder, lookups=()):
        """execute every name (as a string, a (name, kwargs) pair or a parsed context) with an otherwise
        empty Config and record what the task body sees as its context's config"""
        from invoke import Executor
        from invoke.parser import Parser
        seen = self._seen
        sess = cc.Session({"fs": [], "init": {"defaults": None, "overrides": None, "proj": None, "rt": None, "lazy": False}})
        out = []
        try:
            form = case.get("req_form", "str")
            parser = None
            if form == "ctx":
                try:
                    parser = Parser(contexts=coll.to_contexts())
                except Exception:  # noqa
                    parser = None
            for nm in case["names"]:
                req = nm
                if form == "pair":
                    req = (nm, {})
                elif parser is not None and nm:
                    try:
                        parsed = parser.parse_argv([nm])
                        if len(parsed) == 1:
                            req = parsed[0]
                    except Exception:  # not a command-line name: executed as a pair
                        req = (nm, {})
                # every other name is executed as the SECOND task of a two-task session of one Executor,
                # after a task of (preferably) another collection: what ran before must not matter
                first = None
                i = case["names"].index(nm)
                if i % 2 == 0 and "ok" in (lookups[i] if i < len(lookups) else {}):
                    mine = lookups[i]["ok"][0]
                    for j in list(range(i + 1, len(case["names"]))) + list(range(0, i)):
                        if "ok" in lookups[j] and lookups[j]["ok"][0] != mine and case["names"][j]:
                            first = case["names"][j]
                            break
                del seen[:]
                try:
                    if first is not None:
                        Executor(coll, config=sess.construct()).execute(first, req)
                        out.append({"ok": seen[1]} if len(seen) == 2 else {"err": "Bodies%d" % len(seen)})
                        continue
                    Executor(coll, config=sess.construct()).execute(req)
                    out.append({"ok": seen[0]} if len(seen) == 1 else {"err": "Bodies%d" % len(seen)})
                except RecursionError:
                    out.append({"err": "RecursionError"})
                except Exception as e:  # noqa
                    out.append({"err": type(e).__name__})
        finally:
            sess.close()
        return out

    def to_coq(self, case, obs):
        st = ct.result(obs["state"], ns.state)
        o = ct.lst([ct.result(x, lambda v: ct.pair(ct.n(v[0]), ct.tree(gt.unjson(v[1])))) for x in obs["obs"]])
        body = ct.lst([ct.result(x, lambda v: ct.pair(ct.n(v[0]), ct.tree(gt.unjson(v[1])))) for x in obs.get("body", [])])
        hist = nsscript = modns = "None"
        if "hist" in case:
            hist = "(Some %s)" % coq_hist(case["hist"])
            nsscript = "(Some %s)" % ns.sub(flatten_hist(case["hist"])[1])
            if obs.get("modns") is not None:
                modns = "(Some %s)" % ns.state(obs["modns"])
        return "(mk %s %s %s %s %s %s %s %s)" % (ns.sub(script_of(case)), ct.strs(case["names"]), st, o, body,
                                                 hist, nsscript, modns)

    def nontrivial(self, case, obs):
        if "ok" not in obs["state"]:
            return False
        d = obs["state"]["ok"]
        for nm, o in zip(case["names"], obs["obs"]):
            if "ok" in o:
                res, _, depth = walk_info(d, nm)
                if res and depth >= 1 and _shared_section(d, nm):
                    return True
        return False

    def classify(self, case, obs):
        if "err" in obs["state"]:
            return "build-err:" + obs["state"]["err"]
        d = obs["state"]["ok"]
        kinds = set()
        for nm, o in zip(case["names"], obs["obs"]):
            if "err" in o:
                kinds.add("err")
            else:
                res, dsub, depth = walk_info(d, nm)
                kinds.add("dsub" if dsub else "depth%d" % min(depth, 3))
        return ("hist:" if "hist" in case else "") + ("+".join(sorted(kinds)) or "no-names")

    _shrink_t0 = None

    def shrink_candidates(self, case):
        if self._shrink_t0 is None:
            self._shrink_t0 = time.time()
        if time.time() - self._shrink_t0 > 75:     # bounded shrinking wall time
            return
        names = case["names"]
        if len(names) > 1:
            for i in range(len(names)):
                yield dict(case, names=[names[i]])
        if "hist" in case:
            yield from self._shrink_hist(case)
            return
        for sp in ns.shrink_spec(case["script"]):
            yield dict(case, script=sp)

    def _shrink_hist(self, case):
        h = case["hist"]
        ops = h["ops"]

        def with_ops(o):
            h2 = dict(h, ops=o)
            return [dict(case, hist=h2)] if hist_ok(h2) else []
        for i in range(len(ops)):
            yield from with_ops(ops[:i] + ops[i + 1:])
        for i, op in enumerate(ops):
            if op[0] == "mount":
                if op[3] is not None:
                    yield from with_ops(ops[:i] + [[op[0], op[1], op[2], None, op[4], "fm"]] + ops[i + 1:])
                if op[5] != "add":
                    yield from with_ops(ops[:i] + [[op[0], op[1], None, None, op[4], "add"]] + ops[i + 1:])
            pos = {"ns": 1, "conf": 2, "root": 1}.get(op[0])
            if pos is not None:
                for sm in ns.shrink_spec({"config": op[pos], "items": []}):
                    o2 = list(op)
                    o2[pos] = sm["config"]
                    if o2[pos]:
                        yield from with_ops(ops[:i] + [o2] + ops[i + 1:])
        for sm in ns.shrink_spec(h["ns"]):
            if any("task" in it for it in sm.get("items", [])):
                h2 = dict(h, ns=sm)
                if hist_ok(h2):
                    yield dict(case, hist=h2)
        if h.get("attr") != "ns" or h.get("root_name"):
            yield dict(case, hist=dict(h, attr="ns", root_name=None))

    def mutate(self, case, rng):
        if "hist" in case:
            h = case["hist"]
            mounted = [op[1] for op in h["ops"] if op[0] == "mount"]
            # a later configure() on each mount / on the namespace, read under every name
            _, st = ns.build_and_dump(flatten_hist(h)[0])
            names = ns.resolvable_names(st["ok"])[:14] if "ok" in st else case["names"]
            for b in mounted:
                yield dict(case, names=names, hist=dict(h, ops=h["ops"] + [["conf", b, {"k": {"x": "late-" + b}}]]))
            yield dict(case, names=names, hist=dict(h, ops=h["ops"] + [["ns", {"k": {"y": "late-ns"}}]]))
            yield from itertools.islice(self._shrink_hist(case), 30)
            for nm in names:
                yield dict(case, names=[nm])
            return
        for sp in itertools.islice(ns.shrink_spec(case["script"]), 40):
            yield dict(case, script=sp)
        _, st = ns.build_and_dump(case["script"])
        if "ok" in st:
            for nm in ns.resolvable_names(st["ok"])[:30]:
                yield dict(case, names=[nm])

    # ---- fresh copy: aliasing, by snapshot on the real objects ------------
    def extra_checks(self, tier, seed):
        """Sessions of several lookups on one tree (different names incl. default
        shortcuts and configuration(None); one collection object mounted under
        two parents).  After every lookup the returned mapping is scribbled over
        and every collection's stored configuration plus a re-read of the same
        name are compared with snapshots."""
        rng = random.Random(seed + 17)
        n = 150 if tier == "quick" else 2500
        evals, failures, shallow = 0, [], []

        def all_colls(c, seen=None):
            seen = set() if seen is None else seen
            if id(c) in seen:
                return
            seen.add(id(c))
            yield c
            for s in dict.values(c.collections):
                yield from all_colls(s, seen)

        def scribble(d, rng):
            """overwrite everything reachable without going *inside* a list element"""
            for k in list(d):
                if isinstance(d[k], dict):
                    scribble(d[k], rng)
                    d[k]["__injected__"] = 1
                elif isinstance(d[k], list):
                    d[k].append("scribbled")      # list-valued settings are mutated in place
                else:
                    d[k] = "changed"
            d["__new__"] = {"q": 1}
            if d and rng.random() < 0.5:
                del d[next(iter(d))]

        def scribble_in_lists(d):
            """mutate the dicts that sit inside list-valued settings"""
            n = 0
            for v in d.values():
                if isinstance(v, dict):
                    n += scribble_in_lists(v)
                elif isinstance(v, list):
                    for x in v:
                        if isinstance(x, dict):
                            x["__injected__"] = 1
                            n += 1
            return n

        for _ in range(n):
            ids = ns.Ids()
            spec = ns.gen_coll(rng, rng.choice([2, 3]), ids, name=None, clean=True,
                               p_subdefault=0.5, p_default=0.8)
            self._reconfigure(rng, spec)
            coll, st = ns.build_and_dump(spec, ns.Builder(build_seed=rng.randrange(1 << 30)))
            if coll is None:
                continue
            colls = list(all_colls(coll))
            # list-valued settings, also with dicts inside the list
            for c in rng.sample(colls, min(2, len(colls))):
                try:
                    c.configure({"lst": [{"a": 1}, "x"], "sec": {"deeplist": ["p", "q"]}})
                except Exception:  # a deliberately type-inconsistent tree
                    pass
            if len(colls) > 2 and rng.random() < 0.5:
                # mount an existing sub-collection object under a second parent
                shared = rng.choice(colls[1:])
                below = set(id(c) for c in all_colls(shared))
                parents = [c for c in colls if id(c) not in below]   # no cycles
                try:
                    rng.choice(parents).add_collection(shared, name="shared")
                except ValueError:
                    pass
            st = {"ok": ns.dump(coll)}
            names = ns.resolvable_names(st["ok"]) + [None, None]
            session = [rng.choice(names) for _ in range(rng.randint(3, 7))]
            stored = [copy.deepcopy(c._configuration) for c in all_colls(coll)]
            bad = None
            for step, nm in enumerate(session):
                if step and rng.random() < 0.4:
                    # between two reads somebody configures a collection of the tree (a plugin adjusting
                    # its module's settings): every later read must show it
                    target = rng.choice(list(all_colls(coll)))
                    try:
                        target.configure(rng.choice([{"k": {"x": step}}, {"late_%d" % step: step},
                                                     {"sec": {"one": step, "n%d" % step: {"q": 1}}},
                                                     {"run": {"env": {"A": str(step)}}}]))
                    except Exception:  # the tree is (now) type-inconsistent there: documented error
                        pass
                    stored = [copy.deepcopy(c._configuration) for c in all_colls(coll)]
                try:
                    first = coll.configuration(nm)
                except Exception:  # lookups that fail are judged by the shard cases
                    continue
                evals += 1
                ref = copy.deepcopy(first)
                # each read is compared with a reference recomputed from the stored configurations as
                # they are NOW (outer wins, deep merge along the path), not with earlier reads
                want = _reference(coll, nm)
                if want is not None and want != ref:
                    bad = "configuration(%r) is not the merge of the configurations stored along its path" % (nm,)
                    break
                # known: list-valued settings are copied shallowly (F-C17c) -- checked apart, on a
                # throw-away read, and undone
                probe = coll.configuration(nm)
                if scribble_in_lists(probe) and [c._configuration for c in all_colls(coll)] != stored:
                    shallow.append({"case": {"script": spec, "names": [nm]}, "finding": "F-C17c",
                                    "what": "a dict inside a list-valued setting is shared with the stored configuration"})
                    for c in all_colls(coll):
                        _unscribble(c._configuration)
                scribble(first, rng)
                if [c._configuration for c in all_colls(coll)] != stored:
                    bad = "mutating the mapping returned by configuration(%r) changed a stored configuration" % (nm,)
                    break
                if coll.configuration(nm) != ref:
                    bad = "re-read of configuration(%r) differs after mutating the first result" % (nm,)
                    break
            if bad:
                failures.append({"case": {"script": spec, "names": session}, "what": bad})
                break
        failures = failures + shallow[:1]
        return [{"name": "fresh-copy-snapshot", "evaluations": evals, "failures": failures,
                 "note": "aliasing half of C17 (test, not theorem): sessions of 3-7 lookups per tree (names, aliases, "
                         "default shortcuts, None; a collection mounted under two parents; configure() calls on "
                         "collections of the tree between reads), every read compared with a reference recomputed "
                         "from the configurations stored at that moment, every returned mapping scribbled over, all "
                         "stored _configuration dicts and re-reads compared with snapshots"}]


def _reference(coll, name):
    """the deep merge, outer wins, of the configurations stored RIGHT NOW along the path of [name], read
    off the real objects with plain dict operations (no Collection method involved); None = this simple
    walk does not resolve the name or the configurations are type-inconsistent"""
    if name is None:
        return copy.deepcopy(coll._configuration)
    path = [coll]
    cur = coll
    segs = name.split(".") if name else []
    for _ in range(60):
        subs = dict(dict.items(cur.collections))
        if not segs:
            if cur.default is not None and cur.default in subs:
                cur = subs[cur.default]
                path.append(cur)
                continue
            if cur.default is None:
                return None
            break
        if len(segs) == 1 and segs[0] not in subs:
            known = set(dict.keys(cur.tasks)) | set(cur.tasks.aliases.keys())
            if segs[0] not in known:
                return None
            break
        if segs[0] not in subs:
            return None
        cur = subs[segs[0]]
        path.append(cur)
        segs = segs[1:]
    else:
        return None
    acc = {}
    try:
        for c in reversed(path):           # innermost first, every outer collection wins over it
            acc = ns.py_merge(acc, copy.deepcopy(c._configuration))
    except ValueError:
        return None
    return acc


def _unscribble(d):
    for v in d.values():
        if isinstance(v, dict):
            _unscribble(v)
        elif isinstance(v, list):
            for x in v:
                if isinstance(x, dict):
                    x.pop("__injected__", None)


def _shared_section(d, name):
    """>=2 collections on the walk of [name] configure the same top-level section"""
    segs = [] if name == "" else name.split(".")
    cur = d
    seen = []
    while True:
        seen.append(cur["config"])
        subs = dict((k, v) for k, v in cur["subs"])
        if not segs:
            dflt = cur["default"]
            if dflt in subs:
                cur = subs[dflt]
                continue
            break
        if segs[0] in subs:
            cur = subs[segs[0]]
            segs = segs[1:]
            continue
        break
    keys = [set(k for k, v in c.items() if isinstance(v, dict) and v) for c in seen]
    for i in range(len(keys)):
        for j in range(i + 1, len(keys)):
            if keys[i] & keys[j]:
                return True
    return False


class _NoArgs(dict):
    def get(self, k, default=None):
        return ""


PROP = C17()
