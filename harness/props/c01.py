"""C01: every spelling of an intended invocation parses to exactly that invocation."""
import itertools

from .. import coqterm as ct
from .. import parser_common as pc
from ..core import Prop

FORMS = {"bare": "FBare", "inv": "FInv", "rep": "FRep", "stack": "FStack", "next": "FNext",
         "eq": "FEq", "glued": "FGlued", "pos": "FPos"}


def oval(v):
    if "b" in v:
        return "(VB %s)" % ct.b(v["b"])
    if "n" in v:
        return "(VN %s)" % ct.n(v["n"])
    if "t" in v:
        return "VT"
    return "(VS %s)" % ct.s(v["s"])


def occ(o):
    return "(mkOcc %s %s %s %s)" % (ct.n(o["arg"]), ct.n(o["name"]), FORMS[o["form"]], oval(o["val"]))


def item(o):
    if "cluster" in o:
        return "(Cluster %s)" % ct.lst([occ(m) for m in o["cluster"]])
    return "(One %s)" % occ(o)


def invocation(inv):
    return ct.lst(["(mkCall %s %s %s)" % (ct.n(c["task"]), ct.s(c["as"]), ct.lst([item(o) for o in c["occs"]]))
                   for c in inv])


def pdefault(d):
    k = d["k"]
    if k == "empty":
        return "DEmpty"
    if k == "none":
        return "DNone"
    if k == "str":
        return "(DStr %s)" % ct.s(d["v"])
    if k == "int":
        return "(DInt %s)" % ct.z(d["v"])
    if k == "bool":
        return "(DBool %s)" % ct.b(d["v"])
    if k == "other":
        v = eval(d["src"])          # noqa: S307 -- one of pc.OTHER_DEFAULT_SRC
        return "(DOther %s %s)" % (ct.s(type(v).__name__), ct.s(repr(v)))
    return "(DList %s)" % ct.strs(d["v"])


def tsig(t):
    ps = ct.lst(["(mkParam %s %s)" % (ct.s(n), pdefault(d)) for n, d in t["params"]])
    pos = ct.opt(None if t.get("positional") is None else ct.strs(t["positional"]))
    return "(mkSig %s (mkDeco %s %s %s %s %s))" % (
        ps, pos, ct.strs(t.get("optional", [])), ct.strs(t.get("iterable", [])),
        ct.strs(t.get("incrementable", [])), ct.b(t.get("auto_shortflags", True)))


def sig_terms(sigs, specs):
    """(index of the real context, signature) for every task whose context can be located by
    its CLI name (underscores -> dashes, 'sub.' prefix for the sub-collection)"""
    out = []
    for t in sigs["tasks"]:
        cli = t["name"].replace("_", "-")
        if t.get("coll"):
            cli = t["coll"].replace("_", "-") + "." + cli
        for i, c in enumerate(specs):
            if c["name"] == cli:
                out.append(ct.pair(ct.n(i), tsig(t)))
                break
    return ct.lst(out)


def json_key(v):
    import json
    return json.dumps(v, sort_keys=True)


def flat(groups):
    return [t for g in groups for t in g]


class C01(Prop):
    id = "C01"
    corr_module = "Corr.C01Corr"
    preds = ("corr", "spec", "adm")
    quick_n = 4000
    thorough_n = 60000
    shard_size = 150
    rule = ("signature sets (1-4 tasks, 0-5 parameters: required, str/int/None/bool defaults, optional-value, "
            "iterable, counters, positional overrides, dashed/underscored names, auto short flags on/off, "
            "aliases, a sub-collection) built as real @task functions; intended invocations of 1-3 calls "
            "with per-occurrence spelling scripts (name used; spaced / '=' / glued value; --no- inverse; "
            "repeated or stacked counters; repeated list flags; positionals by position or by flag; any "
            "occurrence order; clusters of short booleans optionally ending in a value flag; task name or "
            "alias), values plain, dash-leading, containing '=', equal to task names; command line rendered "
            "by an independent Python spell and by Coq's [spell] (compared in the shard). "
            "non-trivial = >=2 occurrences or >=2 calls; distinct by (signature set, argv)")
    trusted_base = [
        "Coq 8.16.1 kernel + vm_compute",
        "hand-written models coq/Model/{ArgModel,CtxModel,ParserModel,CoreArgs}.v tied to invoke/parser/*.py "
        "by differential execution (this run; CoreArgs.v table checked by C07)",
        "coq/Spec/C01Spec.v: spell / expected / admissible (the reading of 'documented forms' and of the "
        "side condition) -- cross-checked against harness/parser_common.py's independent renderer",
        "harness/coqterm.py, harness/parser_common.py, harness/props/c01.py",
        "CPython 3.12 executing /repo",
    ]
    assumptions = [
        "ASCII tokens and names; int() restricted to [+-]?[0-9]+",
        "kinds str/int/bool/list in full, float/complex/bytes/date defaults through the oracle of "
        "parser_common.oracle_table (the kind itself is called on every substring of the command line); "
        "contexts as produced by Collection.to_contexts()",
        "the observation is Parser.parse_argv's result (names + as_kwargs); binding of kwargs to the task "
        "body is C09's subject, execution order C04's",
    ]
    not_modelled = ["kind callables other than str/int/bool/list/float/complex/bytes/date", "non-ASCII", "help= handling",
                    "Program.run end-to-end delivery to task bodies (Executor)"]

    def generate(self, rng, tier, n):
        produced = 0
        while produced < n:
            sigs = pc.gen_sigs(rng)
            specs = pc.ctx_specs(sigs)
            for _ in range(8):
                r = rng.random()
                if r > 0.7:
                    inv = pc.gen_wild_invocation(rng, specs)
                else:
                    inv = pc.gen_invocation(rng, specs, dash_values=r < 0.2)
                argv = flat(pc.spell_groups(specs, inv))
                if any(pc.has_digit_hazard(t) for t in argv):
                    continue
                yield {"sigs": sigs, "inv": inv, "argv": argv}
                produced += 1
                if produced >= n:
                    break

    def enumerate_small(self, tier):
        """all spelling scripts of a fixed two-argument invocation of one task, all orders"""
        sigs = {"tasks": [
            {"name": "t", "aliases": ["u"], "coll": None, "default": False,
             "params": [["name", {"k": "empty"}], ["num", {"k": "int", "v": 1}], ["yes", {"k": "bool", "v": True}],
                        ["flag", {"k": "bool", "v": False}], ["v", {"k": "int", "v": 0}]],
             "positional": None, "optional": [], "iterable": [], "incrementable": ["v"], "auto_shortflags": True},
            {"name": "w", "aliases": [], "coll": None, "default": False,
             "params": [["lst", {"k": "none"}], ["opt", {"k": "none"}]],
             "positional": [], "optional": ["opt"], "iterable": ["lst"], "incrementable": [], "auto_shortflags": True},
        ]}
        specs = pc.ctx_specs(sigs)
        t = specs[0]
        values = ["abc", "-x", "t", "a=b"] if tier == "thorough" else ["abc", "-x"]
        name_forms = [("pos", 0), ("next", 0), ("next", 1), ("eq", 0), ("eq", 1), ("glued", 1)]
        num_forms = [None, ("next", 0), ("eq", 1), ("glued", 1)]
        for as_name in (["t", "u"] if tier == "thorough" else ["t"]):
            for v in values:
                for nf, nk in name_forms:
                    for nm in num_forms:
                        for yes in (None, "inv", "bare"):
                            for cnt in (None, ("stack", 2), ("rep", 1)):
                                occs = [{"arg": 0, "name": nk, "form": nf, "val": {"s": v}}]
                                if nm:
                                    occs.append({"arg": 1, "name": nm[1], "form": nm[0], "val": {"s": "7"}})
                                if yes:
                                    occs.append({"arg": 2, "name": 0, "form": yes, "val": {"b": yes == "bare"}})
                                if cnt:
                                    occs.append({"arg": 4, "name": 0, "form": cnt[0],
                                                 "val": {"n": cnt[1]}})
                                perms = itertools.permutations(occs) if len(occs) <= 3 else [occs, occs[::-1]]
                                for perm in perms:
                                    inv = [{"task": 0, "as": as_name, "occs": list(perm)},
                                           {"task": 1, "as": "w", "occs": [
                                               {"arg": 0, "name": 0, "form": "next", "val": {"s": "a"}},
                                               {"arg": 0, "name": 1, "form": "glued", "val": {"s": "b"}}]}]
                                    yield {"sigs": sigs, "inv": inv, "argv": flat(pc.spell_groups(specs, inv))}

    def run_impl(self, case):
        return pc.run_parse(case["sigs"], case["argv"], "core", False)

    def to_coq(self, case, obs):
        specs = pc.ctx_specs(case["sigs"])
        return "(mk %s %s %s %s %s)" % (ct.lst([pc.ctxspec(c, case["argv"]) for c in specs]),
                                        sig_terms(case["sigs"], specs),
                                        invocation(case["inv"]), ct.strs(case["argv"]),
                                        ct.result(obs, pc.pobs))

    def nontrivial(self, case, obs):
        n = sum(len(list(pc.flat_occs(c["occs"]))) for c in case["inv"])
        return n >= 2 or len(case["inv"]) >= 2

    def classify(self, case, obs):
        forms = set()
        for c in case["inv"]:
            for o in c["occs"]:
                forms.add("cluster" if "cluster" in o else o["form"])
        tag = "err:" + obs["err"] if "err" in obs else "ok"
        return "%s:calls=%d:%s" % (tag, len(case["inv"]), "+".join(sorted(forms))[:40])

    def finding_of(self, case, obs):
        """clause-specific: F-C01a only if every kwarg that differs from the expectation is an
        unmentioned list-kind parameter with a non-empty declared default that arrived as [];
        F-C01b only if a glued value containing '=' is present and the line was torn (error or
        a different call sequence / different value of that very argument)."""
        specs = pc.ctx_specs(case["sigs"])
        exp = pc.expected_calls(specs, case["inv"])
        # F-C01c: a value given BY POSITION to a positional parameter that declares a default
        # (it is never "missing", so the word is not taken for it): the parse fails, or yields
        # another call sequence / other values for that call.
        posdef = [ci for ci, c in enumerate(case["inv"]) for o in c["occs"]
                  if "cluster" not in o and o["form"] == "pos"
                  and specs[c["task"]]["args"][o["arg"]]["default"] is not None]
        if posdef:
            if "err" in obs:
                return "F-C01c" if obs["err"] == "ParseError" else None
            got = obs["ok"]["ctxs"][1:]
            if len(got) != len(exp) or [g[0] for g in got] != [e[0] for e in exp]:
                return "F-C01c"
            diff = [ci for ci, (g, e) in enumerate(zip(got, exp))
                    if sorted((k, json_key(v)) for k, v in g[1]) != sorted((k, json_key(v)) for k, v in e[1])]
            if diff and set(diff) <= set(posdef):
                return "F-C01c"
        glued_eq = [(ci, o["arg"]) for ci, c in enumerate(case["inv"]) for o in pc.flat_occs(c["occs"])
                    if o["form"] == "glued" and "=" in o["val"].get("s", "")]
        if "err" in obs:
            return "F-C01b" if glued_eq and obs["err"] == "ParseError" else None
        got = obs["ok"]["ctxs"][1:]
        if len(got) != len(exp) or [g[0] for g in got] != [e[0] for e in exp]:
            return "F-C01b" if glued_eq else None
        only_list_defaults = True
        any_diff = False
        for ci, (g, e) in enumerate(zip(got, exp)):
            spec = specs[case["inv"][ci]["task"]]
            mentioned = {o["arg"] for o in pc.flat_occs(case["inv"][ci]["occs"])}
            gd, ed = dict((k, json_key(v)) for k, v in g[1]), dict((k, json_key(v)) for k, v in e[1])
            for i, a in enumerate(spec["args"]):
                nm = a["attr_name"] or a["names"][0]
                if gd.get(nm) != ed.get(nm):
                    any_diff = True
                    is_a = (a["kind"] == "KList" and a["default"] not in ([], None) and i not in mentioned
                            and not a["incrementable"] and gd.get(nm) == json_key({"list": []}))
                    if not is_a:
                        only_list_defaults = False
        if any_diff and only_list_defaults:
            return "F-C01a"
        if glued_eq:
            return "F-C01b"
        return None

    def extra_checks(self, tier, seed):
        """kwargs actually RECEIVED by the task bodies through the real Program.run (a test):
        recording bodies, task-runner mode, --no-dedupe so that repeated identical calls all run."""
        import random
        rng = random.Random(seed + 101)
        n = 150 if tier == "quick" else 2000
        failures, evaluations = [], 0
        for _ in range(n):
            sigs = pc.gen_sigs(rng)
            specs = pc.ctx_specs(sigs)
            inv = pc.gen_invocation(rng, specs, dash_values=rng.random() < 0.2)
            argv = flat(pc.spell_groups(specs, inv))
            case = {"sigs": sigs, "inv": inv, "argv": argv}
            if any(pn == "self" for t in sigs["tasks"] for pn, _ in t["params"]):
                continue      # a parameter named 'self' cannot be delivered at all: F-C09e (C09's finding)
            parse_obs = pc.run_parse(sigs, argv, "core", False, purity=False)
            if "err" in parse_obs:
                continue                      # judged by the shard cases (F-C01b etc.)
            r = pc.run_effects(sigs, ["--no-dedupe"] + argv)
            evaluations += 1
            want = [[nm, sorted(kw, key=lambda x: x[0])] for nm, kw in parse_obs["ok"]["ctxs"][1:]]
            got = [[c[0], sorted(c[1], key=lambda x: x[0])] for c in r["calls"]]
            if r["exc"] is not None or got != want:
                failures.append({"case": case, "what": "task bodies received %r (exc %r) but parse_argv "
                                 "returned %r" % (got, r["exc"], want)})
                break
        return [{"name": "bodies", "evaluations": evaluations, "failures": failures,
                 "note": "Program.run(['--no-dedupe'] + argv) with recording task bodies: the kwargs each body "
                         "receives equal the as_kwargs of the parsed contexts (which the shard cases compare "
                         "with the expected invocation)"}]

    def shrink_candidates(self, case):
        inv = case["inv"]
        specs = pc.ctx_specs(case["sigs"])

        def mk(inv2):
            return {"sigs": case["sigs"], "inv": inv2, "argv": flat(pc.spell_groups(specs, inv2))}
        for i in range(len(inv)):
            if len(inv) > 1:
                yield mk(inv[:i] + inv[i + 1:])
        for i, c in enumerate(inv):
            for k in range(len(c["occs"])):
                c2 = dict(c, occs=c["occs"][:k] + c["occs"][k + 1:])
                yield mk(inv[:i] + [c2] + inv[i + 1:])
            for k, o in enumerate(c["occs"]):
                if "cluster" in o:
                    c2 = dict(c, occs=c["occs"][:k] + list(o["cluster"]) + c["occs"][k + 1:])
                    yield mk(inv[:i] + [c2] + inv[i + 1:])

    def mutate(self, case, rng):
        specs = pc.ctx_specs(case["sigs"])
        for _ in range(40):
            inv = pc.gen_invocation(rng, specs, dash_values=rng.random() < 0.3)
            yield {"sigs": case["sigs"], "inv": inv, "argv": flat(pc.spell_groups(specs, inv))}


PROP = C01()
