"""C13: input-stream text reaches the command complete, in order, then EOF."""
import io
import itertools
import os
import sys

from .. import coqterm as ct
from .. import core
from .. import runner_common as rc
from ..core import Prop
from .c02 import ENC, nl, text, cut_inside_sequence

CHARS = ["a", "b", "\n", "é", "ß", "€", "\U0001F600", "\x00", "\x7f", "ÿ", "Ā",
         "\r", "\t", "\x04", "\x03", "\x1b"]      # control characters travel unchanged: CR, TAB, ^D, ^C, ESC


def unit_coq(u):
    return nl(u) if not isinstance(u, str) else text(u)


def script_of(case):
    """Coq [list sread] from the ordered event list (what harness/runner_common.py
    lets the stdin worker see: input events up to the exit event, the burst
    directly after it, nothing later)."""
    out = []
    evs = case["events"]
    i = 0
    while i < len(evs):
        ev = evs[i]
        if ev[0] == "in":
            out.append("SData " + unit_coq(ev[1]))
        elif ev[0] == "in_eof":
            out.append("SEof")
        elif ev[0] == "exit":
            out.append("SFinish")
            j = i + 1
            while j < len(evs) and evs[j][0] in ("in", "in_eof"):
                out.append("SData " + unit_coq(evs[j][1]) if evs[j][0] == "in" else "SEof")
                j += 1
            break
        i += 1
    return "[" + "; ".join(out) + "]"


def opt_bytes(b):
    return "None" if b is None else "(Some %s)" % nl(b)


class _Enc:
    id = "C13"
    corr_module = "Corr.C13Corr"
    case_type = "ecase"
    preds = ("ecorr",)
    shard_size = 1500


class C13(Prop):
    id = "C13"
    corr_module = "Corr.C13Corr"
    quick_n = 1000
    thorough_n = 15000
    shard_size = 250
    rule = ("scripted runs of the real Runner with a scripted input stream: text-mode (str units) or byte-mode "
            "(bytes units, one read each) streams, texts over ASCII / 2-4-byte characters / NUL, empty input, "
            "availability patterns (units delivered before the command finishes, units already available when "
            "it finishes, EOF before / after exit, no EOF), echo_stdin in {None,True,False} x isatty x pty, "
            "in_stream=False with an always-answering watcher, encodings utf-8/latin-1/ascii.  Non-trivial = at "
            "least one input unit or a watcher response; distinct by the whole case")
    trusted_base = [
        "Coq 8.16.1 kernel + vm_compute (shard evaluation, refutation witnesses)",
        "hand-written model coq/Model/StdinModel.v (+ Utf8Model.v, encode in Common/ByteText.v) tied to "
        "invoke/runners.py (handle_stdin, read_our_stdin, write_proc_stdin, should_echo_stdin, respond, "
        "create_io_threads) by differential execution through harness/runner_common.py ScriptedRunner",
        "encoder model validated against CPython str.encode (this run)",
        "harness/runner_common.py (scripted input stream, readiness shim), harness/props/c13.py, harness/coqterm.py",
        "CPython 3.12 executing VERIF_REPO; Linux pipe semantics for the real-child runs",
    ]
    assumptions = [
        "OS contract: select()/FIONREAD readiness and the pipe to the child are assumed (ready_for_reading is "
        "answered by the script; bytes_to_read is 1 for the scripted streams); closing the write end gives the "
        "child EOF after it drained the pipe",
        "after the command has finished, input that is not already available is not waited for (by design of the "
        "code and of the spec: 'deliverable')",
        "texts are encodable in the effective encoding (otherwise out of scope: the worker dies with "
        "UnicodeEncodeError and run() raises ThreadException)",
    ]
    not_modelled = [
        "real terminals: FIONREAD multi-byte reads, cbreak switching (C08 measures termios), EBADF under nohup",
        "scheduler preemption inside a Python statement; the interleaving of stdin-worker writes with watcher "
        "responses on the child's stdin (observed per writer)",
        "Local._write_proc_stdin / close_proc_stdin (os.write, broken-pipe tolerance) -- real-child runs only",
        "input_sleep pacing (delivery latency is not part of the statement)",
    ]

    # ------------------------------------------------------------------ cases
    def _case(self, rng):
        enc = rng.choice(["utf-8"] * 6 + ["latin-1", "latin-1", "ascii"])
        r = rng.random()
        if r < 0.12:
            stream = None
        else:
            stream = {"mode": "bytes" if rng.random() < 0.35 else "text", "tty": rng.random() < 0.4}
        pool = CHARS if enc == "utf-8" else (["a", "b", "\n", "é", "ÿ", "\x00", "\r", "\x04"] if enc == "latin-1"
                                             else ["a", "b", "\n", "\x00", "\x7f", "\r", "\t", "\x03", "\x1b"])
        n = rng.choice([0, 0, 1, 2, 3, 4, 6])
        s = "".join(rng.choice(pool) for _ in range(n))
        units = []
        if stream:
            if stream["mode"] == "text":
                units = [c for c in s]
                if rng.random() < 0.15 and len(units) >= 2:          # a multi-character read (tty-like)
                    k = rng.randrange(len(units) - 1)
                    units[k:k + 2] = [units[k] + units[k + 1]]
            else:
                bs = s.encode(enc)
                if rng.random() < 0.2:
                    bs += bytes([rng.choice([0x80, 0xff, 0xc3])]) if enc == "utf-8" else b""
                units = [[b] for b in bs]
                if rng.random() < 0.3 and len(units) >= 2:           # whole characters per read (tty-like)
                    units = [list(c.encode(enc)) for c in s]
        evs = [["in", u] for u in units]
        eof = rng.random() < 0.6
        if stream and eof:
            evs.append(["in_eof"])
        # where the command finishes relative to the input
        pos = rng.randrange(len(evs) + 1)
        evs.insert(pos, ["exit", rng.choice([0, 0, 1])])
        respond = None
        nout = 0
        if rng.random() < (0.7 if stream is None else 0.15):
            respond = rng.choice(["y\n", "é", "ok"]) if enc == "utf-8" else "y\n"
            nout = rng.randint(1, 3)
        # stdout reads (for the watcher) before the exit event only, so their order relative to the
        # input burst after the exit event stays deterministic
        xi = next(i for i, e in enumerate(evs) if e[0] == "exit")
        for _ in range(nout):
            evs.insert(rng.randrange(xi + 1), ["out", [65 + rng.randrange(3)]])
            xi += 1
        if respond and stream:
            # responses are written to the same pipe: keep them before the input's EOF (a response after the
            # close is the defect F-C12d, witnessed separately)
            eofs = [e for e in evs if e[0] == "in_eof"]
            if eofs:
                evs = [e for e in evs if e[0] != "in_eof"]
                xi2 = next(i for i, e in enumerate(evs) if e[0] == "exit")
                if all(e[0] == "in" for e in evs[xi2 + 1:]):
                    evs.append(eofs[0])          # EOF after every input unit and (outs precede the exit) every response
        case = {"events": evs, "enc": enc, "in": stream, "pty": rng.random() < 0.25,
                "hide": "both" if nout else rng.choice(["both", "both", "none", "stdout", "stderr"]),
                "respond": respond, "warn": rng.random() < 0.7, "async": rng.random() < 0.2,
                # where "the output stream" is: an explicit out_stream object, or sys.stdout
                # (an explicit object is never hidden, so only without stdout reads for the watcher)
                "out_given": nout == 0 and rng.random() < 0.5,
                "enc_from": rng.choice(["kwarg", "kwarg", "config"])}
        e = rng.choice(["none", "none", "true", "false"])
        if e != "none":
            case["echo_stdin"] = (e == "true")
            case["echo_from"] = rng.choice(["kwarg", "kwarg", "config"])
        return case

    phases = None

    def setup(self, tier, seed):
        self.phases = rc.Phases()
        self.phases.mark("proof build (incl. waiting for the shared build lock)")

    def generate(self, rng, tier, n):
        if self.phases:
            self.phases.mark("scripted cases + shards")
        for _ in range(n):
            yield self._case(rng)

    def enumerate_small(self, tier):
        """every position of the exit event x EOF or not x pty x echo x mode, for 3 fixed texts"""
        for s, mode in (("ab", "text"), ("é", "bytes"), ("aé", "text"), ("", "text")):
            units = [c for c in s] if mode == "text" else [[b] for b in s.encode()]
            for eof in (False, True):
                base = [["in", u] for u in units] + ([["in_eof"]] if eof else [])
                for pos in range(len(base) + 1):
                    for pty in (False, True):
                        for echo in (None, True, False):
                            for tty in (False, True):
                                evs = list(base)
                                evs.insert(pos, ["exit", 0])
                                c = {"events": evs, "enc": "utf-8", "in": {"mode": mode, "tty": tty}, "pty": pty,
                                     "hide": "both", "respond": None, "warn": True}
                                if echo is not None:
                                    c["echo_stdin"] = echo
                                yield c

    # ------------------------------------------------------------------ impl
    def run_impl(self, case):
        o = rc.run_scripted(dict(case))
        died = "UnicodeEncodeError" in (o.get("thread_excs") or [])
        w = o["stdin_writes"]
        log = o["stdin_log"]
        first_close = log.index("c") if "c" in log else len(log)
        return {
            "close_last": "w:in" not in log[first_close:],
            "silent": o["out_other"] == "",
            "done": not o["hang"], "hang": o["hang"], "hang_what": o.get("hang_what"), "outcome": o["outcome"],
            "received": None if died else [b for chunk in w["in"] for b in chunk],
            "closes": o["stdin_closes"],
            "echo": o["out_stream"],
            "terminated": "handle_stdin" not in o["alive_after"] and not o["hang"],
            "responses": [b for chunk in w["out"] + w["err"] for b in chunk],
            "thread_excs": o.get("thread_excs"),
        }

    def responses_of(self, case):
        if not case.get("respond"):
            return []
        n = 0
        for ev in case["events"]:
            if ev[0] in ("out", "err"):
                if not ev[1]:
                    break
                n += 1
        return [case["respond"]] * n

    def to_coq(self, case, obs):
        st = case.get("in")
        stream = "None" if not st else "(Some (%s, %s))" % ("MBytes" if st["mode"] == "bytes" else "MText",
                                                            ct.b(bool(st.get("tty"))))
        echo = "None" if "echo_stdin" not in case else "(Some %s)" % ct.b(case["echo_stdin"])
        i = "(mkSin %s %s %s %s %s %s)" % (
            ENC[case["enc"]], stream, echo, ct.b(case["pty"]), script_of(case),
            "[" + ";".join(text(r) for r in self.responses_of(case)) + "]")
        o = "(mkSobs %s %s %s %s %s)" % (
            opt_bytes(obs["received"]), ct.n(obs["closes"]), text(obs["echo"]), ct.b(obs["terminated"]),
            opt_bytes(obs["responses"]))
        return "(mk %s %s %s %s %s)" % (i, ct.b(obs["done"]), ct.b(obs.get("close_last", True)),
                                        ct.b(obs.get("silent", True)), o)

    def nontrivial(self, case, obs):
        return any(e[0] == "in" for e in case["events"]) or bool(self.responses_of(case))

    def classify(self, case, obs):
        st = case.get("in")
        return "%s %s%s%s" % (case["enc"], "no-stream" if not st else st["mode"] + ("-tty" if st["tty"] else ""),
                              " pty" if case["pty"] else "", " respond" if case.get("respond") else "")

    def delivered_units(self, case):
        """units the worker gets to read (mirror of script_of / Spec.deliverable)"""
        res, evs = [], case["events"]
        for i, ev in enumerate(evs):
            if ev[0] == "in":
                res.append(ev[1])
            elif ev[0] == "exit":
                j = i + 1
                while j < len(evs) and evs[j][0] in ("in", "in_eof"):
                    if evs[j][0] == "in":
                        res.append(evs[j][1])
                    else:
                        break
                    j += 1
                break
        return res

    def finding_of(self, case, obs):
        st = case.get("in")
        if not st or st["mode"] != "bytes" or case["enc"] != "utf-8" or not obs["done"]:
            return None
        units = [bytes(u) for u in self.delivered_units(case)]
        # a read boundary inside a multi-byte character (every read decoded on its own)
        if cut_inside_sequence(units + [b""]):
            return "F-C13"
        return None

    _budget = rc.ShrinkBudget(45.0)

    def shrink_candidates(self, case):
        if not self._budget.ok():
            return
        evs = case["events"]
        for i in range(len(evs)):
            if evs[i][0] != "exit":
                yield dict(case, events=evs[:i] + evs[i + 1:])
        for i in range(len(evs)):
            if evs[i][0] == "exit":
                for j in (0, len(evs) - 1):
                    if j != i:
                        e2 = evs[:i] + evs[i + 1:]
                        e2.insert(j, evs[i])
                        yield dict(case, events=e2)
        if case.get("respond"):
            yield dict(case, respond=None)
        for k in ("async", "out_given"):
            if case.get(k):
                yield dict(case, **{k: False})
        if case["pty"]:
            yield dict(case, pty=False)
        if "echo_stdin" in case:
            c = dict(case)
            del c["echo_stdin"]
            yield c
        if case.get("in") and case["in"].get("tty"):
            yield dict(case, **{"in": dict(case["in"], tty=False)})

    def mutate(self, case, rng):
        for _ in range(40):
            yield self._case(rng)

    # ------------------------------------------------------------------ extra
    def extra_checks(self, tier, seed):
        if self.phases:
            self.phases.mark("extra checks")
        res = [self._encoder_validation(tier, seed), self._real_children(tier, seed)]
        if self.phases:
            self.phases.mark("end")
            res.append(self.phases.entry())
        return res

    def _encoder_validation(self, tier, seed):
        import random
        rng = random.Random(seed + 13)
        cps = [0, 0x41, 0x7f, 0x80, 0xff, 0x100, 0x7ff, 0x800, 0xd7ff, 0xd800, 0xdbff, 0xdfff, 0xe000,
               0xfffd, 0xffff, 0x10000, 0x10ffff]
        items = []
        for e in ENC:
            for c in cps:
                items.append((e, chr(c)))
            for a, b in itertools.product(cps, repeat=2):
                items.append((e, chr(a) + chr(b)))
        for _ in range(2000 if tier == "quick" else 30000):
            k = rng.randint(1, 12)
            s = "".join(chr(rng.choice(cps) if rng.random() < 0.5 else rng.randrange(0x110000)) for _ in range(k))
            items.append((rng.choice(list(ENC)), s))

        def enc(e, s):
            try:
                return list(s.encode(e))
            except UnicodeEncodeError:
                return None
        terms = ["(mke %s %s %s)" % (ENC[e], text(s), opt_bytes(enc(e, s))) for e, s in items]
        res = core.eval_shards(_Enc, terms, "enc")
        fails = [{"case": {"enc": e, "text": [ord(c) for c in s]}, "what": "encode model disagrees with str.encode"}
                 for (e, s), r in zip(items, res) if not r["ecorr"]]
        return {"name": "encoder-validation", "evaluations": len(items), "failures": fails[:5],
                "note": "Common/ByteText.encode vs CPython str.encode (strict) on boundary code points (incl. "
                        "surrogates, U+10FFFF), all pairs of them, and random strings, x 3 encodings"}

    def _real_children(self, tier, seed):
        fails, evals = [], 0
        budget = rc.ExtraBudget(tier, 30.0)
        for c in real_cases(tier):
            if c.get("optional") and not budget.allow(c["kind"]):
                continue
            evals += 1
            f = real_case(c)
            if f:
                fails.append(f)
        return {"name": "real-children", "evaluations": evals, "failures": fails,
                "note": budget.note() + "(inputs are short: the worker forwards one read per input_sleep = 10 ms, and keeps "
                        "pumping a non-terminal stream until it is exhausted even after the child exited) "
                        "real cat / wc -c / head -c children fed from StringIO / BytesIO input streams through "
                        "Local (no pty: EOF must reach the child, which then terminates; broken pipe tolerated), "
                        "in_stream=False with a Responder, head -n1 under a pty"}


def real_cases(tier):
    """required cases first (one representative of every class), then the optional ones: reproductions of
    known findings and the slow inputs (the worker forwards one read per 10 ms), dropped when the quick
    tier's time budget for extra checks is used up"""
    quick = tier == "quick"
    cs = []
    for t in ["", "x", "hello\n", "héllo wörld €\n" * 3]:
        cs.append({"kind": "cat", "text": t, "mode": "text"})
    cs.append({"kind": "wc", "text": "héllo\n" * (15 if quick else 40), "mode": "text"})
    cs.append({"kind": "head", "text": "0123456789" * 10, "mode": "text"})
    cs.append({"kind": "cat", "text": "plain ascii bytes\n", "mode": "bytes"})
    cs.append({"kind": "respond"})
    cs.append({"kind": "respond-no-newline"})            # a response without a line end must still arrive
    cs.append({"kind": "open-pipe", "buffered": False})  # input not at EOF, no line end: delivered, not held back
    cs.append({"kind": "pipe-eof", "buffered": False})   # `echo hi | ...` shape: data then EOF on a real pipe
    cs.append({"kind": "pipe-eof", "buffered": True})
    cs.append({"kind": "idle-pipe"})                     # pipe held open, nothing fed, command exits at once
    cs.append({"kind": "async-cat"})                     # asynchronous=True with an explicit in_stream
    cs.append({"kind": "default-stdin"})                 # in_stream not given: the interpreter's piped sys.stdin
    cs.append({"kind": "pty-head", "text": "abc\n"})
    # optional
    cs.append({"kind": "respond-after-eof", "optional": True})                     # F-C12d (shared with C12)
    cs.append({"kind": "bom", "optional": True})                                   # F-C13c
    cs.append({"kind": "cat", "text": "héllo", "mode": "bytes", "optional": True})  # F-C13 on the real runner
    cs.append({"kind": "open-pipe", "buffered": True, "optional": True})           # F-C13b
    cs.append({"kind": "cat", "text": "\U0001F600\n" * 20, "mode": "text", "optional": True})
    cs.append({"kind": "cat", "text": "z" * 120 + "\n", "mode": "text", "optional": True})
    if not quick:
        cs.append({"kind": "tty-multibyte", "optional": True})                     # F-C13d (about 5 s)
        cs.append({"kind": "cat", "text": "0123456789abcdef" * 25 + "\n", "mode": "text"})   # > 300 bytes (4 s)
        cs.append({"kind": "cat", "text": "z" * 300 + "\n", "mode": "text"})
        cs = cs * 3
    return cs


def real_case(c):
    from invoke.watchers import Responder
    kind = c["kind"]
    kw = dict(hide=True, encoding="utf-8")
    if kind in ("cat", "wc", "head"):
        t = c["text"]
        kw["in_stream"] = io.StringIO(t) if c["mode"] == "text" else io.BytesIO(t.encode())
        cmd = {"cat": "cat", "wc": "wc -c", "head": "head -c 5"}[kind]
    elif kind == "respond":
        kw["in_stream"] = False
        kw["watchers"] = [Responder(pattern=r"Q\?", response="yes\n")]
        cmd = [sys.executable, "-u", "-c", "print('Q?'); x=input(); print('got', x)"]
    elif kind == "bom":
        import tempfile
        fd, path = tempfile.mkstemp(prefix="c13-bom-", dir=core.BUILD)
        os.close(fd)
        r = rc.run_real("cat > %s" % path, hide=True, in_stream=io.StringIO("ab"), encoding="utf-16", bound=20)
        got = open(path, "rb").read()
        os.unlink(path)
        if r["hang"] or r["outcome"] != "Result":
            return {"case": c, "what": "outcome %s" % r["outcome"]}
        if got == "ab".encode("utf-16"):
            return None
        if got == "a".encode("utf-16") + "b".encode("utf-16"):
            return {"case": c, "finding": "F-C13c",
                    "what": "in_stream=StringIO('ab'), encoding='utf-16': the child received %s (a BOM per read)"
                            % got.hex(" ")}
        return {"case": c, "what": {"got": got.hex(" "), "want": "ab".encode("utf-16").hex(" ")}}
    elif kind == "tty-multibyte":
        return tty_multibyte_case(c)
    elif kind == "pipe-eof":
        rfd, wfd = os.pipe()
        os.write(wfd, b"hi\n")
        os.close(wfd)
        kw["in_stream"] = os.fdopen(rfd, "r") if c["buffered"] else os.fdopen(rfd, "rb", 0)
        cmd = "cat"
    elif kind == "idle-pipe":
        rfd, wfd = os.pipe()
        kw["in_stream"] = os.fdopen(rfd, "rb", 0)
        cmd = "true"
    elif kind == "async-cat":
        kw["in_stream"] = io.StringIO("abc\n")
        kw["asynchronous"] = True
        cmd = "cat"
    elif kind == "default-stdin":
        import subprocess
        prog = ("import sys; sys.path.insert(0, %r)\nfrom invoke import Context\n"
                "r = Context().run('cat', hide=True)\nprint('GOT', repr(r.stdout))" % core.REPO)
        try:
            p = subprocess.run([sys.executable, "-c", prog], input=b"hi there\n", capture_output=True, timeout=30)
        except subprocess.TimeoutExpired:
            return {"case": c, "what": "interpreter with piped stdin did not finish within 30 s"}
        ok = b"GOT 'hi there\\n'" in p.stdout
        return None if ok else {"case": c, "what": {"stdout": p.stdout[-200:].decode("utf-8", "replace"),
                                                    "stderr": p.stderr[-300:].decode("utf-8", "replace")}}
    elif kind == "respond-after-eof":
        # the input stream is exhausted at once (child stdin closed); the watcher answers a later prompt
        kw["in_stream"] = io.StringIO("")
        kw["watchers"] = [Responder(pattern=r"Q\?", response="yes\n")]
        cmd = [sys.executable, "-u", "-c",
               "import sys,time; time.sleep(0.6); print('Q?'); x=sys.stdin.readline(); print('got', repr(x))"]
    elif kind == "respond-no-newline":
        kw["in_stream"] = False
        kw["watchers"] = [Responder(pattern=r"Q\?", response="yes")]
        cmd = [sys.executable, "-u", "-c", "import sys; print('Q?'); x=sys.stdin.read(3); print('got', x)"]
    elif kind == "open-pipe":
        rfd, wfd = os.pipe()
        os.write(wfd, b"abc")                     # write end stays open: no EOF on the input stream
        kw["in_stream"] = os.fdopen(rfd, "r") if c["buffered"] else os.fdopen(rfd, "rb", 0)
        cmd = "head -c 1; head -c 2"         # prints the first character as soon as it arrives
    elif kind == "pty-head":
        kw["in_stream"] = io.StringIO(c["text"])
        kw["pty"] = True
        cmd = "head -n1"
    r = rc.run_real(cmd, bound=(3.0 if c.get("buffered") else 12.0) if kind in ("respond-no-newline", "open-pipe")
                    else 12.0 if kind in ("pipe-eof", "idle-pipe", "async-cat") else 30.0, **kw)
    if kind in ("pipe-eof", "idle-pipe"):
        if kind == "idle-pipe":
            os.close(wfd)
        try:
            kw["in_stream"].close()
        except OSError:
            pass
    if kind == "open-pipe":
        os.close(wfd)
        try:
            kw["in_stream"].close()
        except OSError:
            pass
    case = {k: (v if len(str(v)) < 60 else str(v)[:60] + "...") for k, v in c.items()}
    if r["hang"] and kind == "open-pipe" and c["buffered"] and (r["stdout"] or "") == "a":
        return {"case": case, "finding": "F-C13b",
                "what": "3 characters available on a buffered text input stream over an open pipe: only the first "
                        "read is forwarded, the rest sits in the TextIOWrapper buffer while select() reports the "
                        "descriptor not ready; head -c 3 never completes"}
    if kind == "respond-after-eof":
        if r["outcome"] == "Result":
            return None
        if r["outcome"] == "ThreadException" and "ValueError" in (r.get("thread_excs") or []):
            return {"case": case, "finding": "F-C12d",
                    "what": "input at EOF closed the child's stdin; the watcher's later response raised ValueError "
                            "(closed file) in the stdout worker: ThreadException"}
        return {"case": case, "what": "outcome %s %s" % (r["outcome"], r.get("thread_excs"))}
    if r["hang"]:
        return {"case": case, "what": "run() did not end in time (child never got its input / EOF?): %s" % r["hang_what"]}
    if r["outcome"] != "Result":
        return {"case": case, "what": "unexpected outcome %s" % r["outcome"]}
    out = r["stdout"]
    if kind == "cat":
        if out == c["text"]:
            return None
        if c["mode"] == "bytes":
            per_byte = "".join(bytes([b]).decode("utf-8", "replace") for b in c["text"].encode())
            if out == per_byte:
                return {"case": case, "finding": "F-C13",
                        "what": "byte-mode input stream: multi-byte character forwarded as U+FFFD per byte"}
        return {"case": case, "what": {"want": c["text"][:80], "got": out[:80], "got_len": len(out)}}
    if kind == "wc":
        want = str(len(c["text"].encode()))
        return None if out.strip() == want else {"case": case, "what": {"want": want, "got": out.strip()}}
    if kind == "head":
        return None if out == c["text"][:5] else {"case": case, "what": {"want": c["text"][:5], "got": out[:40]}}
    if kind == "pipe-eof":
        return None if out == "hi\n" else {"case": case, "what": {"want": "hi\n", "got": out}}
    if kind == "idle-pipe":
        return None if r["elapsed"] < 8 else {"case": case, "what": "took %.1fs" % r["elapsed"]}
    if kind == "async-cat":
        return None if out == "abc\n" else {"case": case, "what": {"want": "abc\n", "got": out}}
    if kind in ("respond", "respond-no-newline"):
        return None if "got yes" in out else {"case": case, "what": {"got": out}}
    if kind == "open-pipe":
        return None if out == "abc" else {"case": case, "what": {"want": "abc", "got": out}}
    if kind == "pty-head":
        return None if out.count("abc") >= 1 and r["exited"] == 0 else {"case": case, "what": {"got": out}}


TTY_HELPER = r"""
import sys
sys.path.insert(0, %r)
from invoke import Context
Context().run("cat > %s", hide=True, echo_stdin=False, encoding="utf-8")
"""


def tty_multibyte_case(c):
    """helper interpreter under pty.fork (its sys.stdin is a real terminal); the harness types a 2-byte
    character: it must reach the command without waiting for the next key press"""
    import pty
    import select
    import tempfile
    import time
    fd, path = tempfile.mkstemp(prefix="c13-tty-", dir=core.BUILD)
    os.close(fd)
    pid, master = pty.fork()
    if pid == 0:
        try:
            os.execv(sys.executable, [sys.executable, "-c", TTY_HELPER % (core.REPO, path)])
        finally:
            os._exit(97)

    def pump(sec):
        end = time.time() + sec
        while time.time() < end:
            r, _, _ = select.select([master], [], [], 0.05)
            if r:
                try:
                    os.read(master, 4096)
                except OSError:
                    return
    try:
        # wait until the helper has switched the terminal to cbreak (ICANON off), at most 15 s
        import termios
        t0 = time.time()
        while time.time() - t0 < 15:
            pump(0.1)
            try:
                if not (termios.tcgetattr(master)[3] & termios.ICANON):
                    break
            except termios.error:
                break
        pump(0.3)
        os.write(master, "\u00e9".encode())
        pump(2.0)
        first = open(path, "rb").read()
        os.write(master, b"x")
        pump(1.5)
        second = open(path, "rb").read()
    finally:
        try:
            os.kill(pid, 9)
            os.waitpid(pid, 0)
        except OSError:
            pass
        os.close(master)
        os.unlink(path)
    if first == "\u00e9".encode():
        return None
    if first == b"" and second == "\u00e9x".encode():
        return {"case": c, "finding": "F-C13d",
                "what": "2 s after a 2-byte character was typed the command had received nothing; it arrived "
                        "together with the next key press"}
    return {"case": c, "what": {"after_char": first.hex(" "), "after_next_key": second.hex(" ")}}


PROP = C13()
