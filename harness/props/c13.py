"""C13: input-stream text reaches the command complete, in order, then EOF."""
import io
import itertools
import os
import sys

from .. import coqterm as ct
from .. import core
from .. import runner_common as rc
from ..core import Prop
from .c02 import ENC, nl, text, cut_inside_sequence

CHARS = ["a", "b", "\n", "é", "ß", "€", "\U0001F600", "\x00", "\x7f", "ÿ", "Ā",
         "\r", "\t", "\x04", "\x03", "\x1b"]      # control characters travel unchanged: CR, TAB, ^D, ^C, ESC


def rle_runs(xs, maxp=48):
    """[(count, pattern)] with concat(pattern * count) == xs: periodic stretches (period <= maxp, at least 3
    repetitions) are folded, the rest stays literal"""
    xs = list(xs)
    out, lit, i, n = [], [], 0, len(xs)
    while i < n:
        best = None
        for p in range(1, min(maxp, (n - i) // 3) + 1):
            if xs[i:i + p] == xs[i + p:i + 2 * p] == xs[i + 2 * p:i + 3 * p]:
                c = 3
                while xs[i + c * p:i + (c + 1) * p] == xs[i:i + p]:
                    c += 1
                best = (p, c)
                break
        if best and best[0] * best[1] >= 12:
            if lit:
                out.append((1, lit))
                lit = []
            out.append((best[1], xs[i:i + best[0]]))
            i += best[0] * best[1]
        else:
            lit.append(xs[i])
            i += 1
    if lit:
        out.append((1, lit))
    return out


def nl_long(xs):
    """Coq [list N]: literal when short, run-length form (Corr.C13Corr.rle) when long"""
    xs = [int(x) for x in xs]
    if len(xs) <= 64:
        return nl(xs)
    runs = rle_runs(xs)
    back = [x for c, pat in runs for _ in range(c) for x in pat]
    assert back == xs                     # the printer denotes the value it was given
    return "(rle [" + "; ".join("(%d, [%s])" % (c, ";".join(map(str, pat))) for c, pat in runs) + "])%N"


def text_long(sx):
    return nl_long(ord(c) for c in sx)


def unit_coq(u):
    return nl(u) if not isinstance(u, str) else text(u)


def script_of(case):
    """Coq [list sread] from the ordered event list (what harness/runner_common.py
    lets the stdin worker see: input events up to the exit event, the burst
    directly after it, nothing later)."""
    out = []
    evs = case["events"]
    i = 0
    while i < len(evs):
        ev = evs[i]
        if ev[0] == "in":
            out.append("SData " + unit_coq(ev[1]))
        elif ev[0] == "in_eof":
            out.append("SEof")
        elif ev[0] == "exit":
            out.append("SFinish")
            j = i + 1
            while j < len(evs) and evs[j][0] in ("in", "in_eof"):
                out.append("SData " + unit_coq(evs[j][1]) if evs[j][0] == "in" else "SEof")
                j += 1
            break
        i += 1
    return "[" + "; ".join(out) + "]"


def opt_bytes(b):
    return "None" if b is None else "(Some %s)" % nl_long(b)


# --------------------------------------------------------------------------- real input streams
# case["in"] = {"mode": "text", "tty": False, "kind": memory|file|pipe|proxy, "fenc": the FILE's encoding,
#               "newline": "raw" (newline="") | "universal" (newline=None), "content": [[str, repeat], ...]}
# The content runs are what is written (encoded with fenc) to the file / pipe; the text "available on the
# input stream" is what the stream's own text layer makes of it (decoded with fenc, newlines translated as
# opened) -- obtained from an independent, identical text layer over the same bytes.
KIND = {"memory": "KMemory", "file": "KFile", "pipe": "KPipe", "proxy": "KProxy"}
NEWLINE = {"raw": "", "universal": None}
MARKS = (1000, 2000, 4096, 8192)
FAST_SLEEP = 0.00002          # Runner.input_sleep for the long inputs (configuration; the default is 10 ms per read)


def content_of(runs):
    return "".join(s * int(n) for s, n in runs)


class FdProxy:
    """duck-typed in_stream: fileno() / read() / isatty() delegating to an open text file; no .buffer,
    no .encoding -- "any stream-like object" with a real descriptor"""

    def __init__(self, f):
        self._f = f

    def fileno(self):
        return self._f.fileno()

    def read(self, n=-1):
        return self._f.read(n)

    def isatty(self):
        return False

    def close(self):
        self._f.close()


def ref_text(st, content):
    """the text an identical text layer yields for the same bytes"""
    if st["kind"] == "memory":
        return io.StringIO(content).read()
    return io.TextIOWrapper(io.BytesIO(content.encode(st.get("fenc", "utf-8"))), encoding=st.get("fenc", "utf-8"),
                            newline=NEWLINE[st.get("newline", "raw")]).read()


def open_stream(st, content):
    """-> (stream object for in_stream, the text its text layer yields, cleanup())"""
    import tempfile
    kind, fenc, nlm = st["kind"], st.get("fenc", "utf-8"), NEWLINE[st.get("newline", "raw")]
    if kind == "memory":
        return io.StringIO(content), ref_text(st, content), (lambda: None)
    data = content.encode(fenc)
    ref = ref_text(st, content)
    if kind in ("file", "proxy"):
        fd, path = tempfile.mkstemp(prefix="c13-in-", dir=core.BUILD)
        with os.fdopen(fd, "wb") as fh:
            fh.write(data)
        f = open(path, "r", encoding=fenc, newline=nlm)
        stream = FdProxy(f) if kind == "proxy" else f

        def cleanup():
            try:
                f.close()
            finally:
                os.unlink(path)
        return stream, ref, cleanup
    if kind == "pipe":
        rfd, wfd = os.pipe()
        if len(data) > 60000:
            import fcntl
            fcntl.fcntl(wfd, 1031, 1 << 20)         # F_SETPIPE_SZ: the whole input fits, the writer never blocks
        os.write(wfd, data)
        os.close(wfd)                               # writer done: the descriptor is readable from now on (data, then EOF)
        f = open(rfd, "r", encoding=fenc, newline=nlm)

        def cleanup():
            try:
                f.close()
            except OSError:
                pass
        return f, ref, cleanup
    raise ValueError(kind)


def sweep_runs(ch, k, total, tail="\n"):
    """k ASCII characters, then the multi-byte character `ch` repeated until the UTF-8 length passes `total`:
    with k = 0..3 a character lies across every byte offset that is a multiple of anything (1000, 2000, 4096,
    8192 ...) for some k"""
    w = len(ch.encode("utf-8"))
    return [["x", k], [ch, (total - k) // w + 2], [tail, 1]]


def stream_family(tier, seed):
    """systematic real-stream cases: kind x character width x offset 0..3 x length class x newline mode x
    transcoding, with the command finishing early / late / in between and echo on / default / off"""
    quick = tier == "quick"
    out = []
    cnt = [seed]

    def add(kind, runs, enc="utf-8", fenc="utf-8", newline="raw"):
        i = cnt[0]
        cnt[0] += 1
        st = {"mode": "text", "tty": False, "kind": kind, "fenc": fenc, "newline": newline, "content": runs}
        text_len = len(ref_text(st, content_of(runs)).encode(enc, "replace"))
        evs = [[["exit", 0]], [["in_wait", text_len], ["exit", 0]], [["in_wait", text_len // 2], ["exit", i % 2]]][i % 3]
        if len(content_of(runs)) > 800:
            # long inputs: the command finishes at once (while the main thread still polls, forwarding is
            # slower; every wait of the driver stays far below its bound also on a loaded machine)
            evs = [["exit", i % 2]]
        c = {"events": evs, "enc": enc, "in": st,
             "pty": i % 7 == 3, "hide": "both", "respond": None, "warn": True, "out_given": i % 2 == 0}
        e = (True, None, False, True)[i % 4]
        if e is not None:
            c["echo_stdin"] = e
        out.append(c)

    L1, L2, L4, L8 = 1010, 2010, 4100, 8200
    fp = ("file", "pipe")
    for k in range(4):
        a, b = fp[k % 2], fp[(k + 1) % 2]
        for kind in fp:
            add(kind, sweep_runs("\U0001F600", k, L2))                 # 4-byte characters across 1000 and 2000
        if k:                                                          # (4 divides every mark: k = 0 straddles nothing)
            add(a, sweep_runs("\U0001F600", k, L4))                    # ... 4096
            if not quick or k == 1 + seed % 3:                         # (quick: the other offsets run on real children)
                add(b, sweep_runs("\U0001F600", k, L8))                # ... 8192 (and every multiple of 1000 below)
        add(("file", "pipe", "proxy", "file")[k], sweep_runs("\u20ac", k, L2))      # 3-byte
        if k < 2:
            add(a, sweep_runs("\u00e9", k, L2))                        # 2-byte
        add("memory" if k % 2 else "proxy", sweep_runs("\U0001F600", k, L1))
        # "\r\n" line ends in a file opened with universal newlines / untranslated; 7-byte lines put CR LF at
        # every residue around the marks as k varies
        add(a, [["x", k], ["ab\u20ac\r\n", (L2 if k == seed % 4 else L1) // 7 + 2], ["end\rmid\n", 1]], newline="universal")
        if k < 2:
            add(b, [["x", k], ["ab\u20ac\r\n", L1 // 7 + 2]], newline="raw")
        # the text layer transcodes: file encoding != effective encoding of the run
        if k < 2:
            add(a, sweep_runs("\u00e9", k, L1), fenc="latin-1")        # 1 byte in the file, 2 for the child
            add(b, sweep_runs("\u00e9", k, L2), enc="latin-1")         # 2 bytes in the file, 1 for the child
            add(a, [["x", k], ["\u00e9a\r\n", L1 // 3]], fenc="cp1252", newline="universal")
        add(b, sweep_runs("\u20ac", k, L1), fenc="utf-16")
    if not quick:
        for k in range(4):
            for kind in ("file", "pipe", "proxy", "memory"):
                for ch in ("\u00e9", "\u20ac", "\U0001F600"):
                    for total in (L1, L2, L4, L8) + ((2 * L8,) if len(ch.encode()) == 4 else ()):
                        add(kind, sweep_runs(ch, k, total), newline=("raw", "universal")[k % 2])
    return out


class _Enc:
    id = "C13"
    corr_module = "Corr.C13Corr"
    case_type = "ecase"
    preds = ("ecorr",)
    shard_size = 1500


class C13(Prop):
    id = "C13"
    corr_module = "Corr.C13Corr"
    quick_n = 1000
    thorough_n = 15000
    shard_size = 250
    rule = ("scripted runs of the real Runner with a scripted input stream: text-mode (str units) or byte-mode "
            "(bytes units, one read each) streams, texts over ASCII / 2-4-byte characters / NUL, empty input, "
            "availability patterns (units delivered before the command finishes, units already available when "
            "it finishes, EOF before / after exit, no EOF), echo_stdin in {None,True,False} x isatty x pty, "
            "in_stream=False with an always-answering watcher, encodings utf-8/latin-1/ascii; plus the kind of input "
            "stream: REAL text streams handed to the same scripted Runner (regular file / pipe read end behind a "
            "TextIOWrapper / duck-typed object with fileno() / StringIO; file encoding utf-8, latin-1, cp1252, utf-16, "
            "utf-32 ... = or != the effective encoding; newline='' or universal newlines) holding texts just over "
            "1000/2000/4096/8192 encoded bytes with 2-/3-/4-byte characters at offsets 0..3 around every mark and "
            "CR LF line ends, the command finishing early / late / in between (systematic family + random).  "
            "Non-trivial = at least one input unit or a watcher response (real streams: non-empty text); distinct by "
            "the whole case")
    trusted_base = [
        "Coq 8.16.1 kernel + vm_compute (shard evaluation, refutation witnesses)",
        "hand-written model coq/Model/StdinModel.v (+ Utf8Model.v, encode in Common/ByteText.v) tied to "
        "invoke/runners.py (handle_stdin, read_our_stdin, write_proc_stdin, should_echo_stdin, respond, "
        "create_io_threads) by differential execution through harness/runner_common.py ScriptedRunner",
        "encoder model validated against CPython str.encode (this run)",
        "hand-written coq/Model/InStreamModel.v (what read_our_stdin asks of a non-terminal stream by kind of "
        "object) tied to the code by the real-stream cases; CPython's io text layer (TextIOWrapper / StringIO) "
        "defines the text available on a real stream: the reference is an identical text layer over the same bytes",
        "run-length printer of long lists (harness/props/c13.py nl_long, self-checked) and Corr.C13Corr.rle",
        "harness/runner_common.py (scripted input stream, readiness shim), harness/props/c13.py, harness/coqterm.py",
        "CPython 3.12 executing VERIF_REPO; Linux pipe semantics for the real-child runs",
    ]
    assumptions = [
        "OS contract: select()/FIONREAD readiness and the pipe to the child are assumed (ready_for_reading is "
        "answered by the script; bytes_to_read is 1 for the scripted streams); closing the write end gives the "
        "child EOF after it drained the pipe",
        "real input streams: a regular file, and a pipe whose writer has written everything and closed, are always "
        "ready for select() (a pipe that stays open is F-C13b); the runs use input_sleep = 20 us instead of 10 ms "
        "(configuration; latency is not part of the statement)",
        "after the command has finished, input that is not already available is not waited for (by design of the "
        "code and of the spec: 'deliverable')",
        "texts are encodable in the effective encoding (otherwise out of scope: the worker dies with "
        "UnicodeEncodeError and run() raises ThreadException)",
    ]
    not_modelled = [
        "real terminals: FIONREAD multi-byte reads, cbreak switching (C08 measures termios), EBADF under nohup",
        "scheduler preemption inside a Python statement; the interleaving of stdin-worker writes with watcher "
        "responses on the child's stdin (observed per writer)",
        "Local._write_proc_stdin / close_proc_stdin (os.write, broken-pipe tolerance) -- real-child runs only",
        "input_sleep pacing (delivery latency is not part of the statement)",
    ]

    # ------------------------------------------------------------------ cases
    REAL_P = 0.015

    def _real_case(self, rng):
        """random real-stream case: mixed text (ASCII, 2-4-byte characters, CR / LF / CR LF) of random length,
        often just past one of the marks, any kind / file encoding / newline mode / effective encoding"""
        enc = rng.choice(["utf-8"] * 5 + ["latin-1", "ascii"])
        kind = rng.choice(["file", "file", "pipe", "pipe", "proxy", "memory"])
        if enc == "utf-8":
            pool = ["a", "b", " ", "\n", "\r\n", "\r", "\u00e9", "\u00df", "\u20ac", "\U0001F600", "\u0100", "\t", "\x00"]
            fenc = rng.choice(["utf-8"] * 4 + ["utf-16", "utf-16-le", "utf-32", "utf-8-sig"])
        elif enc == "latin-1":
            pool = ["a", "b", "\n", "\r\n", "\u00e9", "\u00ff", "\u00df", "\x00"]
            fenc = rng.choice(["utf-8", "utf-8", "latin-1", "utf-16", "cp1252"])
        else:
            pool = ["a", "b", "\n", "\r\n", "\x7f", "\t", "\x00"]
            fenc = rng.choice(["utf-8", "ascii", "latin-1", "utf-16"])
        if kind == "memory":
            fenc = "utf-8"
        marks = MARKS if getattr(self, "_tier", "quick") != "quick" else (MARKS[0], MARKS[0], MARKS[1])
        target = rng.choice([0, 1, 5, 40, 300, 600] + [m + rng.randrange(-3, 12) for m in marks])
        if rng.random() < 0.5:
            # a few long runs
            runs, size = [], 0
            while size < target:
                ch = rng.choice(pool)
                n = rng.choice([1, 1, 2, 3, 7, 50, 333, 1000])
                runs.append([ch, n])
                size += len((ch * n).encode(fenc))
        else:
            # a random line, repeated
            line = "".join(rng.choice(pool) for _ in range(rng.randint(1, 9)))
            runs = [["x", rng.randrange(4)], [line, target // max(1, len(line.encode(fenc))) + 1]]
        st = {"mode": "text", "tty": False, "kind": kind, "fenc": fenc,
              "newline": rng.choice(["raw", "universal"]), "content": runs}
        text_len = len(ref_text(st, content_of(runs)).encode(enc, "replace"))
        evs = rng.choice([[["exit", rng.choice([0, 0, 1])]],
                          [["in_wait", text_len], ["exit", 0]],
                          [["in_wait", rng.randrange(text_len + 1)], ["exit", 0]]])
        if len(content_of(runs)) > 800:
            evs = [["exit", rng.choice([0, 1])]]          # long inputs: see stream_family
        case = {"events": evs, "enc": enc, "in": st,
                "pty": rng.random() < 0.2, "hide": rng.choice(["both", "both", "none", "stdout"]),
                "respond": None, "warn": True, "async": rng.random() < 0.15,
                "out_given": rng.random() < 0.5, "enc_from": rng.choice(["kwarg", "kwarg", "config"])}
        e = rng.choice(["none", "true", "true", "false"])
        if e != "none":
            case["echo_stdin"] = (e == "true")
            case["echo_from"] = rng.choice(["kwarg", "kwarg", "config"])
        return case

    def _case(self, rng):
        if rng.random() < self.REAL_P:
            return self._real_case(rng)
        enc = rng.choice(["utf-8"] * 6 + ["latin-1", "latin-1", "ascii"])
        r = rng.random()
        if r < 0.12:
            stream = None
        else:
            stream = {"mode": "bytes" if rng.random() < 0.35 else "text", "tty": rng.random() < 0.4}
        pool = CHARS if enc == "utf-8" else (["a", "b", "\n", "é", "ÿ", "\x00", "\r", "\x04"] if enc == "latin-1"
                                             else ["a", "b", "\n", "\x00", "\x7f", "\r", "\t", "\x03", "\x1b"])
        n = rng.choice([0, 0, 1, 2, 3, 4, 6])
        s = "".join(rng.choice(pool) for _ in range(n))
        units = []
        if stream:
            if stream["mode"] == "text":
                units = [c for c in s]
                if rng.random() < 0.15 and len(units) >= 2:          # a multi-character read (tty-like)
                    k = rng.randrange(len(units) - 1)
                    units[k:k + 2] = [units[k] + units[k + 1]]
            else:
                bs = s.encode(enc)
                if rng.random() < 0.2:
                    bs += bytes([rng.choice([0x80, 0xff, 0xc3])]) if enc == "utf-8" else b""
                units = [[b] for b in bs]
                if rng.random() < 0.3 and len(units) >= 2:           # whole characters per read (tty-like)
                    units = [list(c.encode(enc)) for c in s]
        evs = [["in", u] for u in units]
        eof = rng.random() < 0.6
        if stream and eof:
            evs.append(["in_eof"])
        # where the command finishes relative to the input
        pos = rng.randrange(len(evs) + 1)
        evs.insert(pos, ["exit", rng.choice([0, 0, 1])])
        respond = None
        nout = 0
        if rng.random() < (0.7 if stream is None else 0.15):
            respond = rng.choice(["y\n", "é", "ok"]) if enc == "utf-8" else "y\n"
            nout = rng.randint(1, 3)
        # stdout reads (for the watcher) before the exit event only, so their order relative to the
        # input burst after the exit event stays deterministic
        xi = next(i for i, e in enumerate(evs) if e[0] == "exit")
        for _ in range(nout):
            evs.insert(rng.randrange(xi + 1), ["out", [65 + rng.randrange(3)]])
            xi += 1
        if respond and stream:
            # responses are written to the same pipe: keep them before the input's EOF (a response after the
            # close is the defect F-C12d, witnessed separately)
            eofs = [e for e in evs if e[0] == "in_eof"]
            if eofs:
                evs = [e for e in evs if e[0] != "in_eof"]
                xi2 = next(i for i, e in enumerate(evs) if e[0] == "exit")
                if all(e[0] == "in" for e in evs[xi2 + 1:]):
                    evs.append(eofs[0])          # EOF after every input unit and (outs precede the exit) every response
        case = {"events": evs, "enc": enc, "in": stream, "pty": rng.random() < 0.25,
                "hide": "both" if nout else rng.choice(["both", "both", "none", "stdout", "stderr"]),
                "respond": respond, "warn": rng.random() < 0.7, "async": rng.random() < 0.2,
                # where "the output stream" is: an explicit out_stream object, or sys.stdout
                # (an explicit object is never hidden, so only without stdout reads for the watcher)
                "out_given": nout == 0 and rng.random() < 0.5,
                "enc_from": rng.choice(["kwarg", "kwarg", "config"])}
        e = rng.choice(["none", "none", "true", "false"])
        if e != "none":
            case["echo_stdin"] = (e == "true")
            case["echo_from"] = rng.choice(["kwarg", "kwarg", "config"])
        return case

    phases = None

    def setup(self, tier, seed):
        self._seed = seed if isinstance(seed, int) else 0
        self.phases = rc.Phases()
        self.phases.mark("proof build (incl. waiting for the shared build lock)")

    def generate(self, rng, tier, n):
        if self.phases:
            self.phases.mark("scripted cases + shards")
        self._tier = tier
        for c in stream_family(tier, getattr(self, "_seed", 0)):
            yield c
        for _ in range(n):
            yield self._case(rng)

    def enumerate_small(self, tier):
        """every position of the exit event x EOF or not x pty x echo x mode, for 3 fixed texts"""
        for s, mode in (("ab", "text"), ("é", "bytes"), ("aé", "text"), ("", "text")):
            units = [c for c in s] if mode == "text" else [[b] for b in s.encode()]
            for eof in (False, True):
                base = [["in", u] for u in units] + ([["in_eof"]] if eof else [])
                for pos in range(len(base) + 1):
                    for pty in (False, True):
                        for echo in (None, True, False):
                            for tty in (False, True):
                                evs = list(base)
                                evs.insert(pos, ["exit", 0])
                                c = {"events": evs, "enc": "utf-8", "in": {"mode": mode, "tty": tty}, "pty": pty,
                                     "hide": "both", "respond": None, "warn": True}
                                if echo is not None:
                                    c["echo_stdin"] = echo
                                yield c
        # real streams: every kind x straddle offset at the first mark x echo x when the command finishes
        for kind in ("memory", "file", "pipe", "proxy"):
            for k in range(4):
                for echo in (None, True):
                    for late in (False, True):
                        runs = sweep_runs("\U0001F600", k, MARKS[0] + 8)
                        n = len(content_of(runs).encode())
                        c = {"events": ([["in_wait", n]] if late else []) + [["exit", 0]], "enc": "utf-8",
                             "in": {"mode": "text", "tty": False, "kind": kind, "fenc": "utf-8", "newline": "raw",
                                    "content": runs},
                             "pty": False, "hide": "both", "respond": None, "warn": True}
                        if echo is not None:
                            c["echo_stdin"] = echo
                        yield c

    # ------------------------------------------------------------------ impl
    def run_impl(self, case):
        st = case.get("in")
        stream_text = None
        if st and st.get("kind"):
            # a REAL stream object as in_stream; the ScriptedRunner still records what the child's stdin gets
            stream, stream_text, cleanup = open_stream(st, content_of(st["content"]))
            try:
                o = rc.run_scripted(dict(case), in_stream=stream, input_sleep=FAST_SLEEP)
            finally:
                cleanup()
        else:
            o = rc.run_scripted(dict(case))
        died = "UnicodeEncodeError" in (o.get("thread_excs") or [])
        w = o["stdin_writes"]
        log = o["stdin_log"]
        first_close = log.index("c") if "c" in log else len(log)
        return {
            "close_last": "w:in" not in log[first_close:],
            "silent": o["out_other"] == "",
            "done": not o["hang"], "hang": o["hang"], "hang_what": o.get("hang_what"), "outcome": o["outcome"],
            "received": None if died else [b for chunk in w["in"] for b in chunk],
            "closes": o["stdin_closes"],
            "echo": o["out_stream"],
            "terminated": "handle_stdin" not in o["alive_after"] and not o["hang"],
            "responses": [b for chunk in w["out"] + w["err"] for b in chunk],
            "thread_excs": o.get("thread_excs"),
            "stream_text": stream_text,
        }

    def finish_at(self, case, obs):
        """real streams: the read before which the command finishes (only roughly known -- the worker reads on
        its own; the model's result does not depend on it: C13_stream_kind_irrelevant)"""
        n = None
        for ev in case["events"]:
            if ev[0] == "in_wait":
                n = ev[1]
            elif ev[0] == "exit":
                break
        if n is None:
            return 0
        t = obs.get("stream_text") or ""
        size = 0
        for i, ch in enumerate(t):
            size += len(ch.encode(case["enc"], "replace"))
            if size > n:
                return i
        return len(t) + 1

    def responses_of(self, case):
        if not case.get("respond"):
            return []
        n = 0
        for ev in case["events"]:
            if ev[0] in ("out", "err"):
                if not ev[1]:
                    break
                n += 1
        return [case["respond"]] * n

    def to_coq(self, case, obs):
        st = case.get("in")
        stream = "None" if not st else "(Some (%s, %s))" % ("MBytes" if st["mode"] == "bytes" else "MText",
                                                            ct.b(bool(st.get("tty"))))
        echo = "None" if "echo_stdin" not in case else "(Some %s)" % ct.b(case["echo_stdin"])
        real = "None"
        if st and st.get("kind"):
            real = "(Some (mkReal %s (N.to_nat %d%%N) %s))" % (KIND[st["kind"]], self.finish_at(case, obs),
                                                             text_long(obs["stream_text"]))
        i = "(mkSin %s %s %s %s %s %s)" % (
            ENC[case["enc"]], stream, echo, ct.b(case["pty"]), script_of(case),
            "[" + ";".join(text(r) for r in self.responses_of(case)) + "]")
        o = "(mkSobs %s %s %s %s %s)" % (
            opt_bytes(obs["received"]), ct.n(obs["closes"]), text_long(obs["echo"]), ct.b(obs["terminated"]),
            opt_bytes(obs["responses"]))
        return "(mk %s %s %s %s %s %s)" % (i, real, ct.b(obs["done"]), ct.b(obs.get("close_last", True)),
                                           ct.b(obs.get("silent", True)), o)

    def nontrivial(self, case, obs):
        if (case.get("in") or {}).get("kind"):
            return bool(obs.get("stream_text"))
        return any(e[0] == "in" for e in case["events"]) or bool(self.responses_of(case))

    def classify(self, case, obs):
        st = case.get("in")
        if st and st.get("kind"):
            n = len((obs.get("stream_text") or "").encode(case["enc"], "replace"))
            size = "<1000" if n < 1000 else "<2000" if n < 2000 else "<4096" if n < 4096 else "<8192" if n < 8192 else ">=8192"
            return "%s real-%s(%s%s) %s bytes%s" % (case["enc"], st["kind"], st.get("fenc", "utf-8"),
                                                    ",universal-nl" if st.get("newline") == "universal" else "",
                                                    size, " pty" if case["pty"] else "")
        return "%s %s%s%s" % (case["enc"], "no-stream" if not st else st["mode"] + ("-tty" if st["tty"] else ""),
                              " pty" if case["pty"] else "", " respond" if case.get("respond") else "")

    def delivered_units(self, case):
        """units the worker gets to read (mirror of script_of / Spec.deliverable)"""
        res, evs = [], case["events"]
        for i, ev in enumerate(evs):
            if ev[0] == "in":
                res.append(ev[1])
            elif ev[0] == "exit":
                j = i + 1
                while j < len(evs) and evs[j][0] in ("in", "in_eof"):
                    if evs[j][0] == "in":
                        res.append(evs[j][1])
                    else:
                        break
                    j += 1
                break
        return res

    def finding_of(self, case, obs):
        st = case.get("in")
        if not st or st["mode"] != "bytes" or case["enc"] != "utf-8" or not obs["done"]:
            return None
        units = [bytes(u) for u in self.delivered_units(case)]
        # a read boundary inside a multi-byte character (every read decoded on its own)
        if cut_inside_sequence(units + [b""]):
            return "F-C13"
        return None

    _budget = rc.ShrinkBudget(45.0)

    def shrink_candidates(self, case):
        if not self._budget.ok():
            return
        st = case.get("in")
        if st and st.get("kind"):
            runs = st["content"]

            def with_runs(r):
                return dict(case, **{"in": dict(st, content=r)})
            for i in range(len(runs)):
                yield with_runs(runs[:i] + runs[i + 1:])
            for i, (sx, n) in enumerate(runs):
                for m in (n // 2, n - 1):
                    if 0 < m < n:
                        yield with_runs(runs[:i] + [[sx, m]] + runs[i + 1:])
            if len(case["events"]) > 1:
                yield dict(case, events=[e for e in case["events"] if e[0] == "exit"])
            if st.get("newline") == "universal":
                yield dict(case, **{"in": dict(st, newline="raw")})
            if st.get("fenc", "utf-8") != case["enc"] and st["kind"] != "memory":
                yield dict(case, **{"in": dict(st, fenc=case["enc"])})
        evs = case["events"]
        for i in range(len(evs)):
            if evs[i][0] != "exit":
                yield dict(case, events=evs[:i] + evs[i + 1:])
        for i in range(len(evs)):
            if evs[i][0] == "exit":
                for j in (0, len(evs) - 1):
                    if j != i:
                        e2 = evs[:i] + evs[i + 1:]
                        e2.insert(j, evs[i])
                        yield dict(case, events=e2)
        if case.get("respond"):
            yield dict(case, respond=None)
        for k in ("async", "out_given"):
            if case.get(k):
                yield dict(case, **{k: False})
        if case["pty"]:
            yield dict(case, pty=False)
        if "echo_stdin" in case:
            c = dict(case)
            del c["echo_stdin"]
            yield c
        if case.get("in") and case["in"].get("tty"):
            yield dict(case, **{"in": dict(case["in"], tty=False)})

    def mutate(self, case, rng):
        for _ in range(40):
            yield self._case(rng)

    # ------------------------------------------------------------------ extra
    def extra_checks(self, tier, seed):
        if self.phases:
            self.phases.mark("extra checks")
        res = [self._encoder_validation(tier, seed), self._real_stream_children(tier, seed),
               self._real_children(tier, seed)]
        if self.phases:
            self.phases.mark("end")
            res.append(self.phases.entry())
        return res

    def _encoder_validation(self, tier, seed):
        import random
        rng = random.Random(seed + 13)
        cps = [0, 0x41, 0x7f, 0x80, 0xff, 0x100, 0x7ff, 0x800, 0xd7ff, 0xd800, 0xdbff, 0xdfff, 0xe000,
               0xfffd, 0xffff, 0x10000, 0x10ffff]
        items = []
        for e in ENC:
            for c in cps:
                items.append((e, chr(c)))
            for a, b in itertools.product(cps, repeat=2):
                items.append((e, chr(a) + chr(b)))
        for _ in range(2000 if tier == "quick" else 30000):
            k = rng.randint(1, 12)
            s = "".join(chr(rng.choice(cps) if rng.random() < 0.5 else rng.randrange(0x110000)) for _ in range(k))
            items.append((rng.choice(list(ENC)), s))

        def enc(e, s):
            try:
                return list(s.encode(e))
            except UnicodeEncodeError:
                return None
        terms = ["(mke %s %s %s)" % (ENC[e], text(s), opt_bytes(enc(e, s))) for e, s in items]
        res = core.eval_shards(_Enc, terms, "enc")
        fails = [{"case": {"enc": e, "text": [ord(c) for c in s]}, "what": "encode model disagrees with str.encode"}
                 for (e, s), r in zip(items, res) if not r["ecorr"]]
        return {"name": "encoder-validation", "evaluations": len(items), "failures": fails[:5],
                "note": "Common/ByteText.encode vs CPython str.encode (strict) on boundary code points (incl. "
                        "surrogates, U+10FFFF), all pairs of them, and random strings, x 3 encodings"}

    def _real_stream_children(self, tier, seed):
        """real `cat > file` children fed from real text streams (file / pipe / proxy / memory) holding long
        texts with multi-byte characters across the 1000/2000/4096/8192-byte marks: what the child received is
        compared byte for byte with text.encode(effective encoding), the mirror with the text"""
        from invoke.runners import Local

        class FastLocal(Local):
            input_sleep = FAST_SLEEP          # configuration: pause between two reads of the input stream

        fails, evals = [], 0
        for c in real_stream_cases(tier, seed if isinstance(seed, int) else 0):
            evals += 1
            f = real_stream_case(c, FastLocal)
            if f:
                fails.append(f)
                if len(fails) >= 3:
                    break
        return {"name": "real-stream-children", "evaluations": evals, "failures": fails,
                "note": "Local runner (input_sleep=%g) with `cat > file` children; in_stream = regular text file / "
                        "pipe read end behind a TextIOWrapper / duck-typed object with fileno() / StringIO, file "
                        "encodings utf-8, latin-1, utf-16, cp1252 (transcoding text layer), universal and raw newlines, "
                        "texts just over 1000, 2000, 4096 and 8192 encoded bytes with 2-, 3- and 4-byte characters at "
                        "offsets 0..3 (so a character lies across every mark), echo on and off; plus a helper "
                        "interpreter whose own sys.stdin is a redirected file (in_stream not given)" % FAST_SLEEP}

    def _real_children(self, tier, seed):
        fails, evals = [], 0
        budget = rc.ExtraBudget(tier, 30.0)
        for c in real_cases(tier):
            if c.get("optional") and not budget.allow(c["kind"]):
                continue
            evals += 1
            f = real_case(c)
            if f:
                fails.append(f)
        return {"name": "real-children", "evaluations": evals, "failures": fails,
                "note": budget.note() + "(inputs are short: the worker forwards one read per input_sleep = 10 ms, and keeps "
                        "pumping a non-terminal stream until it is exhausted even after the child exited) "
                        "real cat / wc -c / head -c children fed from StringIO / BytesIO input streams through "
                        "Local (no pty: EOF must reach the child, which then terminates; broken pipe tolerated), "
                        "in_stream=False with a Responder, head -n1 under a pty"}


def real_stream_cases(tier, seed):
    quick = tier == "quick"
    L1, L2, L4, L8 = 1010, 2010, 4100, 8200
    fp = ("file", "pipe")
    cs = []

    def add(kind, runs, enc="utf-8", fenc="utf-8", newline="raw", **kw):
        cs.append(dict({"kind": kind, "content": runs, "enc": enc, "fenc": fenc, "newline": newline,
                        "echo": (len(cs) + seed) % 3 != 2}, **kw))

    if quick:
        for k in range(4):
            a, b = fp[k % 2], fp[(k + 1) % 2]          # (the scripted family uses the kinds the other way round)
            if k:
                add(a, sweep_runs("\U0001F600", k, L8))
                add(b, sweep_runs("\U0001F600", k, L1))
        add("file", sweep_runs("\U0001F600", 0, L2))
        add("proxy", sweep_runs("\u20ac", 1, L2))
        add("pipe", sweep_runs("\u00e9", 1, L2))
        add("memory", sweep_runs("\U0001F600", 2, L1))
        add("file", [["ab\u20ac\r\n", L1 // 7 + 2], ["end\rmid\n", 1]], newline="universal")
        add("pipe", [["x", 1], ["ab\u20ac\r\n", L1 // 7 + 2]], newline="universal")
        add("file", sweep_runs("\u00e9", 1, L1), fenc="latin-1")
        add("pipe", sweep_runs("\u20ac", 1, L1), fenc="utf-16")
        add("file", sweep_runs("\u00e9", 0, L2), enc="latin-1")
        add("stdin", sweep_runs("\U0001F600", 1 + seed % 3, L1))
    else:
        for k in range(4):
            for kind in ("file", "pipe", "proxy", "memory"):
                for ch in ("\u00e9", "\u20ac", "\U0001F600"):
                    for total in (L1, L2, L4, L8):
                        add(kind, sweep_runs(ch, k, total))
            for kind in fp:
                add(kind, [["x", k], ["ab\u20ac\r\n", L8 // 7 + 2], ["end\rmid\n", 1]], newline="universal")
                add(kind, [["x", k], ["ab\u20ac\r\n", L2 // 7 + 2]], newline="raw")
                add(kind, sweep_runs("\u00e9", k, L2), fenc="latin-1")
                add(kind, sweep_runs("\u20ac", k, L2), fenc="utf-16")
                add(kind, sweep_runs("\u00e9", k, L2), enc="latin-1")
                add(kind, [["x", k], ["\u00e9a\r\n", L2 // 3]], fenc="cp1252", newline="universal")
            add("stdin", sweep_runs("\U0001F600", k, L2))
            add("pipe", sweep_runs("\U0001F600", k, 66000))
    return cs


STDIN_HELPER = r"""
import sys
sys.path.insert(0, %r)
from invoke import Context
from invoke.runners import Local
class FastLocal(Local):
    input_sleep = %r
r = FastLocal(Context()).run("cat > %s", hide=True, encoding="utf-8", echo_stdin=False)
sys.exit(r.exited)
"""


def first_difference(got, want):
    i = next((j for j, (x, y) in enumerate(zip(got, want)) if x != y), min(len(got), len(want)))
    return {"got_len": len(got), "want_len": len(want), "first_difference_at": i,
            "got": repr(got[max(0, i - 4):i + 8]), "want": repr(want[max(0, i - 4):i + 8])}


def real_stream_case(c, runner_cls):
    import tempfile
    content = content_of(c["content"])
    enc = c["enc"]
    fd, sink = tempfile.mkstemp(prefix="c13-sink-", dir=core.BUILD)
    os.close(fd)
    label = {k: v for k, v in c.items() if k != "content"}
    label["content"] = c["content"]
    try:
        if c["kind"] == "stdin":
            # in_stream not given: the helper interpreter's own sys.stdin, redirected from a regular file
            import subprocess
            fd, path = tempfile.mkstemp(prefix="c13-in-", dir=core.BUILD)
            with os.fdopen(fd, "wb") as fh:
                fh.write(content.encode("utf-8"))
            try:
                with open(path, "rb") as fh:
                    p = subprocess.run([sys.executable, "-c", STDIN_HELPER % (core.REPO, FAST_SLEEP, sink)], stdin=fh,
                                       capture_output=True, timeout=60, env=dict(os.environ, PYTHONUTF8="1"))
            except subprocess.TimeoutExpired:
                return {"case": label, "what": "helper interpreter with redirected stdin did not finish within 60 s"}
            finally:
                os.unlink(path)
            if p.returncode != 0:
                return {"case": label, "what": {"helper_exit": p.returncode,
                                                "stderr": p.stderr[-400:].decode("utf-8", "replace")}}
            want = content.encode("utf-8")
            got = open(sink, "rb").read()
            return None if got == want else {"case": label, "what": dict(first_difference(got, want),
                                                                         where="bytes received by the child")}
        st = {"kind": c["kind"], "fenc": c["fenc"], "newline": c["newline"]}
        stream, ref, cleanup = open_stream(st, content)
        mirror = io.StringIO()
        try:
            r = rc.run_real("cat > %s" % sink, bound=60.0, runner_cls=runner_cls, in_stream=stream, out_stream=mirror,
                            err_stream=io.StringIO(), echo_stdin=bool(c["echo"]), encoding=enc)
        finally:
            cleanup()
        if r["hang"]:
            return {"case": label, "what": "run() did not end in time: %s" % r["hang_what"]}
        if r["outcome"] != "Result" or r["exited"] != 0:
            return {"case": label, "what": "outcome %s %s, exit code %r" % (r["outcome"], r.get("thread_excs"), r["exited"])}
        want = ref.encode(enc)
        got = open(sink, "rb").read()
        if got != want:
            return {"case": label, "what": dict(first_difference(got, want), where="bytes received by the child")}
        mwant = ref if c["echo"] else ""
        if mirror.getvalue() != mwant:
            return {"case": label, "what": dict(first_difference(mirror.getvalue(), mwant), where="text mirrored to out_stream")}
        return None
    finally:
        try:
            os.unlink(sink)
        except OSError:
            pass


def real_cases(tier):
    """required cases first (one representative of every class), then the optional ones: reproductions of
    known findings and the slow inputs (the worker forwards one read per 10 ms), dropped when the quick
    tier's time budget for extra checks is used up"""
    quick = tier == "quick"
    cs = []
    for t in ["", "x", "hello\n", "héllo wörld €\n" * 3]:
        cs.append({"kind": "cat", "text": t, "mode": "text"})
    cs.append({"kind": "wc", "text": "héllo\n" * (15 if quick else 40), "mode": "text"})
    cs.append({"kind": "head", "text": "0123456789" * 10, "mode": "text"})
    cs.append({"kind": "cat", "text": "plain ascii bytes\n", "mode": "bytes"})
    cs.append({"kind": "respond"})
    cs.append({"kind": "respond-no-newline"})            # a response without a line end must still arrive
    cs.append({"kind": "open-pipe", "buffered": False})  # input not at EOF, no line end: delivered, not held back
    cs.append({"kind": "pipe-eof", "buffered": False})   # `echo hi | ...` shape: data then EOF on a real pipe
    cs.append({"kind": "pipe-eof", "buffered": True})
    cs.append({"kind": "idle-pipe"})                     # pipe held open, nothing fed, command exits at once
    cs.append({"kind": "async-cat"})                     # asynchronous=True with an explicit in_stream
    cs.append({"kind": "default-stdin"})                 # in_stream not given: the interpreter's piped sys.stdin
    cs.append({"kind": "pty-head", "text": "abc\n"})
    # optional
    cs.append({"kind": "respond-after-eof", "optional": True})                     # F-C12d (shared with C12)
    cs.append({"kind": "bom", "optional": True})                                   # F-C13c
    cs.append({"kind": "cat", "text": "héllo", "mode": "bytes", "optional": True})  # F-C13 on the real runner
    cs.append({"kind": "open-pipe", "buffered": True, "optional": True})           # F-C13b
    cs.append({"kind": "cat", "text": "\U0001F600\n" * 20, "mode": "text", "optional": True})
    cs.append({"kind": "cat", "text": "z" * 120 + "\n", "mode": "text", "optional": True})
    if not quick:
        cs.append({"kind": "tty-multibyte", "optional": True})                     # F-C13d (about 5 s)
        cs.append({"kind": "cat", "text": "0123456789abcdef" * 25 + "\n", "mode": "text"})   # > 300 bytes (4 s)
        cs.append({"kind": "cat", "text": "z" * 300 + "\n", "mode": "text"})
        cs = cs * 3
    return cs


def real_case(c):
    from invoke.watchers import Responder
    kind = c["kind"]
    kw = dict(hide=True, encoding="utf-8")
    if kind in ("cat", "wc", "head"):
        t = c["text"]
        kw["in_stream"] = io.StringIO(t) if c["mode"] == "text" else io.BytesIO(t.encode())
        cmd = {"cat": "cat", "wc": "wc -c", "head": "head -c 5"}[kind]
    elif kind == "respond":
        kw["in_stream"] = False
        kw["watchers"] = [Responder(pattern=r"Q\?", response="yes\n")]
        cmd = [sys.executable, "-u", "-c", "print('Q?'); x=input(); print('got', x)"]
    elif kind == "bom":
        import tempfile
        fd, path = tempfile.mkstemp(prefix="c13-bom-", dir=core.BUILD)
        os.close(fd)
        r = rc.run_real("cat > %s" % path, hide=True, in_stream=io.StringIO("ab"), encoding="utf-16", bound=20)
        got = open(path, "rb").read()
        os.unlink(path)
        if r["hang"] or r["outcome"] != "Result":
            return {"case": c, "what": "outcome %s" % r["outcome"]}
        if got == "ab".encode("utf-16"):
            return None
        if got == "a".encode("utf-16") + "b".encode("utf-16"):
            return {"case": c, "finding": "F-C13c",
                    "what": "in_stream=StringIO('ab'), encoding='utf-16': the child received %s (a BOM per read)"
                            % got.hex(" ")}
        return {"case": c, "what": {"got": got.hex(" "), "want": "ab".encode("utf-16").hex(" ")}}
    elif kind == "tty-multibyte":
        return tty_multibyte_case(c)
    elif kind == "pipe-eof":
        rfd, wfd = os.pipe()
        os.write(wfd, b"hi\n")
        os.close(wfd)
        kw["in_stream"] = os.fdopen(rfd, "r") if c["buffered"] else os.fdopen(rfd, "rb", 0)
        cmd = "cat"
    elif kind == "idle-pipe":
        rfd, wfd = os.pipe()
        kw["in_stream"] = os.fdopen(rfd, "rb", 0)
        cmd = "true"
    elif kind == "async-cat":
        kw["in_stream"] = io.StringIO("abc\n")
        kw["asynchronous"] = True
        cmd = "cat"
    elif kind == "default-stdin":
        import subprocess
        prog = ("import sys; sys.path.insert(0, %r)\nfrom invoke import Context\n"
                "r = Context().run('cat', hide=True)\nprint('GOT', repr(r.stdout))" % core.REPO)
        try:
            p = subprocess.run([sys.executable, "-c", prog], input=b"hi there\n", capture_output=True, timeout=30)
        except subprocess.TimeoutExpired:
            return {"case": c, "what": "interpreter with piped stdin did not finish within 30 s"}
        ok = b"GOT 'hi there\\n'" in p.stdout
        return None if ok else {"case": c, "what": {"stdout": p.stdout[-200:].decode("utf-8", "replace"),
                                                    "stderr": p.stderr[-300:].decode("utf-8", "replace")}}
    elif kind == "respond-after-eof":
        # the input stream is exhausted at once (child stdin closed); the watcher answers a later prompt
        kw["in_stream"] = io.StringIO("")
        kw["watchers"] = [Responder(pattern=r"Q\?", response="yes\n")]
        cmd = [sys.executable, "-u", "-c",
               "import sys,time; time.sleep(0.6); print('Q?'); x=sys.stdin.readline(); print('got', repr(x))"]
    elif kind == "respond-no-newline":
        kw["in_stream"] = False
        kw["watchers"] = [Responder(pattern=r"Q\?", response="yes")]
        cmd = [sys.executable, "-u", "-c", "import sys; print('Q?'); x=sys.stdin.read(3); print('got', x)"]
    elif kind == "open-pipe":
        rfd, wfd = os.pipe()
        os.write(wfd, b"abc")                     # write end stays open: no EOF on the input stream
        kw["in_stream"] = os.fdopen(rfd, "r") if c["buffered"] else os.fdopen(rfd, "rb", 0)
        cmd = "head -c 1; head -c 2"         # prints the first character as soon as it arrives
    elif kind == "pty-head":
        kw["in_stream"] = io.StringIO(c["text"])
        kw["pty"] = True
        cmd = "head -n1"
    r = rc.run_real(cmd, bound=(3.0 if c.get("buffered") else 12.0) if kind in ("respond-no-newline", "open-pipe")
                    else 12.0 if kind in ("pipe-eof", "idle-pipe", "async-cat") else 30.0, **kw)
    if kind in ("pipe-eof", "idle-pipe"):
        if kind == "idle-pipe":
            os.close(wfd)
        try:
            kw["in_stream"].close()
        except OSError:
            pass
    if kind == "open-pipe":
        os.close(wfd)
        try:
            kw["in_stream"].close()
        except OSError:
            pass
    case = {k: (v if len(str(v)) < 60 else str(v)[:60] + "...") for k, v in c.items()}
    if r["hang"] and kind == "open-pipe" and c["buffered"] and (r["stdout"] or "") == "a":
        return {"case": case, "finding": "F-C13b",
                "what": "3 characters available on a buffered text input stream over an open pipe: only the first "
                        "read is forwarded, the rest sits in the TextIOWrapper buffer while select() reports the "
                        "descriptor not ready; head -c 3 never completes"}
    if kind == "respond-after-eof":
        if r["outcome"] == "Result":
            return None
        if r["outcome"] == "ThreadException" and "ValueError" in (r.get("thread_excs") or []):
            return {"case": case, "finding": "F-C12d",
                    "what": "input at EOF closed the child's stdin; the watcher's later response raised ValueError "
                            "(closed file) in the stdout worker: ThreadException"}
        return {"case": case, "what": "outcome %s %s" % (r["outcome"], r.get("thread_excs"))}
    if r["hang"]:
        return {"case": case, "what": "run() did not end in time (child never got its input / EOF?): %s" % r["hang_what"]}
    if r["outcome"] != "Result":
        return {"case": case, "what": "unexpected outcome %s" % r["outcome"]}
    out = r["stdout"]
    if kind == "cat":
        if out == c["text"]:
            return None
        if c["mode"] == "bytes":
            per_byte = "".join(bytes([b]).decode("utf-8", "replace") for b in c["text"].encode())
            if out == per_byte:
                return {"case": case, "finding": "F-C13",
                        "what": "byte-mode input stream: multi-byte character forwarded as U+FFFD per byte"}
        return {"case": case, "what": {"want": c["text"][:80], "got": out[:80], "got_len": len(out)}}
    if kind == "wc":
        want = str(len(c["text"].encode()))
        return None if out.strip() == want else {"case": case, "what": {"want": want, "got": out.strip()}}
    if kind == "head":
        return None if out == c["text"][:5] else {"case": case, "what": {"want": c["text"][:5], "got": out[:40]}}
    if kind == "pipe-eof":
        return None if out == "hi\n" else {"case": case, "what": {"want": "hi\n", "got": out}}
    if kind == "idle-pipe":
        return None if r["elapsed"] < 8 else {"case": case, "what": "took %.1fs" % r["elapsed"]}
    if kind == "async-cat":
        return None if out == "abc\n" else {"case": case, "what": {"want": "abc\n", "got": out}}
    if kind in ("respond", "respond-no-newline"):
        return None if "got yes" in out else {"case": case, "what": {"got": out}}
    if kind == "open-pipe":
        return None if out == "abc" else {"case": case, "what": {"want": "abc", "got": out}}
    if kind == "pty-head":
        return None if out.count("abc") >= 1 and r["exited"] == 0 else {"case": case, "what": {"got": out}}


TTY_HELPER = r"""
import sys
sys.path.insert(0, %r)
from invoke import Context
Context().run("cat > %s", hide=True, echo_stdin=False, encoding="utf-8")
"""


def tty_multibyte_case(c):
    """helper interpreter under pty.fork (its sys.stdin is a real terminal); the harness types a 2-byte
    character: it must reach the command without waiting for the next key press"""
    import pty
    import select
    import tempfile
    import time
    fd, path = tempfile.mkstemp(prefix="c13-tty-", dir=core.BUILD)
    os.close(fd)
    pid, master = pty.fork()
    if pid == 0:
        try:
            os.execv(sys.executable, [sys.executable, "-c", TTY_HELPER % (core.REPO, path)])
        finally:
            os._exit(97)

    def pump(sec):
        end = time.time() + sec
        while time.time() < end:
            r, _, _ = select.select([master], [], [], 0.05)
            if r:
                try:
                    os.read(master, 4096)
                except OSError:
                    return
    try:
        # wait until the helper has switched the terminal to cbreak (ICANON off), at most 15 s
        import termios
        t0 = time.time()
        while time.time() - t0 < 15:
            pump(0.1)
            try:
                if not (termios.tcgetattr(master)[3] & termios.ICANON):
                    break
            except termios.error:
                break
        pump(0.3)
        os.write(master, "\u00e9".encode())
        pump(2.0)
        first = open(path, "rb").read()
        os.write(master, b"x")
        pump(1.5)
        second = open(path, "rb").read()
    finally:
        try:
            os.kill(pid, 9)
            os.waitpid(pid, 0)
        except OSError:
            pass
        os.close(master)
        os.unlink(path)
    if first == "\u00e9".encode():
        return None
    if first == b"" and second == "\u00e9x".encode():
        return {"case": c, "finding": "F-C13d",
                "what": "2 s after a 2-byte character was typed the command had received nothing; it arrived "
                        "together with the next key press"}
    return {"case": c, "what": {"after_char": first.hex(" "), "after_next_key": second.hex(" ")}}


PROP = C13()
