"""C12: auto-responses depend on the output text, not on how it was chunked.

A case = configured watchers (run.watchers) + per-call watchers (or none) + one or
two successive calls reusing the same watcher objects / list, each with a schedule
of reads [(stream, chunk), ...], run options (warn, hide) + how the watchers are
driven:
  direct : the real Responder/FailingResponder objects, one worker thread per
           stream (thread-local state), the harness plays Runner.respond's loop;
  run    : the real Runner.run / _handle_output / respond through a scripted
           Runner subclass whose read_proc_stdout/stderr hand out the chunks in
           schedule order (every read gated), recording the bytes that reach
           _write_proc_stdin and the exception out of run();
  sudo   : the same runner through Context._sudo (its own FailingResponder with the
           per-call or configured password, Failure -> AuthFailure).
extra_checks: a few real Local runs (pipes and pty) of a shell script that prompts,
reads the answers from its stdin and reports them (labelled tests).
"""
import contextlib
import io
import itertools
import queue
import re
import threading

from .. import coqterm as ct
from ..core import Prop

ALPHA = "ab\n"
SENTINEL = "Sorry, try again.\n"

# patterns as token lists: ["l", c] literal, ["any"], ["in", chars], ["notin", chars]


def L(s):
    return [["l", c] for c in s]


POOL = [
    L("a"), L("ab"), L("aa"), L("aba"),
    [["l", "a"], ["any"]],
    [["in", "ab"], ["l", "b"]],
    [["notin", "a"]],
    [["any"], ["l", "\n"]],
    L("b\n"),
    [["l", "b"], ["notin", "b"]],
    L("\r\n"),
    [["any"], ["l", "\r"]],
    L("B"),
]
SENTINELS = [L("b"), L("bb"), L("\n"), L("ba"), [["l", "b"], ["any"]]]


def regex(toks):
    out = []
    for t in toks:
        if t[0] == "l":
            out.append(re.escape(t[1]))
        elif t[0] == "any":
            out.append(".")
        elif t[0] == "in":
            out.append("[" + "".join(re.escape(c) for c in t[1]) + "]")
        else:
            out.append("[^" + "".join(re.escape(c) for c in t[1]) + "]")
    return "".join(out)


def ch(c):
    return "(ascii_of_nat %d)" % ord(c)


def pat_term(toks):
    items = []
    for t in toks:
        if t[0] == "l":
            items.append("CLit %s" % ch(t[1]))
        elif t[0] == "any":
            items.append("CAny")
        elif t[0] == "in":
            items.append("COneOf %s" % ct.lst([ch(c) for c in t[1]]))
        else:
            items.append("CNoneOf %s" % ct.lst([ch(c) for c in t[1]]))
    return ct.lst(items)


def cs(x):
    """Coq [string] with one character per code point (all below 256): decoded text of the
    Latin-1 range, or a byte chunk; ct.s would print the UTF-8 bytes of a non-ASCII character"""
    if all(32 <= ord(c) <= 126 for c in x):
        return ct.s(x)
    assert all(ord(c) < 256 for c in x), x
    return "(str_of_codes [" + ";".join(str(ord(c)) for c in x) + "])"


def watcher_term(w):
    if w["kind"] == "resp":
        return "WResp %s %s" % (pat_term(w["pattern"]), ct.s(w["response"]))
    return "WFail %s %s %s" % (pat_term(w["pattern"]), ct.s(w["response"]), pat_term(w["sentinel"]))


def compositions(s):
    """all ways of cutting s into non-empty consecutive chunks"""
    n = len(s)
    if n == 0:
        yield []
        return
    for mask in range(1 << (n - 1)):
        out, cur = [], s[0]
        for i in range(1, n):
            if mask >> (i - 1) & 1:
                out.append(cur)
                cur = s[i]
            else:
                cur += s[i]
        out.append(cur)
        yield out


def random_split(rng, s):
    if not s:
        return []
    out, cur = [], s[0]
    for c in s[1:]:
        if rng.random() < 0.45:
            out.append(cur)
            cur = c
        else:
            cur += c
    out.append(cur)
    return out


def interleave(rng, a, b):
    """random interleaving of two chunk lists, tagged 0/1"""
    a = [(0, c) for c in a]
    b = [(1, c) for c in b]
    out = []
    while a or b:
        if a and (not b or rng.random() < 0.5):
            out.append(a.pop(0))
        else:
            out.append(b.pop(0))
    return [[s, c] for s, c in out]


# --------------------------------------------------------------------------
# drivers of the real code
# --------------------------------------------------------------------------
def norm(case):
    """accept the first-generation case format (one call, no configured watchers)"""
    if "calls" in case:
        return case
    c = {"how": case["how"], "cfg_watchers": [], "watchers": case.get("watchers"),
         "sudo": None, "opts": {}, "calls": [case["sched"]]}
    if case.get("sudo"):
        c["sudo"] = {"prompt": case["sudo"]["prompt"], "password": case["sudo"].get("password")}
    return c


def make_watchers(specs):
    from invoke.watchers import FailingResponder, Responder
    ws = []
    for w in specs:
        if w["kind"] == "resp":
            ws.append(Responder(regex(w["pattern"]), w["response"]))
        else:
            ws.append(FailingResponder(regex(w["pattern"]), w["response"], regex(w["sentinel"])))
    return ws


def drive_direct(ws, sched):
    """the watcher objects themselves; one worker thread per stream (new threads for
    every call) so that the threading.local state is exercised as in a real run"""
    from invoke.exceptions import ResponseNotAccepted
    inq = {0: queue.Queue(), 1: queue.Queue()}
    outq = queue.Queue()

    def worker(sid):
        buf = []
        while True:
            item = inq[sid].get()
            if item is None:
                return
            buf.append(item)
            stream = "".join(buf)
            out = []
            try:
                for w in ws:
                    for r in w.submit(stream):
                        out.append(r)
            except ResponseNotAccepted:
                outq.put((out, "ResponseNotAccepted"))
                continue
            except Exception as e:  # anything else is reported as such
                outq.put((out, type(e).__name__))
                continue
            outq.put((out, None))

    threads = {sid: threading.Thread(target=worker, args=(sid,), daemon=True)
               for sid in sorted({s for s, _ in sched})}
    for t in threads.values():
        t.start()
    writes, dead, died_at, exc = [], [False, False], [None, None], None
    for i, (sid, chunk) in enumerate(sched):
        if dead[sid]:
            writes.append([])
            continue
        inq[sid].put(chunk)
        out, err = outq.get(timeout=30)
        writes.append(out)
        if err is not None:
            dead[sid] = True
            died_at[sid] = i
            if exc is None or err != "ResponseNotAccepted":
                exc = err
    for sid in threads:
        inq[sid].put(None)
    for t in threads.values():
        t.join(5)
    return {"writes": writes, "raised": dead, "exc": exc, "died_at": died_at}


_RUNNER = {}


def scripted_runner_class():
    """Runner subclass defined lazily (needs invoke importable)."""
    if "cls" in _RUNNER:
        return _RUNNER["cls"]
    from invoke.runners import Runner

    class Scripted(Runner):
        input_sleep = 0.0002

        def __init__(self, ctx, schedule):
            super().__init__(ctx)
            self.schedule = schedule
            self.ptr = 0            # next event to hand out
            self.inflight = None    # index of the event being processed
            self.cv = threading.Condition()
            self.log = []           # (event index, text written to child stdin)
            self.delivered = [[], []]
            self.started = []
            self.stdin_closed = threading.Event()
            self.wait_for_close = False
            self.raw = False        # chunks are byte strings (one character = one byte)

        def start(self, command, shell, env, timeout=None):
            self.started.append(command)

        def _thread_of(self, sid):
            tgt = self.handle_stdout if sid == 0 else self.handle_stderr
            return getattr(self, "threads", {}).get(tgt)

        def _stream_dead(self, sid):
            t = self._thread_of(sid)
            return t is not None and t.ident is not None and not t.is_alive()

        def _read(self, sid):
            if self.wait_for_close:
                # input stream at EOF: let the stdin worker close the child's stdin first
                self.stdin_closed.wait(5)
            with self.cv:
                if self.inflight is not None and self.schedule[self.inflight][0] == sid:
                    self.inflight = None
                    self.cv.notify_all()
                while True:
                    if self.inflight is not None:
                        if self._stream_dead(self.schedule[self.inflight][0]):
                            self.inflight = None
                            self.cv.notify_all()
                            continue
                    else:
                        while self.ptr < len(self.schedule) and self._stream_dead(self.schedule[self.ptr][0]):
                            self.ptr += 1
                            self.cv.notify_all()
                        if not any(s == sid for s, _ in self.schedule[self.ptr:]):
                            return b""
                        if self.schedule[self.ptr][0] == sid:
                            idx = self.ptr
                            self.ptr += 1
                            self.inflight = idx
                            self.delivered[sid].append(idx)
                            return self.schedule[idx][1].encode("latin-1" if self.raw else "utf-8")
                    self.cv.wait(0.0005)

        def read_proc_stdout(self, num_bytes):
            return self._read(0)

        def read_proc_stderr(self, num_bytes):
            return self._read(1)

        def _write_proc_stdin(self, data):
            if self.stdin_closed.is_set():
                raise ValueError("write to closed file")     # what a closed pipe object does
            self.log.append((self.inflight, data.decode()))

        def close_proc_stdin(self):
            self.stdin_closed.set()

        @property
        def process_is_finished(self):
            return self.ptr >= len(self.schedule)

        def returncode(self):
            return 0

        @property
        def timed_out(self):
            return False

    _RUNNER["cls"] = Scripted
    return Scripted


def drive_runner(ctx, kw_list, case, sched):
    """one call of Runner.run / Context._sudo on the shared Context / watcher list"""
    from invoke.exceptions import ResponseNotAccepted
    Scripted = scripted_runner_class()
    sched = [(s, c) for s, c in sched]
    sudo = case.get("sudo")
    opts = case.get("opts") or {}
    r = Scripted(ctx, sched)
    r.wait_for_close = bool(case.get("eof"))
    r.raw = bool(case.get("bytes"))
    kwargs = {"in_stream": io.StringIO("") if case.get("eof") else False, "hide": opts.get("hide", True)}
    if r.raw:
        kwargs["encoding"] = "utf-8"
    if "warn" in opts:
        kwargs["warn"] = opts["warn"]
    if kw_list is not None:
        kwargs["watchers"] = kw_list
    elif case.get("kw_none"):
        kwargs["watchers"] = None       # explicit None = not given (run, and sudo since 2644606)
    if sudo and "kw_password" in sudo:
        kwargs["password"] = sudo["kw_password"]
    exc = None
    with contextlib.redirect_stdout(io.StringIO()), contextlib.redirect_stderr(io.StringIO()):
        try:
            if sudo:
                ctx._sudo(r, "x", **kwargs)
            else:
                r.run("x", **kwargs)
        except Exception as e:
            exc = type(e).__name__
    for t in getattr(r, "threads", {}).values():
        t.join(10)
    writes = [[] for _ in sched]
    for idx, text in r.log:
        if idx is None:
            exc = "write-outside-read"
        else:
            writes[idx].append(text)
    raised, died_at = [False, False], [None, None]
    for sid in (0, 1):
        t = r._thread_of(sid)
        if t is not None:
            w = t.exception()
            if w is not None:
                if isinstance(w.value, ResponseNotAccepted):
                    raised[sid] = True
                    died_at[sid] = r.delivered[sid][-1] if r.delivered[sid] else None
                elif exc is None:
                    exc = "thread:" + type(w.value).__name__
    return {"writes": writes, "raised": raised, "exc": exc, "died_at": died_at}


def run_case(case):
    case = norm(case)
    cfg_objs = make_watchers(case["cfg_watchers"])
    kw_list = make_watchers(case["watchers"]) if case["watchers"] is not None else None
    out = []
    if case["how"] == "direct":
        ws = kw_list if kw_list is not None else cfg_objs
        for sched in case["calls"]:
            out.append(drive_direct(ws, sched))
        return out
    from invoke import Config, Context
    over = {"run": {"watchers": cfg_objs}}
    if case.get("sudo"):
        over["sudo"] = {"password": case["sudo"].get("password"), "prompt": case["sudo"]["prompt"]}
    ctx = Context(Config(overrides=over))
    for sched in case["calls"]:
        out.append(drive_runner(ctx, kw_list, case, sched))
    return out


# --------------------------------------------------------------------------
# independent reference used only for finding signatures / classification
# --------------------------------------------------------------------------
def all_watchers(case):
    case = norm(case)
    ws = list(case["watchers"] if case["watchers"] is not None else case["cfg_watchers"])
    su = case.get("sudo")
    if su:
        pw = su["kw_password"] if "kw_password" in su else su.get("password")
        ws.append({"kind": "fail", "pattern": L(su["prompt"]),
                   "response": "%s\n" % (pw,), "sentinel": L(SENTINEL)})
    return ws


def text_sched(sched):
    """reference for a schedule of BYTE reads (UTF-8; a chunk is a str with one character per
    byte): per stream, the whole characters each read completes -- python's own incremental
    decoder, one per stream, nothing from invoke"""
    import codecs
    dec = {0: codecs.getincrementaldecoder("utf-8")("replace"),
           1: codecs.getincrementaldecoder("utf-8")("replace")}
    return [[sid, dec[sid].decode(c.encode("latin-1"))] for sid, c in sched]


def tcalls(case):
    """the calls of a (normalised) case as schedules of TEXT reads"""
    if case.get("bytes"):
        return [text_sched(sched) for sched in case["calls"]]
    return case["calls"]


def valid_bytes(case):
    """byte cases stay inside the modelled region: every stream's bytes are well-formed UTF-8
    (so nothing is held back at EOF and nothing is replaced) of code points below 256"""
    if not case.get("bytes"):
        return True
    for sched in case["calls"]:
        for sid in (0, 1):
            raw = "".join(c for s_, c in sched if s_ == sid)
            try:
                t = raw.encode("latin-1").decode("utf-8")
            except (UnicodeDecodeError, UnicodeEncodeError):
                return False
            if any(ord(x) > 255 for x in t):
                return False
    return True


def stream_reads(sched, sid):
    return [(i, c) for i, (s, c) in enumerate(sched) if s == sid]


def spans(toks, text):
    return [(m.start(), m.end()) for m in re.finditer(regex(toks), text, re.S)]


def sig_straddle(case, obs=None):
    """(region of the former F-C12a) for some pattern or sentinel, an occurrence of
    the whole-text scan is completed in a read and another occurrence straddles the
    end of that same read."""
    case = norm(case)
    pats = []
    for w in all_watchers(case):
        pats.append(w["pattern"])
        if w["kind"] == "fail":
            pats.append(w["sentinel"])
    for sched in tcalls(case):
        for sid in (0, 1):
            reads = stream_reads(sched, sid)
            if not reads:
                continue
            text = "".join(c for _, c in reads)
            for toks in pats:
                sp = spans(toks, text)
                lo = 0
                for idx, c in reads:
                    hi = lo + len(c)
                    if any(lo < e <= hi for _, e in sp) and any(s < hi < e for s, e in sp):
                        return True
                    lo = hi
    return False


def cut_info(case):
    """(some read ends inside a character, ... and the OTHER stream delivers a read before the
    rest of that character arrives)"""
    import codecs
    cut = across = False
    for sched in case["calls"]:
        dec = {0: codecs.getincrementaldecoder("utf-8")("replace"),
               1: codecs.getincrementaldecoder("utf-8")("replace")}
        for i, (sid, c) in enumerate(sched):
            dec[sid].decode(c.encode("latin-1"))
            if dec[sid].getstate()[0]:
                cut = True
                if i + 1 < len(sched) and sched[i + 1][0] != sid:
                    across = True
    return cut, across


# ---- output delivered as UTF-8 bytes, reads cut anywhere (also inside a character) --------
def enc(t):
    """text -> its UTF-8 bytes as a str with one character per byte"""
    return t.encode("utf-8").decode("latin-1")


MB_POOL = [
    L("\u00ed"), L("a\u00ed"), L("\u00eda"), L("\u00ed\u00ed"), L("\u00ed?"), L("\u00bfa"),
    [["l", "\u00ed"], ["any"]], [["any"], ["l", "\u00ed"]], [["in", "\u00ed\u00e9"], ["l", "b"]],
    [["notin", "\u00ed"]], [["notin", "a"], ["l", "a"]], L("\u00e9"), L("a"), [["any"], ["any"]],
]
MB_SENTINELS = [L("\u00e9"), L("b"), L("x"), L("\u00edb"), [["l", "\u00ed"], ["any"]]]


def merges(a, b):
    """all interleavings of two tagged chunk lists (order within each kept)"""
    if not a:
        yield list(b)
        return
    if not b:
        yield list(a)
        return
    for m in merges(a[1:], b):
        yield [a[0]] + m
    for m in merges(a, b[1:]):
        yield [b[0]] + m


_FAMILY = {}


def bytes_family(tier):
    """the systematic part: a short text with two-byte characters on one stream, every cut of
    its BYTES into <= 3 reads with at least one cut inside a character, a second stream that is
    silent / delivers ASCII / delivers a character of its own (whole or itself cut in two),
    every interleaving of the two streams' reads, either stream in either role, every pattern
    of MB_POOL occurring in one of the two texts"""
    if tier in _FAMILY:
        return _FAMILY[tier]
    nmax, alpha = (3, "a\u00ed\u00e9") if tier == "thorough" else (3, "a\u00ed")
    texts = ["".join(t) for n in range(1, nmax + 1) for t in itertools.product(alpha, repeat=n)
             if any(ord(x) > 127 for x in t)]
    texts += ["\u00bfa", "a\u00e9?", "\u00ed\u00e9", "\u00ed?\u00ed?"]
    e, ai = enc("\u00e9"), enc("a\u00ed")
    others = [("", []), ("x", ["x"]), ("a", ["a"]), ("\u00e9", [e]), ("\u00e9", [e[:1], e[1:]]),
              ("a\u00edb", [ai[:2], ai[2:] + "b"]), ("\u00ed", [enc("\u00ed")])]
    out = []
    for t in texts:
        raw = enc(t)
        bounds = set()
        k = 0
        for x in t:
            k += len(enc(x))
            bounds.add(k)
        for comp in compositions(raw):
            if len(comp) > 3:
                continue
            k, inside = 0, False
            for c in comp[:-1]:
                k += len(c)
                inside = inside or k not in bounds
            if not inside:
                continue
            for otext, ochunks in others:
                pats = [q for q in MB_POOL if re.search(regex(q), t, re.S) or re.search(regex(q), otext, re.S)]
                for m in merges([[0, c] for c in comp], [[1, c] for c in ochunks]):
                    for swap in (0, 1):
                        sched = [[sid ^ swap, c] for sid, c in m]
                        for q in pats:
                            out.append({"how": "run", "bytes": True, "cfg_watchers": [],
                                        "watchers": [{"kind": "resp", "pattern": q, "response": "y"}],
                                        "sudo": None, "opts": {}, "calls": [sched]})
    _FAMILY[tier] = out
    return out


EXN = {"ResponseNotAccepted": "XResponseNotAccepted", "Failure": "XFailure", "AuthFailure": "XAuthFailure",
       "ThreadException": "XThreadException"}
VIA = {"direct": "Direct", "run": "ViaRun", "sudo": "ViaSudo"}
RESPONSES = ["y", "n\n", "pw\n"]


def chosen_cuts(rng, text, k=3):
    """a few chunkings of a long text: whole, and random cut sets"""
    yield [text]
    for _ in range(k):
        n = rng.choice([1, 2, 3])
        cuts = sorted(set(rng.randrange(1, len(text)) for _ in range(n)))
        out, last = [], 0
        for c in cuts:
            out.append(text[last:c])
            last = c
        out.append(text[last:])
        yield out


class C12(Prop):
    id = "C12"
    corr_module = "Corr.C12Corr"
    quick_n = 2300
    thorough_n = 15000
    shard_size = 400
    rule = ("texts over {a, b, newline} plus, with lower weight, carriage return (CRLF cut between CR and LF) "
            "and an upper-case letter (length <= 7), random compositions into reads, 1-2 streams randomly "
            "interleaved, 1-3 watchers from a pool of 13 fixed-length patterns (literals incl. "
            "self-overlapping, '.', classes, negated classes, newline / CRLF spans), 35% FailingResponder; "
            "watchers given per call, configured under run.watchers, or both; 1-2 successive calls reusing "
            "the same watcher objects and list; warn / hide varied; sudo with configured and per-call "
            "password; long texts (600-1100 filler characters around the occurrences) with a few chosen "
            "cuts; driven through the watcher objects, Runner.run and Context.sudo.  non-trivial = some "
            "watcher pattern occurs in a stream's text and that stream has >= 2 reads.  thorough adds every "
            "composition of every text of length <= 6 over {a,b,newline} (and every 81st of length 7) x the "
            "patterns occurring in it, every composition of length <= 5 over {a, CR, LF}, and length <= 4 x 4 "
            "failing pairs.  BYTE family (about an eighth of a quick run): the output handed to the runner as "
            "UTF-8 bytes of texts with two-byte characters (U+0080..U+00FF), reads cut at every byte position "
            "-- also inside a character -- on one stream while the other stream is silent, delivers ASCII or "
            "delivers a (cut) character of its own in between, every interleaving of the two readers, either "
            "stream in either role, 14 patterns with and without non-ASCII characters, responders and "
            "failing responders, run and sudo; a systematic part (sampled: 280 quick / 2500 thorough) plus "
            "random members (6% of the random cases)")
    trusted_base = [
        "Coq 8.16.1 kernel + vm_compute (shard evaluation, witnesses)",
        "hand-written models coq/Model/RegexFam.v (re.findall on the fixed-length family; checked against the "
        "real re module in every case) and coq/Model/WatchModel.v, tied to invoke/watchers.py + "
        "Runner.respond/_handle_output + Context._sudo by differential execution (this run)",
        "harness/props/c12.py: scripted Runner subclass (gated reads), canonicaliser, term printer",
        "CPython 3.12 executing /repo",
    ]
    assumptions = [
        "patterns are non-empty fixed-length sequences of character classes (literals, '.', [..], [^..]); "
        "variable-length patterns are outside the family (no online responder can be chunk independent for them)",
        "reads are delivered one at a time (the schedule is a total order of reads; true thread preemption "
        "inside Runner.respond is not modelled)",
        "byte family: every stream's bytes are well-formed UTF-8 of code points below 256 (the watcher model has "
        "8-bit characters); ill-formed bytes, a stream ending inside a character (U+FFFD from the flush at EOF) "
        "and other encodings are C02's business",
        "real-pipe delivery (extra_checks) is tested on a handful of scripts, not proved",
    ]
    not_modelled = ["regex features beyond the family (groups, alternation, repetition, anchors)",
                    "writes to the child's stdin racing between the two IO threads",
                    "user-defined StreamWatcher subclasses",
                    "code points >= 256, replacement characters, the decoder's flush at end of stream"]

    # ---- generation --------------------------------------------------------
    def _watchers(self, rng, nmax=3):
        ws = []
        for _ in range(rng.choice([k for k in [1, 1, 2, 2, 3] if k <= nmax])):
            p = rng.choice(POOL)
            r = rng.choice(RESPONSES)
            if rng.random() < 0.35:
                ws.append({"kind": "fail", "pattern": p, "response": r, "sentinel": rng.choice(SENTINELS)})
            else:
                ws.append({"kind": "resp", "pattern": p, "response": r})
        return ws

    def _text(self, rng, maxlen=7):
        n = min(rng.choice([0, 1, 2, 3, 3, 4, 4, 5, 5, 6, 6, 7, 7]), maxlen)
        alpha = rng.choice(["aabb\na", "aabb\na", "ab\r\n\n\r", "abBb\na"])
        return "".join(rng.choice(alpha) for _ in range(n))

    def _sched(self, rng, two=0.5):
        a = random_split(rng, self._text(rng))
        b = random_split(rng, self._text(rng)) if rng.random() < two else []
        return interleave(rng, a, b)

    def _opts(self, rng):
        o = {}
        if rng.random() < 0.5:
            o["warn"] = rng.choice([True, False])
        if rng.random() < 0.4:
            o["hide"] = rng.choice([False, True, "out", None])
        return o

    def gen_sudo(self, rng):
        prompt = rng.choice(["P:", "ab", "[sudo] pw: "])
        toks = [prompt, SENTINEL, "x", "Sorry", ", try again.\n", prompt[:1], "\n"]

        def sched():
            text = "".join(rng.choice(toks) for _ in range(rng.randint(1, 4)))
            a = random_split(rng, text)
            b = random_split(rng, "".join(rng.choice(toks) for _ in range(rng.randint(0, 2)))) \
                if rng.random() < 0.4 else []
            return interleave(rng, a, b)
        su = {"prompt": prompt, "password": rng.choice(["pw", "pw", None, "cfgpw"])}
        if rng.random() < 0.45:
            su["kw_password"] = rng.choice(["kwpw", "kwpw", None])
        k = rng.random()
        cfg_ws = self._watchers(rng, 1) if k < 0.35 else []
        kw_ws = self._watchers(rng, 1) if 0.2 < k < 0.55 else None
        if cfg_ws and rng.random() < 0.3:
            kw_ws = []                      # an empty list given: the configured ones must NOT apply
        calls = [sched()] + ([sched()] if rng.random() < 0.4 else [])
        return {"how": "sudo", "cfg_watchers": cfg_ws, "watchers": kw_ws, "sudo": su,
                "eof": rng.random() < 0.1,
                "kw_none": kw_ws is None and rng.random() < 0.4,
                "opts": self._opts(rng), "calls": calls}

    def gen_long(self, rng):
        n = rng.choice([600, 1100])
        p = rng.choice([L("ab"), L("aba"), [["l", "a"], ["any"]], L("b\n")])
        occs = ["ab", "aba", "b\n", "abab", "a"]
        text = rng.choice(occs) + "x" * n + rng.choice(occs + [""]) + rng.choice(["", "x" * 40])
        if rng.random() < 0.3:
            prompt = "Password: "
            text = prompt + "x" * n + rng.choice(["", prompt])
            return {"how": "sudo", "cfg_watchers": [], "watchers": None,
                    "sudo": {"prompt": prompt, "password": "pw"}, "opts": {},
                    "calls": [[[0, c] for c in cut] for cut in chosen_cuts(rng, text, 1)]}
        w = {"kind": "resp", "pattern": p, "response": "y"}
        return {"how": rng.choice(["direct", "run"]), "cfg_watchers": [], "watchers": [w], "sudo": None,
                "opts": {}, "calls": [[[0, c] for c in cut] for cut in chosen_cuts(rng, text, 1)]}

    def _mb_watchers(self, rng):
        ws = []
        for _ in range(rng.choice([1, 1, 2])):
            q = rng.choice(MB_POOL + POOL[:6])
            r = rng.choice(RESPONSES)
            if rng.random() < 0.3:
                ws.append({"kind": "fail", "pattern": q, "response": r, "sentinel": rng.choice(MB_SENTINELS)})
            else:
                ws.append({"kind": "resp", "pattern": q, "response": r})
        return ws

    def gen_bytes(self, rng):
        """random member of the byte family: UTF-8 texts with two-byte characters on one or two
        streams, cut at random BYTE positions, randomly interleaved; run or sudo"""
        sudo = None
        if rng.random() < 0.15:
            prompt = rng.choice(["cl\u00e9:", "P\u00ed", "P:"])
            toks = [prompt, SENTINEL, "\u00ed", "x", prompt[:2], "\u00e9"]
            sudo = {"prompt": prompt, "password": "pw"}

            def text():
                return "".join(rng.choice(toks) for _ in range(rng.randint(1, 3)))
        else:
            alpha = rng.choice(["a\u00edb", "a\u00ed\u00e9?", "\u00ed\u00bf\u00ff\n", "ab\u00ed\n", "\u00eda"])

            def text():
                return "".join(rng.choice(alpha) for _ in range(rng.choice([1, 2, 3, 3, 4, 5, 6])))

        def sched(two):
            a = random_split(rng, enc(text()))
            b = random_split(rng, enc(text())) if rng.random() < two else []
            return interleave(rng, a, b)
        calls = [sched(0.75)] + ([sched(0.5)] if rng.random() < 0.2 else [])
        m = rng.random()
        cfg_ws = self._mb_watchers(rng) if m < 0.25 else []
        kw_ws = self._mb_watchers(rng) if (m > 0.15 or sudo) else None
        if sudo and rng.random() < 0.5:
            kw_ws = None
        return {"how": "sudo" if sudo else "run", "bytes": True, "cfg_watchers": cfg_ws, "watchers": kw_ws,
                "sudo": sudo, "opts": self._opts(rng) if rng.random() < 0.3 else {}, "calls": calls}

    def family_sample(self, rng, tier):
        fam = bytes_family(tier)
        k = min(len(fam), 2500 if tier == "thorough" else 280)
        for c in rng.sample(fam, k):
            c = dict(c)
            if rng.random() < 0.25:
                w = c["watchers"][0]
                c["watchers"] = [{"kind": "fail", "pattern": w["pattern"], "response": "y",
                                  "sentinel": rng.choice(MB_SENTINELS)}]
            elif rng.random() < 0.2:
                c["watchers"] = c["watchers"] + [{"kind": "resp", "pattern": rng.choice(MB_POOL), "response": "n\n"}]
            yield c

    def gen_one(self, rng):
        k = rng.random()
        if k > 0.94:
            return self.gen_bytes(rng)
        if k < 0.14:
            return self.gen_sudo(rng)
        if k < 0.17:
            return self.gen_long(rng)
        how = "direct" if k < 0.5 else "run"
        calls = [self._sched(rng)] + ([self._sched(rng, 0.3)] if rng.random() < 0.25 else [])
        if how == "direct":
            return {"how": how, "cfg_watchers": [], "watchers": self._watchers(rng), "sudo": None,
                    "opts": {}, "calls": calls}
        m = rng.random()
        cfg_ws = self._watchers(rng, 2) if m < 0.35 else []
        kw_ws = self._watchers(rng) if m > 0.2 else None
        if rng.random() < 0.04 or (cfg_ws and rng.random() < 0.15):
            kw_ws = []
        return {"how": how, "cfg_watchers": cfg_ws, "watchers": kw_ws, "sudo": None,
                "eof": rng.random() < 0.1,
                "kw_none": kw_ws is None and rng.random() < 0.3,
                "opts": self._opts(rng), "calls": calls}

    def generate(self, rng, tier, n):
        k = 0
        for c in self.family_sample(rng, tier):
            if k >= n // 4:
                break
            k += 1
            yield c
        for _ in range(n - k):
            yield self.gen_one(rng)

    def _single(self, p, comp, kind="resp", sen=None):
        w = {"kind": kind, "pattern": p, "response": "y"}
        if sen is not None:
            w["sentinel"] = sen
        return {"how": "direct", "cfg_watchers": [], "watchers": [w], "sudo": None, "opts": {},
                "calls": [[[0, c] for c in comp]]}

    def enumerate_small(self, tier):
        nmax = 6 if tier == "thorough" else 4
        for n in range(1, nmax + 1):
            for tup in itertools.product(ALPHA, repeat=n):
                s = "".join(tup)
                for comp in compositions(s):
                    if len(comp) < 2 and n > 1:
                        continue
                    for p in POOL:
                        if re.search(regex(p), s, re.S):
                            yield self._single(p, comp)
        if tier == "thorough":
            # length 7: every 27th text, all 64 compositions
            for k, tup in enumerate(itertools.product(ALPHA, repeat=7)):
                if k % 81:
                    continue
                s = "".join(tup)
                for comp in compositions(s):
                    for p in POOL:
                        if re.search(regex(p), s, re.S):
                            yield self._single(p, comp)
        # carriage returns: every composition of every text over {a, CR, LF}
        for n in range(2, (5 if tier == "thorough" else 3) + 1):
            for tup in itertools.product("a\r\n", repeat=n):
                s = "".join(tup)
                if "\r" not in s:
                    continue
                for comp in compositions(s):
                    for p in (L("\r\n"), [["any"], ["l", "\n"]], [["any"], ["l", "\r"]], L("\n"), [["notin", "a"]]):
                        if re.search(regex(p), s, re.S):
                            yield self._single(p, comp)
        # output as UTF-8 bytes: the texts 'aí' / 'í?í?' of the byte family, every member
        want = [enc("a\u00ed"), enc("\u00ed?\u00ed?")] if tier == "thorough" else [enc("a\u00ed")]
        for c in bytes_family("quick"):
            sched = c["calls"][0]
            if any("".join(x for s_, x in sched if s_ == sid) in want for sid in (0, 1)):
                yield c
        fmax = 4 if tier == "thorough" else 3
        pairs = [(L("a"), L("b")), (L("ab"), L("b")), (L("a"), L("ba")), ([["any"]], L("\n"))]
        for n in range(2, fmax + 1):
            for tup in itertools.product(ALPHA, repeat=n):
                s = "".join(tup)
                for comp in compositions(s):
                    for p, sen in pairs:
                        yield self._single(p, comp, "fail", sen)

    # ---- implementation ----------------------------------------------------
    def run_impl(self, case):
        case = norm(case)
        calls = run_case(case)
        occ = []
        seen = set()
        for sched in tcalls(case):
            for sid in (0, 1):
                text = "".join(c for _, c in stream_reads(sched, sid))
                for w in all_watchers(case):
                    for toks in [w["pattern"]] + ([w["sentinel"]] if w["kind"] == "fail" else []):
                        key = (regex(toks), text)
                        if key in seen:
                            continue
                        seen.add(key)
                        occ.append([toks, text, len(re.findall(regex(toks), text, re.S))])
        return {"calls": calls, "occ": occ}

    def to_coq(self, case, obs):
        case = norm(case)
        cfg = ct.lst([watcher_term(w) for w in case["cfg_watchers"]])
        kw = ct.opt(ct.lst([watcher_term(w) for w in case["watchers"]]) if case["watchers"] is not None else None)
        su = case.get("sudo")
        if su:
            sudo = "(Some (mkSudo %s %s %s))" % (
                cs(su["prompt"]), ct.opt(ct.s(su["password"]) if su.get("password") is not None else None),
                ct.opt(ct.opt(ct.s(su["kw_password"]) if su["kw_password"] is not None else None)
                       if "kw_password" in su else None))
        else:
            sudo = "None"
        calls = []
        for sched, o in zip(case["calls"], obs["calls"]):
            calls.append("(mkCall %s %s %s %s)" % (
                ct.lst([ct.pair(ct.b(bool(s)), cs(c)) for s, c in sched]),
                ct.lst([ct.strs(w) for w in o["writes"]]),
                ct.pair(ct.b(o["raised"][0]), ct.b(o["raised"][1])),
                ct.opt(EXN.get(o["exc"], "XOther") if o["exc"] is not None else None)))
        occ = ct.lst([ct.pair(ct.pair(pat_term(t), cs(x)), ct.n(k)) for t, x, k in obs["occ"]])
        return "(mk %s %s %s %s %s %s %s %s)" % (cfg, kw, sudo, VIA[case["how"]], ct.b(bool(case.get("eof"))),
                                                 ct.lst(calls), occ, ct.b(bool(case.get("bytes"))))

    def nontrivial(self, case, obs):
        case = norm(case)
        for sched in tcalls(case):
            for sid in (0, 1):
                reads = stream_reads(sched, sid)
                if len(reads) < 2:
                    continue
                text = "".join(c for _, c in reads)
                if any(re.search(regex(w["pattern"]), text, re.S) for w in all_watchers(case)):
                    return True
        return False

    def classify(self, case, obs):
        case = norm(case)
        streams = max(len({s for s, _ in sched}) for sched in case["calls"])
        kind = "fail" if any(w["kind"] == "fail" for w in all_watchers(case)) else "resp"
        tag = "%s/%dcall/%dstream/%s" % (case["how"], len(case["calls"]), streams, kind)
        if case["cfg_watchers"]:
            tag += "/cfgw"
        if (case.get("opts") or {}).get("warn"):
            tag += "/warn"
        if case.get("eof"):
            tag += "/eof"
        if case.get("bytes"):
            tag += "/bytes"
            cut, across = cut_info(case)
            if cut:
                tag += "/cut-in-char"
            if across:
                tag += "/other-stream-in-between"
        if any(o["exc"] for o in obs["calls"]):
            tag += "/raised"
        if sig_straddle(case):
            tag += "/straddle"
        if any(len(c) > 500 for sched in case["calls"] for _, c in sched):
            tag += "/long"
        return tag

    def finding_of(self, case, obs):
        # F-C12a / F-C12b / F-C12c are fixed in /repo.  F-C12d: the caller's input stream is at
        # EOF and some watcher has something to answer.
        case = norm(case)
        if case.get("eof") and case["how"] != "direct":
            for sched in tcalls(case):
                for sid in (0, 1):
                    text = "".join(c for _, c in stream_reads(sched, sid))
                    if any(re.search(regex(w["pattern"]), text, re.S) for w in all_watchers(case)):
                        return "F-C12d"
        return None

    def shrink_candidates(self, case):
        case = norm(case)
        if case.get("bytes"):
            # the same reads delivered as text: still failing = nothing to do with the bytes
            # (a read that completes no character is no text read at all: an empty read is EOF)
            yield {k: v for k, v in dict(case, calls=[[e for e in sc if e[1] != ""] for sc in tcalls(case)]).items()
                   if k != "bytes"}
        for c in self._shrink_candidates(case):
            if not c.get("bytes") or (c["how"] != "direct" and valid_bytes(c)):
                yield c

    def _shrink_candidates(self, case):
        calls = case["calls"]
        if len(calls) > 1:
            for i in range(len(calls)):
                yield dict(case, calls=calls[:i] + calls[i + 1:])
        for key in ("watchers", "cfg_watchers"):
            ws = case[key]
            if not ws:
                continue
            for i in range(len(ws)):
                yield dict(case, **{key: ws[:i] + ws[i + 1:]})
            for i, w in enumerate(ws):
                if w["kind"] == "fail":
                    yield dict(case, **{key: ws[:i] + [{"kind": "resp", "pattern": w["pattern"],
                                                        "response": w["response"]}] + ws[i + 1:]})
        if case.get("opts"):
            yield dict(case, opts={})
        if case.get("eof"):
            yield dict(case, eof=False)
        if case["how"] == "run" and not case["cfg_watchers"] and case["watchers"] is not None:
            yield dict(case, how="direct", opts={})
        for ci, sched in enumerate(calls):
            def put(new):
                return dict(case, calls=calls[:ci] + [new] + calls[ci + 1:])
            for i in range(len(sched)):
                yield put(sched[:i] + sched[i + 1:])
            for i in range(len(sched)):
                for j in range(i + 1, len(sched)):
                    if sched[j][0] == sched[i][0]:
                        yield put(sched[:i] + [[sched[i][0], sched[i][1] + sched[j][1]]]
                                  + sched[i + 1:j] + sched[j + 1:])
                        break
            for i, (sd, c) in enumerate(sched):
                if len(c) > 40:
                    # long filler: halve runs of x
                    m = re.search("x{20,}", c)
                    if m:
                        half = c[:m.start()] + "x" * ((m.end() - m.start()) // 2) + c[m.end():]
                        yield put(sched[:i] + [[sd, half]] + sched[i + 1:])
                    continue
                for k in range(len(c)):
                    if len(c) > 1:
                        yield put(sched[:i] + [[sd, c[:k] + c[k + 1:]]] + sched[i + 1:])

    def mutate(self, case, rng):
        case = norm(case)
        for _ in range(40):
            c = dict(case)
            new_calls = []
            for sched in case["calls"]:
                texts = {0: "".join(x for s, x in sched if s == 0), 1: "".join(x for s, x in sched if s == 1)}
                if rng.random() < 0.3:
                    texts[rng.choice([0, 1])] += rng.choice(["a", "b", "ab", "\n"])
                if case.get("bytes") and rng.random() < 0.3:
                    texts[rng.choice([0, 1])] += enc(rng.choice(["\u00ed", "a\u00ed", "\u00e9"]))
                new_calls.append(interleave(rng, random_split(rng, texts[0]), random_split(rng, texts[1])))
            c["calls"] = new_calls
            if rng.random() < 0.3 and case["how"] != "sudo":
                c["watchers"] = self._mb_watchers(rng) if case.get("bytes") else self._watchers(rng)
            yield c

    # ---- real pipes ----------------------------------------------------------
    def extra_checks(self, tier, seed):
        return [real_pipe_checks(), group_pattern_checks(tier)]


def real_pipe_checks():
    """TESTS (not proofs): real Local runs; the script prompts, reads answers from its
    stdin, then waits briefly for anything further and reports what it got."""
    from invoke import Config, Context
    from invoke.exceptions import Failure
    from invoke.watchers import FailingResponder, Responder
    tail = "; read -t 0.4 extra; echo \"extra=[$extra]\""
    tests = [
        ("two prompts, two responders",
         "printf 'P1:'; read a; printf 'P2:'; read b; echo \"got=$a,$b\"" + tail,
         lambda: [Responder("P1:", "one\n"), Responder("P2:", "two\n")], "got=one,two", None),
        ("same prompt three times",
         "printf 'P:'; read a; printf 'P:'; read b; printf 'P:'; read c; echo \"got=$a,$b,$c\"" + tail,
         lambda: [Responder("P:", "x\n")], "got=x,x,x", None),
        ("prompt on stderr, then stdout",
         "printf 'E:' >&2; read a; printf 'O:'; read b; echo \"got=$a,$b\"" + tail,
         lambda: [Responder("E:", "e\n"), Responder("O:", "o\n")], "got=e,o", None),
        ("two occurrences in one write",
         "printf 'P:P:'; read a; read b; echo \"got=$a,$b\"" + tail,
         lambda: [Responder("P:", "x\n")], "got=x,x", None),
        ("prompt written in two pieces",
         "printf 'Pass'; sleep 0.2; printf 'word:'; read a; echo \"got=$a\"" + tail,
         lambda: [Responder("Password:", "s3\n")], "got=s3", None),
        ("optional capturing group absent, then present",
         "printf 'password:'; read a; printf 'password for bob:'; read b; echo \"got=$a,$b\"" + tail,
         lambda: [Responder(r"password( for \w+)?:", "s\n")], "got=s,s", None),
        ("failing responder, sentinel after the answer",
         "printf 'P:'; read a; echo 'Sorry'; read -t 0.5 b; echo end",
         lambda: [FailingResponder("P:", "pw\n", "Sorry")], None, "Failure"),
        ("failing responder, warn=True",
         "printf 'P:'; read a; echo 'Sorry'; read -t 0.5 b; echo end",
         lambda: [FailingResponder("P:", "pw\n", "Sorry")], None, "Failure:warn"),
    ]
    failures, n = [], 0
    for pty in (False, True):
        for name, script, mk, want, wantexc in tests:
            if pty and "stderr" in name:
                continue
            n += 1
            c = Context(Config())
            kw = {"warn": True} if wantexc == "Failure:warn" else {}
            try:
                r = c.run(script, watchers=mk(), hide=True, in_stream=False, pty=pty, timeout=20, **kw)
                got_exc, out = None, r.stdout
            except Failure as e:
                got_exc, out = "Failure", e.result.stdout
            except Exception as e:  # anything else
                got_exc, out = type(e).__name__, ""
            ok = (got_exc == (wantexc.split(":")[0] if wantexc else None))
            if ok and want is not None:
                ok = want in out and "extra=[]" in out
            if not ok:
                failures.append({"case": {"test": name, "pty": pty, "script": script},
                                 "what": {"exception": got_exc, "stdout": out[-300:], "wanted": want or wantexc}})
    # the caller's input stream at EOF (F-C12d): the answer has to arrive all the same
    import io as _io
    for pty in (False, True):
        n += 1
        c = Context(Config())
        try:
            r = c.run("sleep 0.2; printf 'P:'; read -t 2 a; echo \"got=$a\"", watchers=[Responder("P:", "x\n")],
                      hide=True, in_stream=_io.StringIO(""), pty=pty, timeout=20)
            got_exc, out = None, r.stdout
        except Exception as e:
            got_exc, out = type(e).__name__, ""
        if got_exc or "got=x" not in out:
            failures.append({"finding": "F-C12d" if not pty else None,
                             "case": {"test": "input stream at EOF, prompt answered later", "pty": pty},
                             "what": {"exception": got_exc, "stdout": out[-200:], "wanted": "got=x"}})
    return {"name": "real-pipe", "evaluations": n, "failures": failures,
            "note": "TEST on real Local runs (pipes and pty): every answer reaches the child's stdin once, "
                    "in order, nothing further arrives; a failing responder fails the run for every warn"}


GROUP_PATTERNS = [r"pw( for \w+)?:", r"(a)(b)?:", r"P(:)", r"(x|yy):", r"a()b"]
GROUP_TEXTS = ["pw:", "pw for al:pw:", "a:ab:", "xa:b:ab:", "P:P:", "x:yy:y:", "abab", "pw for :pw::"]


def group_pattern_checks(tier):
    """TEST: patterns with capturing / optional groups (outside the proved family: for them
    re.findall returns group texts, possibly empty).  Every occurrence -- counted with
    re.finditer on the whole text -- is answered exactly once, however the text is cut;
    all the patterns end in a mandatory character, so no occurrence is a prefix of another."""
    from invoke.watchers import Responder
    failures, n = [], 0
    for pat in GROUP_PATTERNS:
        for text in GROUP_TEXTS:
            want = len(list(re.finditer(pat, text, re.S)))
            comps = list(compositions(text)) if len(text) <= (10 if tier == "thorough" else 7) else \
                [[text], list(text), [text[:len(text) // 2], text[len(text) // 2:]]]
            for comp in comps:
                n += 1
                w = Responder(pat, "y")
                buf, got = "", 0
                for c in comp:
                    buf += c
                    got += len(list(w.submit(buf)))
                if got != want:
                    failures.append({"case": {"pattern": pat, "reads": comp}, "what": {"answers": got, "occurrences": want}})
                    break
    return {"name": "group-patterns", "evaluations": n, "failures": failures[:5],
            "note": "TEST: Responder with capturing/optional-group patterns answers each re.finditer occurrence "
                    "of the whole text exactly once under every cut tried"}


PROP = C12()
