"""C12: auto-responses depend on the output text, not on how it was chunked.

A case = watchers + a schedule of reads [(stream, chunk), ...] + how the watchers
are driven:
  direct : the real Responder/FailingResponder objects, one worker thread per
           stream (thread-local state), the harness plays Runner.respond's loop;
  run    : the real Runner.run / _handle_output / respond through a scripted
           Runner subclass whose read_proc_stdout/stderr hand out the chunks in
           schedule order (every read gated), recording the bytes that reach
           _write_proc_stdin and the exception out of run();
  sudo   : the same runner through Context._sudo (its own FailingResponder,
           Failure -> AuthFailure).
"""
import itertools
import queue
import re
import threading

from .. import coqterm as ct
from ..core import Prop

ALPHA = "ab\n"
SENTINEL = "Sorry, try again.\n"

# patterns as token lists: ["l", c] literal, ["any"], ["in", chars], ["notin", chars]


def L(s):
    return [["l", c] for c in s]


POOL = [
    L("a"), L("ab"), L("aa"), L("aba"),
    [["l", "a"], ["any"]],
    [["in", "ab"], ["l", "b"]],
    [["notin", "a"]],
    [["any"], ["l", "\n"]],
    L("b\n"),
    [["l", "b"], ["notin", "b"]],
]
SENTINELS = [L("b"), L("bb"), L("\n"), L("ba"), [["l", "b"], ["any"]]]


def regex(toks):
    out = []
    for t in toks:
        if t[0] == "l":
            out.append(re.escape(t[1]))
        elif t[0] == "any":
            out.append(".")
        elif t[0] == "in":
            out.append("[" + "".join(re.escape(c) for c in t[1]) + "]")
        else:
            out.append("[^" + "".join(re.escape(c) for c in t[1]) + "]")
    return "".join(out)


def ch(c):
    return "(ascii_of_nat %d)" % ord(c)


def pat_term(toks):
    items = []
    for t in toks:
        if t[0] == "l":
            items.append("CLit %s" % ch(t[1]))
        elif t[0] == "any":
            items.append("CAny")
        elif t[0] == "in":
            items.append("COneOf %s" % ct.lst([ch(c) for c in t[1]]))
        else:
            items.append("CNoneOf %s" % ct.lst([ch(c) for c in t[1]]))
    return ct.lst(items)


def watcher_term(w):
    if w["kind"] == "resp":
        return "WResp %s %s" % (pat_term(w["pattern"]), ct.s(w["response"]))
    return "WFail %s %s %s" % (pat_term(w["pattern"]), ct.s(w["response"]), pat_term(w["sentinel"]))


def compositions(s):
    """all ways of cutting s into non-empty consecutive chunks"""
    n = len(s)
    if n == 0:
        yield []
        return
    for mask in range(1 << (n - 1)):
        out, cur = [], s[0]
        for i in range(1, n):
            if mask >> (i - 1) & 1:
                out.append(cur)
                cur = s[i]
            else:
                cur += s[i]
        out.append(cur)
        yield out


def random_split(rng, s):
    if not s:
        return []
    out, cur = [], s[0]
    for c in s[1:]:
        if rng.random() < 0.45:
            out.append(cur)
            cur = c
        else:
            cur += c
    out.append(cur)
    return out


def interleave(rng, a, b):
    """random interleaving of two chunk lists, tagged 0/1"""
    a = [(0, c) for c in a]
    b = [(1, c) for c in b]
    out = []
    while a or b:
        if a and (not b or rng.random() < 0.5):
            out.append(a.pop(0))
        else:
            out.append(b.pop(0))
    return [[s, c] for s, c in out]


# --------------------------------------------------------------------------
# drivers of the real code
# --------------------------------------------------------------------------
def make_watchers(case):
    from invoke.watchers import FailingResponder, Responder
    ws = []
    for w in case["watchers"]:
        if w["kind"] == "resp":
            ws.append(Responder(regex(w["pattern"]), w["response"]))
        else:
            ws.append(FailingResponder(regex(w["pattern"]), w["response"], regex(w["sentinel"])))
    return ws


def drive_direct(case):
    """the watcher objects themselves; one worker thread per stream so that the
    threading.local state is exercised as in a real run"""
    from invoke.exceptions import ResponseNotAccepted
    ws = make_watchers(case)
    sched = case["sched"]
    inq = {0: queue.Queue(), 1: queue.Queue()}
    outq = queue.Queue()

    def worker(sid):
        buf = []
        while True:
            item = inq[sid].get()
            if item is None:
                return
            buf.append(item)
            stream = "".join(buf)
            out = []
            try:
                for w in ws:
                    for r in w.submit(stream):
                        out.append(r)
            except ResponseNotAccepted:
                outq.put((out, "ResponseNotAccepted"))
                continue
            except Exception as e:  # anything else is reported as such
                outq.put((out, type(e).__name__))
                continue
            outq.put((out, None))

    threads = {sid: threading.Thread(target=worker, args=(sid,), daemon=True) for sid in (0, 1)}
    for t in threads.values():
        t.start()
    writes, dead, died_at, exc = [], [False, False], [None, None], None
    for i, (sid, chunk) in enumerate(sched):
        if dead[sid]:
            writes.append([])
            continue
        inq[sid].put(chunk)
        out, err = outq.get(timeout=30)
        writes.append(out)
        if err is not None:
            dead[sid] = True
            died_at[sid] = i
            if exc is None or err != "ResponseNotAccepted":
                exc = err
    for sid in (0, 1):
        inq[sid].put(None)
    for t in threads.values():
        t.join(5)
    return {"writes": writes, "raised": dead, "exc": exc, "died_at": died_at}


_RUNNER = {}


def scripted_runner_class():
    """Runner subclass defined lazily (needs invoke importable)."""
    if "cls" in _RUNNER:
        return _RUNNER["cls"]
    from invoke.runners import Runner

    class Scripted(Runner):
        input_sleep = 0.0002

        def __init__(self, ctx, schedule):
            super().__init__(ctx)
            self.schedule = schedule
            self.ptr = 0            # next event to hand out
            self.inflight = None    # index of the event being processed
            self.cv = threading.Condition()
            self.log = []           # (event index, text written to child stdin)
            self.delivered = [[], []]
            self.started = []

        def start(self, command, shell, env, timeout=None):
            self.started.append(command)

        def _thread_of(self, sid):
            tgt = self.handle_stdout if sid == 0 else self.handle_stderr
            return getattr(self, "threads", {}).get(tgt)

        def _stream_dead(self, sid):
            t = self._thread_of(sid)
            return t is not None and t.ident is not None and not t.is_alive()

        def _read(self, sid):
            with self.cv:
                if self.inflight is not None and self.schedule[self.inflight][0] == sid:
                    self.inflight = None
                    self.cv.notify_all()
                while True:
                    if self.inflight is not None:
                        if self._stream_dead(self.schedule[self.inflight][0]):
                            self.inflight = None
                            self.cv.notify_all()
                            continue
                    else:
                        while self.ptr < len(self.schedule) and self._stream_dead(self.schedule[self.ptr][0]):
                            self.ptr += 1
                            self.cv.notify_all()
                        if not any(s == sid for s, _ in self.schedule[self.ptr:]):
                            return b""
                        if self.schedule[self.ptr][0] == sid:
                            idx = self.ptr
                            self.ptr += 1
                            self.inflight = idx
                            self.delivered[sid].append(idx)
                            return self.schedule[idx][1].encode()
                    self.cv.wait(0.0005)

        def read_proc_stdout(self, num_bytes):
            return self._read(0)

        def read_proc_stderr(self, num_bytes):
            return self._read(1)

        def _write_proc_stdin(self, data):
            self.log.append((self.inflight, data.decode()))

        def close_proc_stdin(self):
            pass

        @property
        def process_is_finished(self):
            return self.ptr >= len(self.schedule)

        def returncode(self):
            return 0

        @property
        def timed_out(self):
            return False

    _RUNNER["cls"] = Scripted
    return Scripted


def drive_runner(case):
    from invoke import Config, Context
    from invoke.exceptions import ResponseNotAccepted
    Scripted = scripted_runner_class()
    sched = [(s, c) for s, c in case["sched"]]
    sudo = case.get("sudo")
    if sudo:
        cfg = Config(overrides={"sudo": {"password": sudo["password"], "prompt": sudo["prompt"]}})
    else:
        cfg = Config()
    ctx = Context(cfg)
    r = Scripted(ctx, sched)
    ws = make_watchers(case)
    exc = None
    try:
        if sudo:
            ctx._sudo(r, "x", in_stream=False, hide=True, watchers=ws)
        else:
            r.run("x", in_stream=False, hide=True, watchers=ws)
    except Exception as e:
        exc = type(e).__name__
    for t in getattr(r, "threads", {}).values():
        t.join(10)
    writes = [[] for _ in sched]
    for idx, text in r.log:
        if idx is None:
            exc = "write-outside-read"
        else:
            writes[idx].append(text)
    raised, died_at = [False, False], [None, None]
    for sid in (0, 1):
        t = r._thread_of(sid)
        if t is not None:
            w = t.exception()
            if w is not None:
                if isinstance(w.value, ResponseNotAccepted):
                    raised[sid] = True
                    died_at[sid] = r.delivered[sid][-1] if r.delivered[sid] else None
                else:
                    exc = "thread:" + type(w.value).__name__
    return {"writes": writes, "raised": raised, "exc": exc, "died_at": died_at}


# --------------------------------------------------------------------------
# independent reference used only for finding signatures / classification
# --------------------------------------------------------------------------
def all_watchers(case):
    ws = list(case["watchers"])
    if case.get("sudo"):
        ws.append({"kind": "fail", "pattern": L(case["sudo"]["prompt"]),
                   "response": case["sudo"]["password"] + "\n", "sentinel": L(SENTINEL)})
    return ws


def stream_reads(case, sid):
    return [(i, c) for i, (s, c) in enumerate(case["sched"]) if s == sid]


def spans(toks, text):
    return [(m.start(), m.end()) for m in re.finditer(regex(toks), text, re.S)]


def sig_straddle(case, obs):
    """(region of the former F-C12a) for some pattern or sentinel, an occurrence of the whole-text scan
    is completed in a (delivered) read and another occurrence straddles the end
    of that same read."""
    for sid in (0, 1):
        reads = stream_reads(case, sid)
        if not reads:
            continue
        text = "".join(c for _, c in reads)
        died = obs["died_at"][sid] if obs else None
        pats = []
        for w in all_watchers(case):
            pats.append(w["pattern"])
            if w["kind"] == "fail":
                pats.append(w["sentinel"])
        for toks in pats:
            sp = spans(toks, text)
            lo = 0
            for idx, c in reads:
                hi = lo + len(c)
                if any(lo < e <= hi for _, e in sp) and any(s < hi < e for s, e in sp):
                    return True
                lo = hi
                if died is not None and idx >= died:
                    break
    return False


def sig_tried(case, obs):
    """(region of the former F-C12b) in a read that is not the stream's first, a failing watcher's
    sentinel is completed although that watcher has not answered in an earlier
    read (the latched `tried` makes it raise all the same)."""
    for sid in (0, 1):
        reads = stream_reads(case, sid)
        died = obs["died_at"][sid] if obs else None
        for w in all_watchers(case):
            if w["kind"] != "fail":
                continue
            before = ""
            responded = False
            for k, (idx, c) in enumerate(reads):
                after = before + c
                new_s = len(re.findall(regex(w["sentinel"]), after, re.S)) - \
                    len(re.findall(regex(w["sentinel"]), before, re.S))
                new_p = len(re.findall(regex(w["pattern"]), after, re.S)) - \
                    len(re.findall(regex(w["pattern"]), before, re.S))
                if k > 0 and new_s > 0 and not responded:
                    return True
                responded = responded or new_p > 0
                before = after
                if died is not None and idx >= died:
                    break
    return False


EXN = {"ResponseNotAccepted": "XResponseNotAccepted", "Failure": "XFailure", "AuthFailure": "XAuthFailure"}
VIA = {"direct": "Direct", "run": "ViaRun", "sudo": "ViaSudo"}


class C12(Prop):
    id = "C12"
    corr_module = "Corr.C12Corr"
    quick_n = 2600
    thorough_n = 30000
    shard_size = 400
    rule = ("texts over {a, b, newline} (length <= 7; sudo cases: prompt/sentinel/filler tokens), random "
            "compositions into reads, 1-2 streams randomly interleaved, 1-3 watchers from a pool of 10 "
            "fixed-length patterns (literals incl. self-overlapping, '.', classes, negated classes, newline "
            "spans), 35% FailingResponder; driven through the watcher objects, Runner.run and Context.sudo. "
            "non-trivial = some watcher pattern occurs in its stream's text and that stream has >= 2 reads; "
            "thorough adds every composition of every text of length <= 6 (and of every 27th text of length 7) "
            "x the patterns of the pool occurring in it (single Responder), and length <= 4 x 4 failing pairs")
    trusted_base = [
        "Coq 8.16.1 kernel + vm_compute (shard evaluation, refutation witnesses)",
        "hand-written models coq/Model/RegexFam.v (re.findall on the fixed-length family; checked against the "
        "real re module in every case) and coq/Model/WatchModel.v, tied to invoke/watchers.py + "
        "Runner.respond/_handle_output + Context._sudo by differential execution (this run)",
        "harness/props/c12.py: scripted Runner subclass (gated reads), canonicaliser, term printer",
        "CPython 3.12 executing /repo",
    ]
    assumptions = [
        "patterns are non-empty fixed-length sequences of character classes (literals, '.', [..], [^..]); "
        "variable-length patterns are outside the family (no online responder can be chunk independent for them)",
        "reads are delivered one at a time (the schedule is a total order of reads; true thread preemption "
        "inside Runner.respond is not modelled)",
        "ASCII text; decoding of reads is C02's business",
    ]
    not_modelled = ["regex features beyond the family (groups, alternation, repetition, anchors)",
                    "writes to the child's stdin racing between the two IO threads",
                    "user-defined StreamWatcher subclasses"]

    # ---- generation --------------------------------------------------------
    def _watchers(self, rng, nmax=3):
        ws = []
        for _ in range(rng.choice([k for k in [1, 1, 2, 2, 3] if k <= nmax])):
            p = rng.choice(POOL)
            r = rng.choice(["y", "n\n", "pw\n"])
            if rng.random() < 0.35:
                ws.append({"kind": "fail", "pattern": p, "response": r, "sentinel": rng.choice(SENTINELS)})
            else:
                ws.append({"kind": "resp", "pattern": p, "response": r})
        return ws

    def _text(self, rng, maxlen=7):
        n = rng.choice([0, 1, 2, 3, 3, 4, 4, 5, 5, 6, 6, 7, 7])
        n = min(n, maxlen)
        # biased towards 'a'/'b' so that patterns occur often
        return "".join(rng.choice("aabb\na") for _ in range(n))

    def gen_one(self, rng):
        k = rng.random()
        if k < 0.12:
            prompt = rng.choice(["P:", "ab", "[sudo] pw: "])
            toks = [prompt, SENTINEL, "x", "Sorry", ", try again.\n", prompt[:1], "\n"]
            text = "".join(rng.choice(toks) for _ in range(rng.randint(1, 4)))
            a = random_split(rng, text)
            b = random_split(rng, "".join(rng.choice(toks) for _ in range(rng.randint(0, 2)))) \
                if rng.random() < 0.4 else []
            ws = self._watchers(rng, 1) if rng.random() < 0.4 else []
            return {"how": "sudo", "watchers": ws, "sudo": {"prompt": prompt, "password": "pw"},
                    "sched": interleave(rng, a, b)}
        how = "direct" if k < 0.5 else "run"
        a = random_split(rng, self._text(rng))
        b = random_split(rng, self._text(rng)) if rng.random() < 0.5 else []
        return {"how": how, "watchers": self._watchers(rng), "sudo": None, "sched": interleave(rng, a, b)}

    def generate(self, rng, tier, n):
        for _ in range(n):
            yield self.gen_one(rng)

    def enumerate_small(self, tier):
        nmax = 6 if tier == "thorough" else 4
        for n in range(1, nmax + 1):
            for tup in itertools.product(ALPHA, repeat=n):
                s = "".join(tup)
                for comp in compositions(s):
                    if len(comp) < 2 and n > 1:
                        continue
                    for p in POOL:
                        if not re.search(regex(p), s, re.S):
                            continue
                        yield {"how": "direct", "watchers": [{"kind": "resp", "pattern": p, "response": "y"}],
                               "sudo": None, "sched": [[0, c] for c in comp]}
        if tier == "thorough":
            # length 7: every 27th text, all 64 compositions
            for k, tup in enumerate(itertools.product(ALPHA, repeat=7)):
                if k % 27:
                    continue
                s = "".join(tup)
                for comp in compositions(s):
                    for p in POOL:
                        if re.search(regex(p), s, re.S):
                            yield {"how": "direct", "watchers": [{"kind": "resp", "pattern": p, "response": "y"}],
                                   "sudo": None, "sched": [[0, c] for c in comp]}
        fmax = 4 if tier == "thorough" else 3
        pairs = [(L("a"), L("b")), (L("ab"), L("b")), (L("a"), L("ba")), ([["any"]], L("\n"))]
        for n in range(2, fmax + 1):
            for tup in itertools.product(ALPHA, repeat=n):
                s = "".join(tup)
                for comp in compositions(s):
                    for p, sen in pairs:
                        yield {"how": "direct", "sudo": None,
                               "watchers": [{"kind": "fail", "pattern": p, "response": "y", "sentinel": sen}],
                               "sched": [[0, c] for c in comp]}

    # ---- implementation ----------------------------------------------------
    def run_impl(self, case):
        obs = drive_direct(case) if case["how"] == "direct" else drive_runner(case)
        occ = []
        seen = set()
        for sid in (0, 1):
            text = "".join(c for _, c in stream_reads(case, sid))
            for w in all_watchers(case):
                for toks in [w["pattern"]] + ([w["sentinel"]] if w["kind"] == "fail" else []):
                    key = (regex(toks), text)
                    if key in seen:
                        continue
                    seen.add(key)
                    occ.append([toks, text, len(re.findall(regex(toks), text, re.S))])
        obs["occ"] = occ
        return obs

    def to_coq(self, case, obs):
        ws = ct.lst([watcher_term(w) for w in case["watchers"]])
        sudo = ct.opt(ct.pair(ct.s(case["sudo"]["prompt"]), ct.s(case["sudo"]["password"]))
                      if case.get("sudo") else None)
        sched = ct.lst([ct.pair(ct.b(bool(s)), ct.s(c)) for s, c in case["sched"]])
        writes = ct.lst([ct.strs(w) for w in obs["writes"]])
        raised = ct.pair(ct.b(obs["raised"][0]), ct.b(obs["raised"][1]))
        exc = ct.opt(EXN.get(obs["exc"], "XOther") if obs["exc"] is not None else None)
        occ = ct.lst([ct.pair(ct.pair(pat_term(t), ct.s(x)), ct.n(k)) for t, x, k in obs["occ"]])
        return "(mk %s %s %s %s %s %s %s %s)" % (ws, sudo, VIA[case["how"]], sched, writes, raised, exc, occ)

    def nontrivial(self, case, obs):
        for sid in (0, 1):
            reads = stream_reads(case, sid)
            if len(reads) < 2:
                continue
            text = "".join(c for _, c in reads)
            if any(re.search(regex(w["pattern"]), text, re.S) for w in all_watchers(case)):
                return True
        return False

    def classify(self, case, obs):
        streams = len({s for s, _ in case["sched"]})
        kind = "fail" if any(w["kind"] == "fail" for w in all_watchers(case)) else "resp"
        tag = "%s/%dstream/%s" % (case["how"], streams, kind)
        if obs["exc"]:
            tag += "/raised"
        if sig_straddle(case, obs):
            tag += "/straddle"          # region of the former F-C12a
        if sig_tried(case, obs):
            tag += "/sentinel-before-response"   # region of the former F-C12b
        return tag

    def finding_of(self, case, obs):
        # F-C12a / F-C12b are fixed in /repo (28f435d, 380f659): nothing is attributed
        # any more; sig_straddle / sig_tried only label the input distribution.
        return None

    def shrink_candidates(self, case):
        sched = case["sched"]
        ws = case["watchers"]
        for i in range(len(ws)):
            if len(ws) > 1 or case.get("sudo"):
                yield dict(case, watchers=ws[:i] + ws[i + 1:])
        if case["how"] == "run":
            yield dict(case, how="direct")
        for i in range(len(sched)):
            yield dict(case, sched=sched[:i] + sched[i + 1:])
        for i in range(len(sched)):
            for j in range(i + 1, len(sched)):
                if sched[j][0] == sched[i][0]:
                    merged = sched[:i] + [[sched[i][0], sched[i][1] + sched[j][1]]] + sched[i + 1:j] + sched[j + 1:]
                    yield dict(case, sched=merged)
                    break
        for i, (s, c) in enumerate(sched):
            for k in range(len(c)):
                if len(c) > 1:
                    yield dict(case, sched=sched[:i] + [[s, c[:k] + c[k + 1:]]] + sched[i + 1:])
        for i, w in enumerate(ws):
            if w["kind"] == "fail":
                yield dict(case, watchers=ws[:i] + [{"kind": "resp", "pattern": w["pattern"],
                                                     "response": w["response"]}] + ws[i + 1:])

    def mutate(self, case, rng):
        for _ in range(40):
            c = dict(case)
            texts = {0: "".join(x for s, x in case["sched"] if s == 0),
                     1: "".join(x for s, x in case["sched"] if s == 1)}
            if rng.random() < 0.3:
                texts[rng.choice([0, 1])] += rng.choice(["a", "b", "ab", "\n"])
            c["sched"] = interleave(rng, random_split(rng, texts[0]), random_split(rng, texts[1]))
            if rng.random() < 0.3 and case["how"] != "sudo":
                c["watchers"] = self._watchers(rng)
            yield c


PROP = C12()
