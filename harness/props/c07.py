"""C07: parsing is total, side-effect free and fails only with documented parse errors."""
import itertools
import random

from .. import coqterm as ct
from .. import parser_common as pc
from ..core import Prop

INITIALS = ["core"] * 12 + ["small"] * 3 + ["none"] * 2 + ["corens"]


def parse_case(sigs, argv, initial="core", ign=False, noctx=False):
    c = {"kind": "parse", "sigs": sigs, "initial": initial, "ign": ign, "argv": list(argv)}
    if noctx:
        c["noctx"] = True       # Parser(contexts=()): the shape of Program's core pass
    return c


# one fixed small signature for the exhaustive small-scope enumerator
SMALL_SIGS = {"tasks": [
    {"name": "t", "aliases": [], "coll": None, "default": False,
     "params": [["name", {"k": "none"}], ["num", {"k": "int", "v": 1}], ["flag", {"k": "bool", "v": False}],
                ["lst", {"k": "none"}], ["opt", {"k": "none"}]],
     "positional": [], "optional": ["opt"], "iterable": ["lst"], "incrementable": [],
     "auto_shortflags": True},
    {"name": "p", "aliases": ["q"], "coll": None, "default": False,
     "params": [["pos", {"k": "empty"}], ["yes", {"k": "bool", "v": True}]],
     "positional": None, "optional": [], "iterable": [], "incrementable": [],
     "auto_shortflags": True},
]}
SMALL_ALPHA = ["t", "p", "--name", "-n", "-u5", "--name=x", "x", "-f", "--", "-fn", "--lst", "--opt",
               "--no-yes", "-e"]


class C07(Prop):
    id = "C07"
    corr_module = "Corr.C07Corr"
    preds = ("corr", "spec")
    quick_n = 5000
    thorough_n = 40000
    shard_size = 160
    rule = ("signature sets (1-4 tasks, 0-5 parameters, all kinds/decorator options, aliases, one "
            "sub-collection) built as real @task functions; argv = random sequences (len<=5) over the "
            "alphabet derived from the contexts (names, aliases, every flag spelling, inverse flags, "
            "glued and '=' forms, clusters, plain values, task-name values, unknown flags, '-', '--', '') "
            "| mostly well-formed spelled lines with 0-2 token mutations | character fuzz; initial "
            "context core/small/none; ignore_unknown on 15%. non-trivial = >=2 tokens, one of which "
            "(or its head) is a flag spelling of some context; distinct by (signature set, initial, argv)")
    trusted_base = [
        "Coq 8.16.1 kernel + vm_compute (shard evaluation, _refuted witnesses, bounded sweeps)",
        "hand-written models coq/Model/{ArgModel,CtxModel,ParserModel,CoreArgs}.v tied to "
        "invoke/parser/*.py by differential execution (this run); CoreArgs.v compared field by field "
        "with Program().initial_context on every run",
        "harness/coqterm.py, harness/parser_common.py (generators, canonicaliser, term printers)",
        "CPython 3.12 executing /repo",
    ]
    assumptions = [
        "tokens are ASCII; int() restricted to [+-]?[0-9]+ vs clearly non-numeric strings (no "
        "whitespace/underscore next to digits)",
        "argument kinds: str/int/bool/list modelled in full; float, complex, bytes and date defaults "
        "(other callable kinds) through an oracle -- the harness calls the kind itself on every substring "
        "of the command-line tokens and hands the model the outcomes (value repr / ValueError / TypeError); "
        "such parameters are never made incrementable",
        "contexts come from Collection.to_contexts() (flag spellings pairwise distinct)",
        "fluidity's retry of an action without arguments on TypeError is not reachable for these kinds",
    ]
    not_modelled = ["kind callables other than str/int/bool/list/float/complex/bytes/date", "help= strings", "debug logging",
                    "non-ASCII tokens", "Parser with colliding flag spellings built by hand"]

    # ------------------------------------------------------------------
    def generate(self, rng, tier, n):
        yield {"kind": "table", "which": "core"}
        yield {"kind": "table", "which": "corens"}
        yield {"kind": "table", "which": "small"}
        per = 12
        produced = 3
        while produced < n:
            sigs = pc.gen_sigs(rng)
            specs = pc.ctx_specs(sigs)
            initial = rng.choice(INITIALS)
            init_spec = pc.initial_spec(initial)
            alpha = pc.alphabet(specs, init_spec, rng)
            for _ in range(per):
                r = rng.random()
                optf = [(c, fl) for c in specs for (fl, a, inv) in pc.flag_spellings(c)
                        if a["optional"] and not inv and pc.takes_value(a)]
                if optf and rng.random() < 0.12:
                    # <task> <optional-value flag> <x> ...: the documented ambiguity situation and its
                    # neighbours (x another flag, a task name, a plain word, an inverse, the flag again)
                    c, fl = rng.choice(optf)
                    others = [f for (f, a, inv) in pc.flag_spellings(c)]
                    names = [cc["name"] for cc in specs]
                    x = rng.choice([rng.choice(others), rng.choice(others), rng.choice(names), "word", fl,
                                    rng.choice(alpha)])
                    argv = [c["name"], fl, x] + [rng.choice(alpha) for _ in range(rng.choice([0, 0, 1, 2]))]
                    if rng.random() < 0.3:
                        argv.insert(1, rng.choice(alpha))
                elif r < 0.35:
                    argv = [rng.choice(alpha) for _ in range(rng.choice([0, 1, 2, 2, 3, 3, 4, 5]))]
                elif r < 0.85:
                    argv = pc.mutate_line(rng, pc.spell_line(rng, specs, init_spec), alpha)
                else:
                    argv = [pc.fuzz_token(rng) for _ in range(rng.randint(1, 4))]
                    if rng.random() < 0.5 and specs:
                        argv.insert(0, specs[0]["name"])
                if any(pc.has_digit_hazard(t) for t in argv):
                    continue
                ign = rng.random() < 0.15
                noctx = rng.random() < 0.08
                if noctx:
                    ign = rng.random() < 0.75
                yield parse_case(sigs, argv, initial, ign, noctx)
                produced += 1
                if produced >= n:
                    break

    def enumerate_small(self, tier):
        maxlen = 4 if tier == "thorough" else 3
        for ln in range(0, maxlen + 1):
            for argv in itertools.product(SMALL_ALPHA, repeat=ln):
                yield parse_case(SMALL_SIGS, argv, "core", False)

    # ------------------------------------------------------------------
    def run_impl(self, case):
        if case["kind"] == "table":
            try:
                return {"ok": pc.spec_of_ctx(pc.initial_context(case["which"]))}
            except Exception as e:  # noqa
                return {"err": type(e).__name__}
        return pc.run_parse(case["sigs"], case["argv"], case["initial"], case["ign"],
                            noctx=case.get("noctx", False))

    def to_coq(self, case, obs):
        if case["kind"] == "table":
            o = "None"
            if "ok" in obs:
                try:
                    o = "(Some %s)" % pc.ctxspec(obs["ok"])
                except Exception:
                    o = "None"
            return "(TableCase %s %s)" % (pc.initsel(case["which"]), o)
        specs = [] if case.get("noctx") else pc.ctx_specs(case["sigs"])
        return "(ParseCase %s %s %s %s %s)" % (
            ct.lst([pc.ctxspec(c, case["argv"]) for c in specs]), pc.initsel(case["initial"]), ct.b(case["ign"]),
            ct.strs(case["argv"]), ct.result(obs, pc.pobs))

    # ------------------------------------------------------------------
    def _flagish(self, case):
        specs = [] if case.get("noctx") else pc.ctx_specs(case["sigs"])
        init_spec = pc.initial_spec(case["initial"])
        allfl = set()
        for c in specs + ([init_spec] if init_spec else []):
            for a in c["args"]:
                allfl.update(pc.spellings_of_arg(a))
        for t in case["argv"]:
            if t in allfl or t.partition("=")[0] in allfl or t[:2] in allfl:
                return True
        return False

    def nontrivial(self, case, obs):
        return case["kind"] == "parse" and len(case["argv"]) >= 2 and self._flagish(case)

    def classify(self, case, obs):
        if case["kind"] == "table":
            return "table"
        if "err" in obs:
            return "err:" + obs["err"]
        o = obs["ok"]
        return "ok:ctxs=%d%s%s" % (min(4, len(o["ctxs"])), ",unparsed" if o["unparsed"] else "",
                                   ",remainder" if o["remainder"] else "")

    def finding_of(self, case, obs, verdict=None):
        # Fixed, hence never attributable (their witnesses stay in corpus/C07/witnesses.json, so a
        # revert is reported):
        #  F-C07a (ValueError from int() escaping parse_argv)            repaired by 401bc73
        #  F-C07b (AttributeError without initial context)              repaired by e36c9e6
        #  F-C07c / F-C07d (value flag left without a value accepted)   repaired by 9120dc5
        #  F-C07f (TypeError of the argument's own type escaping)       repaired by f5d4a34
        if case["kind"] != "parse" or case.get("noctx"):
            return None
        # F-C07e: TypeError out of parse_argv, the model agrees (corr), and the command line
        # mentions -- as an exact flag, with an attached '=value', or as a member of a short-flag cluster -- a counter
        # (incrementable) whose default is not a number.
        if obs.get("err") == "TypeError" and (verdict is None or verdict.get("corr", False)):
            body = pc.body_of(case["argv"])
            for c in pc.ctx_specs(case["sigs"]):
                for a in c["args"]:
                    if a["incrementable"] and not isinstance(a["default"], (int, bool)):
                        for fl in pc.spellings_of_arg(a):
                            for t in body:
                                if t == fl or t.startswith(fl + "=") or (len(fl) == 2 and t.startswith("-") and
                                               not t.startswith("--") and fl[1] in t[1:]):
                                    return "F-C07e"
        return None

    def shrink_candidates(self, case):
        if case["kind"] != "parse":
            return
        argv = case["argv"]
        for i in range(len(argv)):
            yield dict(case, argv=argv[:i] + argv[i + 1:])
        sigs = case["sigs"]
        tasks = sigs["tasks"]
        if len(tasks) > 1:
            for i in range(len(tasks)):
                s2 = {"tasks": tasks[:i] + tasks[i + 1:]}
                yield dict(case, sigs=s2)
        for ti, t in enumerate(tasks):
            for pi in range(len(t["params"])):
                pn = t["params"][pi][0]
                t2 = dict(t, params=t["params"][:pi] + t["params"][pi + 1:])
                for key in ("optional", "iterable", "incrementable"):
                    t2[key] = [x for x in t[key] if x != pn]
                if t["positional"] is not None:
                    t2["positional"] = [x for x in t["positional"] if x != pn]
                s2 = {"tasks": tasks[:ti] + [t2] + tasks[ti + 1:]}
                try:
                    pc.ctx_specs(s2)
                except Exception:
                    pc._cache.pop(pc.sig_key(s2), None)
                    continue
                yield dict(case, sigs=s2)
        if case["initial"] not in ("core",):
            yield dict(case, initial="core")

    def mutate(self, case, rng):
        if case["kind"] != "parse":
            return
        specs = pc.ctx_specs(case["sigs"])
        alpha = pc.alphabet(specs, pc.initial_spec(case["initial"]), rng)
        for _ in range(40):
            argv = pc.mutate_line(rng, case["argv"], alpha)
            if not any(pc.has_digit_hazard(t) for t in argv):
                yield dict(case, argv=argv)

    # ------------------------------------------------------------------
    def extra_checks(self, tier, seed):
        """Purity (a test, not a theorem): argv and the parser's contexts are
        not modified by a parse; a repeated parse, also with a different parse
        in between, gives the same answer."""
        from invoke.parser import Parser
        rng = random.Random(seed + 7)
        n = 150 if tier == "quick" else 1500
        failures = []
        evaluations = 0

        def attempt(parser, argv):
            try:
                return {"ok": pc.canon_result(parser.parse_argv(argv))}
            except Exception as e:  # noqa
                return {"err": type(e).__name__}

        for _ in range(n):
            sigs = pc.gen_sigs(rng)
            specs = pc.ctx_specs(sigs)
            initial = rng.choice(["core", "core", "small", "none"])
            noctx = initial != "none" and rng.random() < 0.25
            init_spec = pc.initial_spec(initial)
            alpha = pc.alphabet(specs, init_spec, rng)
            argv = pc.mutate_line(rng, pc.spell_line(rng, specs, init_spec), alpha)
            other = pc.mutate_line(rng, pc.spell_line(rng, specs, init_spec), alpha)
            parser = Parser(contexts=() if noctx else pc.contexts_of(sigs),
                            initial=pc.initial_context(initial), ignore_unknown=noctx or rng.random() < 0.2)
            before = pc.snapshot_parser(parser)
            a0 = list(argv)
            r1 = attempt(parser, argv)
            what = None
            if argv != a0:
                what = "argv modified by parse_argv"
            elif pc.snapshot_parser(parser) != before:
                what = "parser contexts/initial modified by parse_argv"
            else:
                r2 = attempt(parser, argv)
                attempt(parser, other)
                r3 = attempt(parser, argv)
                if r2 != r1 or r3 != r1:
                    what = "repeated parse gave a different answer"
                elif pc.snapshot_parser(parser) != before:
                    what = "parser contexts/initial modified after repeated parses"
            evaluations += 1
            if what:
                failures.append({"case": parse_case(sigs, a0, initial, parser.ignore_unknown, noctx), "what": what})
                break
        return [{"name": "purity", "evaluations": evaluations, "failures": failures,
                 "note": "snapshot test: argv, Parser.contexts, Parser.initial deep-compared before/after; "
                         "parse repeated, and repeated after parsing a different argv"}]


PROP = C07()
