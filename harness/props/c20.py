"""C20: the nearest enclosing tasks module is the one loaded, with its project dir."""
import itertools
import os
import shutil
import sys

from .. import coqterm as ct
from ..core import Prop

KINDS = ["none", "mod", "pkg", "both"]
# a plain directory / plain file named like the collection (no __init__.py): not candidates
KINDS6 = KINDS + ["baredir", "barefile"]
CAND = ("mod", "pkg", "both")
NAMES = ["tasks", "altcoll"]
ROOT_NAME = "c20v_rootcand"      # only name ever created in "/" (removed at once)
DIRS = ["r", "d1", "d2", "d3", "d4"]


def mkcase(kinds, start, start_kind="abs", cwd=0, name="tasks", distractor=True, side="none", root="none",
           link=None, session=None):
    """link = None | ["file", L] (the module at level L is a symlink to a file elsewhere) |
    ["pkg", L] (the package directory at level L is a symlink) | ["dir", L] (the level-L directory
    itself, L >= 1, is a symlink to a directory elsewhere; deeper levels live behind it)"""
    c = {"kinds": list(kinds), "start": start, "start_kind": start_kind, "cwd": cwd,
         "name": ROOT_NAME if root != "none" else name, "distractor": distractor, "side": side, "root": root}
    if link is not None:
        c["link"] = list(link)
    if session:
        # earlier uses of the SAME loader object, each after a chdir to the level-`at` directory:
        # [["load", at] | ["start", at], ...]; the judged load comes last
        c["session"] = [list(st) for st in session]
    return c


def with_opts(c, start_in=False, name_cfg=False):
    """start_in: start inside the directory named like the collection at the start level;
    name_cfg: load(None) with the name coming from config tasks.collection_name"""
    c = dict(c)
    if start_in:
        c["start_in"] = True
    if name_cfg:
        c["name_cfg"] = True
    return c


def link_applicable(kinds, mode, level):
    if level >= len(kinds):
        return False
    if mode == "file":
        return kinds[level] in ("mod", "both")
    if mode == "pkg":
        return kinds[level] in ("pkg", "both")
    return mode == "dir" and level >= 1


class C20(Prop):
    id = "C20"
    corr_module = "Corr.C20Corr"
    quick_n = 1200
    thorough_n = 4000
    shard_size = 300
    rule = ("real directory chains r/d1/../d4 (depth <= 4) built in a scratch dir under /tmp, each level holding "
            "a module, a package, both or neither for the collection name, a distractor module of the other name, "
            "an optional sibling directory with its own candidate, and (rarely) a uniquely named candidate in '/'; "
            "every start level incl. the sibling; start given absolute, absolute with trailing slash, or relative "
            "to a cwd above it, or not given at all with tasks.search_root in the configuration; two collection names; sessions: ONE loader object (default or given start) used "
            "in a sequence of (chdir, load | read .start) steps before the judged load, every step compared with "
            "the model.  non-trivial = some candidate exists on disk; "
            "distinct by the whole case")
    trusted_base = [
        "Coq 8.16.1 kernel + vm_compute (shard evaluation)",
        "hand-written model coq/Model/LoaderModel.v tied to invoke/loader.py by differential execution (this run)",
        "OS contract: os.listdir(p) returns the listing of p or raises FileNotFoundError; os.path.abspath is "
        "lexical normalisation against os.getcwd(); os.path.exists; importlib spec_from_file_location/exec_module load the named file",
        "harness/props/c20.py: layout builder, the file-system description handed to Coq (real os.listdir / "
        "os.path.exists answers for every ancestor), os.path.abspath canonicalisation",
        "CPython 3.12 executing /repo",
    ]
    assumptions = [
        "paths are '/'-separated normalised component lists (no '.', '..', doubled separators, symlinks)",
        "the start directory exists; collection names are identifiers",
        "module files are importable Python",
        "relative starts are exercised only from a working directory whose path goes through no symlink "
        "(os.getcwd() is physical; a logical/physical mismatch of the cwd is outside the model)",
    ]
    not_modelled = [
        "sys.path / sys.modules mutation (tested: sibling importability in extra_checks)",
        "Config.load_project file parsing (tested: Config._project_path in extra_checks)",
        "pathlib normalisation of exotic paths, symlinks, permission errors, non-directory path components",
    ]

    # ---------------------------------------------------------------- lifecycle
    def setup(self, tier, seed):
        self.base = "/tmp/c20v-%d" % os.getpid()
        shutil.rmtree(self.base, ignore_errors=True)
        os.makedirs(self.base)
        try:
            os.listdir("")
            raise RuntimeError("OS contract violated: os.listdir('') did not raise")
        except FileNotFoundError:
            pass

    def teardown(self):
        shutil.rmtree(getattr(self, "base", "/tmp/c20v-none"), ignore_errors=True)
        self._rm_root()

    @staticmethod
    def _rm_root():
        for p in ("/" + ROOT_NAME + ".py",):
            try:
                os.remove(p)
            except OSError:
                pass
        shutil.rmtree("/" + ROOT_NAME, ignore_errors=True)

    # -------------------------------------------------------------------- cases
    def generate(self, rng, tier, n):
        for _ in range(n):
            depth = rng.choice([1, 2, 3, 3, 4, 4, 5, 5])
            kinds = [rng.choice(["none", "none", "mod", "pkg", "both", "baredir", "barefile"])
                     for _ in range(depth)]
            side = rng.choice(["none", "none", "mod", "pkg"]) if depth >= 1 else "none"
            starts = list(range(depth)) + (["side"] if side != "none" else [])
            start = rng.choice(starts)
            sk = rng.choice(["abs", "abs", "abs", "slash", "rel", "dot", "dotdot", "cwdnone", "cfgroot"])
            if rng.random() < 0.03:
                sk = "missing"
            cwd = 0
            if sk == "rel":
                sd = 1 if start == "side" else start
                if sd == 0:
                    sk = "abs"
                else:
                    cwd = rng.randrange(sd)
            root = "none"
            if rng.random() < 0.02:
                root = rng.choice(["mod", "pkg"])
            link = None
            if root == "none" and rng.random() < 0.3:
                opts = [(m, lv) for m in ("file", "pkg", "dir") for lv in range(depth)
                        if link_applicable(kinds, m, lv)]
                if opts:
                    link = list(rng.choice(opts))
            session = None
            if rng.random() < 0.15 and not (link and link[0] == "dir"):
                if rng.random() < 0.8:
                    sk = "cwdnone"
                elif sk not in ("abs", "cwdnone", "cfgroot"):
                    sk = "abs"
                session = [[rng.choice(["load", "load", "start"]), rng.randrange(depth)]
                           for _ in range(rng.choice([1, 1, 2, 3]))]
            c = mkcase(kinds, start, sk, cwd, rng.choice(NAMES), rng.random() < 0.7, side, root, link, session)
            yield with_opts(c, start_in=(sk != "rel" and start != "side" and rng.random() < 0.15),
                            name_cfg=rng.random() < 0.15)

    def enumerate_small(self, tier):
        if tier == "quick":
            for kinds in itertools.product(KINDS, repeat=3):
                for start in range(3):
                    yield mkcase(kinds, start)
            for kinds in itertools.product(("none", "mod", "baredir", "barefile"), repeat=3):
                yield mkcase(kinds, 2, distractor=False)
                yield mkcase(kinds, 1, "dotdot", distractor=False)
            for kinds in (("none", "mod", "none"), ("pkg", "pkg", "none"), ("mod", "none", "both")):
                for mode in ("file", "pkg", "dir"):
                    for lv in range(3):
                        if link_applicable(kinds, mode, lv):
                            yield mkcase(kinds, 2, link=[mode, lv], distractor=False)
            yield from self._sessions(("none", "mod"), ("load", "start"))
            for kinds in itertools.product(("none", "mod", "pkg"), repeat=3):
                yield mkcase(kinds, 2, "cfgroot", distractor=False)
            return
        # depth 4: every layout x every start level, absolute start
        for kinds in itertools.product(KINDS, repeat=5):
            for start in range(5):
                yield mkcase(kinds, start)
        # depth 3: every layout x trailing slash / relative start from every cwd above, other name
        for kinds in itertools.product(KINDS, repeat=4):
            for start in range(4):
                yield mkcase(kinds, start, "slash", name="altcoll")
                for cwd in range(start):
                    yield mkcase(kinds, start, "rel", cwd, name="altcoll")
        # depth 2 + sibling directory, every start incl. the sibling
        for kinds in itertools.product(KINDS, repeat=3):
            for side in ("mod", "pkg"):
                for start in (0, 1, 2, "side"):
                    yield mkcase(kinds, start, side=side, distractor=False)
        # depth 3 with the two non-candidate kinds (plain directory / plain file named like the collection)
        for kinds in itertools.product(KINDS6, repeat=4):
            if not any(k in ("baredir", "barefile") for k in kinds):
                continue
            for start in range(4):
                yield mkcase(kinds, start, distractor=False)
        # other ways of naming the start: "<dir>/.", "<dir>/<sub>/..", start=None (cwd), inside the
        # package directory, name from the configuration (depth 2)
        for kinds in itertools.product(KINDS6, repeat=3):
            for start in range(3):
                for sk in ("dot", "dotdot", "cwdnone", "cfgroot"):
                    yield mkcase(kinds, start, sk, distractor=False)
                if "mod" in kinds:
                    yield mkcase(kinds, start, "missing", distractor=False)
                yield with_opts(mkcase(kinds, start, distractor=False), start_in=True)
                yield with_opts(mkcase(kinds, start, "cwdnone", distractor=False), start_in=True, name_cfg=True)
        # symlinked module / package / intermediate directory at every level (depth 2)
        for kinds in itertools.product(KINDS, repeat=3):
            for mode in ("file", "pkg", "dir"):
                for lv in range(3):
                    if link_applicable(kinds, mode, lv):
                        for start in range(3):
                            yield mkcase(kinds, start, link=[mode, lv], distractor=False)
        # candidate in "/" itself
        for kinds in itertools.product(KINDS, repeat=2):
            for root in ("mod", "pkg"):
                for start in (0, 1):
                    yield mkcase(kinds, start, root=root)
        yield from self._sessions(("none", "mod", "pkg"), ("load", "start"))
        # two earlier steps, and a given start (must be unaffected by where the process stands)
        for kinds in itertools.product(("none", "mod"), repeat=3):
            for start in range(3):
                for a in range(3):
                    for b in range(3):
                        yield mkcase(kinds, start, "cwdnone", distractor=False,
                                     session=[["load", a], ["start", b]])
                    yield mkcase(kinds, start, "abs", distractor=False, session=[["load", a], ["load", start]])

    @staticmethod
    def _sessions(kindset, ops):
        """one loader with the default start: one earlier step in another directory, then the judged load"""
        for kinds in itertools.product(kindset, repeat=3):
            for start in range(3):
                for at in range(3):
                    if at == start:
                        continue
                    for op in ops:
                        yield mkcase(kinds, start, "cwdnone", distractor=False, session=[[op, at]])

    # ---------------------------------------------------------------- the world
    def _level_dir(self, i):
        return os.path.join(self.base, *DIRS[:i + 1])

    def _build(self, case):
        name = case["name"]
        other = [n for n in NAMES if n != name][0]
        top = os.path.join(self.base, "r")
        shared = os.path.join(self.base, "shared")
        shutil.rmtree(top, ignore_errors=True)
        shutil.rmtree(shared, ignore_errors=True)
        link = case.get("link")

        def put(d, kind, nm, linked=None):
            # WHERE records the directory the module is *found* in (d), also for link targets
            if kind == "baredir":
                os.makedirs(os.path.join(d, nm))
                with open(os.path.join(d, nm, "notes.txt"), "w") as f:
                    f.write("not a package\n")
                return
            if kind == "barefile":
                with open(os.path.join(d, nm), "w") as f:
                    f.write("not a module\n")
                return
            if kind in ("mod", "both"):
                body = "WHERE = %r\nKIND = 'mod'\n" % d
                if linked == "file":
                    os.makedirs(shared, exist_ok=True)
                    target = os.path.join(shared, "impl_" + nm + ".py")
                    with open(target, "w") as f:
                        f.write(body)
                    os.symlink(target, os.path.join(d, nm + ".py"))
                else:
                    with open(os.path.join(d, nm + ".py"), "w") as f:
                        f.write(body)
            if kind in ("pkg", "both"):
                body = "WHERE = %r\nKIND = 'pkg'\n" % d
                if linked == "pkg":
                    target = os.path.join(shared, "pkgimpl_" + nm)
                    os.makedirs(target)
                    with open(os.path.join(target, "__init__.py"), "w") as f:
                        f.write(body)
                    os.symlink(target, os.path.join(d, nm))
                else:
                    os.makedirs(os.path.join(d, nm))
                    with open(os.path.join(d, nm, "__init__.py"), "w") as f:
                        f.write(body)
        for i, kind in enumerate(case["kinds"]):
            d = self._level_dir(i)
            if link and link[0] == "dir" and link[1] == i and i >= 1:
                target = os.path.join(shared, "dir_%d" % i)
                os.makedirs(target)
                os.symlink(target, d)
            else:
                os.makedirs(d)
            put(d, kind, name, linked=link[0] if link and link[1] == i else None)
            if case["distractor"]:
                put(d, "mod", other)
        if case["side"] != "none":
            d = os.path.join(top, "side")
            os.makedirs(d)
            put(d, case["side"], name)
        if case["root"] != "none":
            self._rm_root()
            put("/", case["root"], ROOT_NAME)

    def _start_dir(self, case):
        if case["start"] == "side":
            return os.path.join(self.base, "r", "side")
        d = self._level_dir(case["start"])
        if case.get("start_in") and os.path.isdir(os.path.join(d, case["name"])):
            return os.path.join(d, case["name"])
        return d

    def _session(self, case):
        """the earlier steps actually exercised: only with an absolute or default start, only through
        directories whose path goes through no symlink (os.getcwd() is physical), only existing levels"""
        link = case.get("link")
        if not case.get("session") or self._kind(case) not in ("abs", "cwdnone", "cfgroot") or (link and link[0] == "dir"):
            return []
        return [(op, at) for op, at in case["session"] if 0 <= at < len(case["kinds"])]

    @staticmethod
    def _kind(case):
        """effective start kind: os.getcwd() is the *physical* directory, so a relative start is only
        exercised from a working directory whose path goes through no symlink"""
        link = case.get("link")
        if case["start_kind"] == "rel" and link and link[0] == "dir" and link[1] <= case["cwd"]:
            return "abs"
        if case["start_kind"] == "dotdot" and link and link[0] == "dir" and isinstance(case["start"], int) \
                and link[1] == case["start"] + 1:
            return "abs"      # <link>/.. is the parent of the link's *target*: lexical != physical
        if case["start_kind"] == "cwdnone" and link:
            top = 1 if case["start"] == "side" else case["start"]
            if link[0] == "dir" and link[1] <= top or (case.get("start_in") and link[0] == "pkg"):
                return "abs"
        return case["start_kind"]

    def _world(self, case):
        """(cwd, start string, fs description) -- fs = what os.listdir / os.path.exists answer for
        every directory string the walk or the reference may look at."""
        name = case["name"]
        sdir = self._start_dir(case)
        if self._kind(case) == "rel":
            cwd = self._level_dir(case["cwd"])
        else:
            # an absolute start must not consult the working directory: work from an unrelated
            # directory that holds a module and a package of every collection name
            cwd = os.path.join(self.base, "cwdhome")
            if not os.path.isdir(cwd):
                os.makedirs(cwd)
                for nm in NAMES + [ROOT_NAME]:
                    with open(os.path.join(cwd, nm + ".py"), "w") as f:
                        f.write("WHERE = 'the working directory'\n")
        kind = self._kind(case)
        extra_keys = []
        if kind in ("abs", "cwdnone", "cfgroot"):
            start = sdir
            if kind == "cwdnone":
                cwd = sdir
        elif kind == "slash":
            start = sdir + "/"
        elif kind == "missing":
            start = os.path.join(sdir, "zz_no_such_dir")       # does not exist: outside the property
        elif kind == "dot":
            start = sdir + "/."
            extra_keys.append((start, start))
        elif kind == "dotdot":
            # <start dir>/<sub>/.. : names the start directory through one of its subdirectories
            lvl = case["start"] if isinstance(case["start"], int) else None
            if lvl is not None and lvl + 1 < len(case["kinds"]) and not case.get("start_in"):
                sub = os.path.join(sdir, DIRS[lvl + 1])
            else:
                sub = os.path.join(sdir, "zzsub")
                os.makedirs(sub, exist_ok=True)
            start = sub + "/.."
            extra_keys.append((start, start))
            extra_keys.append((sub, sub))
        else:
            start = os.path.relpath(sdir, cwd)
        keys = list(extra_keys)
        d = sdir
        while True:
            keys.append((d, d))
            if d == "/":
                break
            d = os.path.dirname(d)
        for _op, at in self._session(case):
            d = self._level_dir(at)
            while (d, d) not in keys:
                keys.append((d, d))
                if d == "/":
                    break
                d = os.path.dirname(d)
        if self._kind(case) == "slash":
            keys.append((sdir + "/", sdir))
        if self._kind(case) == "rel":
            comps = start.split("/")
            for k in range(len(comps), 0, -1):
                rel = "/".join(comps[:k])
                keys.append((rel, os.path.join(cwd, rel)))
        dirs, files = [], []
        for key, real in keys:
            ents = [e for e in sorted(os.listdir(real)) if e in (name, name + ".py")]
            dirs.append([key, ents])
            cand = os.path.join(key, name, "__init__.py")
            if os.path.exists(os.path.join(real, name, "__init__.py")):
                files.append(cand)
        return cwd, start, {"dirs": dirs, "files": files}

    # --------------------------------------------------------- implementation
    def run_impl(self, case):
        from invoke.loader import FilesystemLoader
        from invoke.config import Config
        from invoke.exceptions import CollectionNotFound

        if not hasattr(self, "base"):
            self.setup("quick", 0)
        self._build(case)
        saved_cwd = os.getcwd()
        saved_path = list(sys.path)
        saved_mods = set(sys.modules)
        name = case["name"]
        try:
            cwd, start, fs = self._world(case)
            os.chdir(cwd)
            if not hasattr(self, "_cfg"):
                self._cfg = Config()
            prev = []
            try:
                cfg = self._cfg
                if case.get("name_cfg"):
                    cfg = Config(overrides={"tasks": {"collection_name": name}})
                given_start = None if self._kind(case) in ("cwdnone", "cfgroot") else start
                if self._kind(case) == "cfgroot":
                    # no start argument: the start comes from the configuration (tasks.search_root)
                    ov = {"tasks": {"search_root": start}}
                    if case.get("name_cfg"):
                        ov["tasks"]["collection_name"] = name
                    cfg = Config(overrides=ov)
                loader = FilesystemLoader(start=given_start, config=cfg)
                for op, at in self._session(case):
                    os.chdir(self._level_dir(at))
                    here = os.getcwd()
                    if op == "start":
                        prev.append(["start", here, str(loader.start)])
                        continue
                    try:
                        m0, p0 = loader.load(None if case.get("name_cfg") else name)
                        prev.append(["load", here, {"loaded": [m0.__file__, p0]}])
                    except CollectionNotFound:
                        prev.append(["load", here, {"exc": "CollectionNotFound"}])
                    except ImportError:
                        prev.append(["load", here, {"exc": "ImportError"}])
                    except Exception as e:  # noqa
                        prev.append(["load", here, {"exc": type(e).__name__}])
                os.chdir(cwd)
                module, parent = loader.load(None if case.get("name_cfg") else name)
                raw = {"loaded": [module.__file__, parent]}
                ab = {"loaded": [os.path.abspath(module.__file__), os.path.abspath(parent)]}
                ok_content = getattr(module, "WHERE", None) == os.path.abspath(parent)
                # the module stays registered under its name and its directory leads sys.path
                # (what makes siblings / relative imports work, also later at task run time)
                encl = os.path.normpath(os.path.dirname(module.__file__))
                if prev:
                    # a directory an earlier load of the same session already put on sys.path is not
                    # moved to the front again (Loader.load only inserts what is missing)
                    on_path = encl in [os.path.normpath(p) for p in sys.path]
                else:
                    on_path = os.path.normpath(sys.path[0]) == encl
                ok_content = ok_content and sys.modules.get(name) is module and on_path
            except CollectionNotFound:
                raw = ab = {"exc": "CollectionNotFound"}
                ok_content = True
            except ImportError:
                raw = ab = {"exc": "ImportError"}
                ok_content = True
            except Exception as e:  # noqa
                raw = ab = {"exc": type(e).__name__}
                ok_content = True
            return {"cwd": cwd, "start": start, "fs": fs, "raw": raw, "abs": ab, "content_ok": ok_content,
                    "default_start": self._kind(case) == "cwdnone", "prev": prev}
        finally:
            os.chdir(saved_cwd)
            sys.path[:] = saved_path
            for m in set(sys.modules) - saved_mods:
                del sys.modules[m]
            sys.modules.pop(name, None)
            if case["root"] != "none":
                self._rm_root()

    def to_coq(self, case, obs):
        fs = obs["fs"]
        dirs = ct.lst([ct.pair(ct.s(k), ct.strs(v)) for k, v in fs["dirs"]])
        fsys = "(mkFs %s %s)" % (dirs, ct.strs(fs["files"]))

        def raw(o):
            if "loaded" in o:
                return "(RLoaded %s %s)" % (ct.s(o["loaded"][0]), ct.s(o["loaded"][1]))
            return {"CollectionNotFound": "RNotFound", "ImportError": "RImportError"}.get(o["exc"], "ROther")

        def ab(o):
            if "loaded" in o:
                if not obs["content_ok"]:
                    return "OOther"      # the file named is not the module that was executed
                return "(OLoaded %s %s)" % (ct.s(o["loaded"][0]), ct.s(o["loaded"][1]))
            return {"CollectionNotFound": "ONotFound", "ImportError": "OImportError"}.get(o["exc"], "OOther")
        prev = ct.lst(["(SStart %s %s)" % (ct.s(st[1]), ct.s(st[2])) if st[0] == "start"
                       else "(SLoad %s %s)" % (ct.s(st[1]), raw(st[2])) for st in obs.get("prev", [])])
        return "(mk %s %s %s %s %s %s %s %s)" % (fsys, ct.s(obs["cwd"]), ct.s(obs["start"]), ct.s(case["name"]),
                                                 raw(obs["raw"]), ab(obs["abs"]),
                                                 "true" if obs.get("default_start") else "false", prev)

    # --------------------------------------------------------------- reporting
    def _nearest(self, case):
        """reference answer computed from the case alone: ('level', i) / ('base-or-above') / 'root' / None"""
        chain = []
        if case["start"] == "side":
            if case["side"] in CAND:
                return ("side", None)
            top = 0
        else:
            top = case["start"]
        for i in range(top, -1, -1):
            if case["kinds"][i] in CAND:
                return ("level", i)
        if case["root"] != "none":
            return ("root", None)
        return None

    def nontrivial(self, case, obs):
        return any(k in CAND for k in case["kinds"]) or case["side"] != "none" or case["root"] != "none"

    def classify(self, case, obs):
        o = obs["raw"]
        what = "loaded" if "loaded" in o else o["exc"]
        lk = ":link=" + case["link"][0] if case.get("link") else ""
        ses = ":session=" + "+".join(st[0] for st in case["session"]) if case.get("session") else ""
        return "%s:%s:depth=%d%s%s" % (case["start_kind"], what, len(case["kinds"]) - 1, lk, ses)

    def finding_of(self, case, obs):
        return None      # F-C20 / F-C20b / F-C20c are fixed (a51b5ff)

    def shrink_candidates(self, case):
        kinds = case["kinds"]
        if case.get("link"):
            c = dict(case)
            del c["link"]
            yield c
        if case.get("session"):
            ses = case["session"]
            c = dict(case)
            del c["session"]
            yield c
            if len(ses) > 1:
                for i in range(len(ses)):
                    yield dict(case, session=ses[:i] + ses[i + 1:])
        if case["distractor"]:
            yield dict(case, distractor=False)
        if case["side"] != "none" and case["start"] != "side":
            yield dict(case, side="none")
        if case["start_kind"] in ("slash", "dot", "cwdnone", "missing", "cfgroot"):
            yield dict(case, start_kind="abs")
        for f in ("start_in", "name_cfg"):
            if case.get(f):
                c = dict(case)
                del c[f]
                yield c
        for i, k in enumerate(kinds):
            if k in ("baredir", "barefile"):
                yield dict(case, kinds=kinds[:i] + ["none"] + kinds[i + 1:])
        if case["root"] != "none":
            yield dict(case, root="none", name="tasks")
        top = 1 if case["start"] == "side" else case["start"]
        if len(kinds) - 1 > top:
            yield dict(case, kinds=kinds[:-1])
        for i, k in enumerate(kinds):
            if k != "none":
                yield dict(case, kinds=kinds[:i] + ["none"] + kinds[i + 1:])
            if k == "both":
                yield dict(case, kinds=kinds[:i] + ["mod"] + kinds[i + 1:])
                yield dict(case, kinds=kinds[:i] + ["pkg"] + kinds[i + 1:])
        if isinstance(case["start"], int) and case["start"] > 0 and \
                (case["start_kind"] != "rel" or case["cwd"] < case["start"] - 1):
            yield dict(case, start=case["start"] - 1)

    def mutate(self, case, rng):
        for _ in range(40):
            kinds = list(case["kinds"])
            i = rng.randrange(len(kinds))
            kinds[i] = rng.choice(KINDS)
            c = dict(case, kinds=kinds)
            if rng.random() < 0.3 and c["start_kind"] != "rel":
                c["start"] = rng.randrange(len(kinds))
            yield c

    # ------------------------------------------------------------ extra checks
    def extra_checks(self, tier, seed):
        return [self._siblings(), self._project_path(), self._load_sessions()]

    def _fresh(self):
        top = os.path.join(self.base, "x")
        shutil.rmtree(top, ignore_errors=True)
        os.makedirs(os.path.join(top, "p", "q"))
        return top

    def _isolated(self, fn):
        saved_cwd, saved_path, saved_mods = os.getcwd(), list(sys.path), set(sys.modules)
        try:
            return fn()
        finally:
            os.chdir(saved_cwd)
            sys.path[:] = saved_path
            for m in set(sys.modules) - saved_mods:
                del sys.modules[m]

    def _siblings(self):
        from invoke.loader import FilesystemLoader
        fails, n = [], 0
        for kind in ("mod", "collide", "linkmod", "linkdir", "pkg", "pkg-late", "mod-late"):
            for start_rel in ("p", "p/q"):
                top = self._fresh()
                d = os.path.join(top, "p")
                early = None
                if kind == "collide":
                    # a module of the sibling's name sits in a directory that is already first on sys.path
                    early = os.path.join(top, "early")
                    os.makedirs(early)
                    open(os.path.join(early, "c20v_sib.py"), "w").write("VALUE = 'early-on-sys-path'\n")
                if kind == "linkdir":
                    # p itself is a symlink to a directory elsewhere; siblings live "in p"
                    shutil.rmtree(d)
                    os.makedirs(os.path.join(top, "elsewhere", "real_p", "q"))
                    os.symlink(os.path.join(top, "elsewhere", "real_p"), d)
                if kind in ("mod", "linkdir", "collide"):
                    open(os.path.join(d, "c20v_sib.py"), "w").write("VALUE = 'sib-%s'\n" % kind)
                    open(os.path.join(d, "tasks.py"), "w").write("import c20v_sib\nVALUE = c20v_sib.VALUE\n")
                elif kind == "mod-late":
                    # the sibling is imported when the task body runs, not at load time
                    open(os.path.join(d, "c20v_sib.py"), "w").write("VALUE = 'sib-mod-late'\n")
                    open(os.path.join(d, "tasks.py"), "w").write(
                        "def late():\n    import c20v_sib\n    return c20v_sib.VALUE\n")
                elif kind == "pkg-late":
                    os.makedirs(os.path.join(d, "tasks"))
                    open(os.path.join(d, "tasks", "c20v_sib.py"), "w").write("VALUE = 'sib-pkg-late'\n")
                    open(os.path.join(d, "tasks", "__init__.py"), "w").write(
                        "def late():\n    from . import c20v_sib\n    return c20v_sib.VALUE\n")
                elif kind == "linkmod":
                    # tasks.py is a symlink into another directory; the sibling sits next to the link
                    os.makedirs(os.path.join(top, "shared"))
                    open(os.path.join(top, "shared", "impl_tasks.py"), "w").write(
                        "import c20v_sib\nVALUE = c20v_sib.VALUE\n")
                    os.symlink(os.path.join(top, "shared", "impl_tasks.py"), os.path.join(d, "tasks.py"))
                    open(os.path.join(d, "c20v_sib.py"), "w").write("VALUE = 'sib-linkmod'\n")
                else:
                    os.makedirs(os.path.join(d, "tasks"))
                    open(os.path.join(d, "tasks", "c20v_sib.py"), "w").write("VALUE = 'sib-pkg'\n")
                    open(os.path.join(d, "tasks", "__init__.py"), "w").write(
                        "from . import c20v_sib\nVALUE = c20v_sib.VALUE\n")

                def go():
                    if early:
                        sys.path.insert(0, early)
                    m, parent = FilesystemLoader(start=os.path.join(top, start_rel)).load("tasks")
                    return (m.late() if kind.endswith("-late") else m.VALUE), parent
                n += 1
                try:
                    val, parent = self._isolated(go)
                    if val != "sib-" + kind or parent != d:
                        fails.append({"case": {"kind": kind, "start": start_rel}, "what": [val, parent]})
                except Exception as e:  # noqa
                    fails.append({"case": {"kind": kind, "start": start_rel}, "what": repr(e)})
        return {"name": "sibling-importable", "evaluations": n, "failures": fails,
                "note": "tasks.py (plain, symlinked, inside a symlinked directory, with a same-named module "
                        "earlier on sys.path) importing a sibling module next to it / tasks package importing a "
                        "submodule relatively; at load time and later from inside a task body"}

    def _project_path(self):
        from invoke import Program
        from invoke.config import Config
        fails, n = [], 0
        for kind in ("mod", "linkmod", "linkpkg", "pkg"):
            for start_rel in ("p", "p/q"):
                for mode in ("root", "noroot", "relroot", "cfgroot"):
                    top = self._fresh()
                    d = os.path.join(top, "p")
                    open(os.path.join(top, "invoke.yaml"), "w").write("marker: wrong-above\n")
                    open(os.path.join(d, "invoke.yaml"), "w").write("marker: right\n")
                    open(os.path.join(d, "q", "invoke.yaml"), "w").write("marker: wrong-working-directory\n")
                    body = "from invoke import task\n@task\ndef t(c):\n    pass\n"
                    if kind in ("linkmod", "linkpkg"):
                        os.makedirs(os.path.join(top, "shared"))
                        open(os.path.join(top, "shared", "invoke.yaml"), "w").write("marker: wrong-link-target\n")
                    if kind == "mod":
                        open(os.path.join(d, "tasks.py"), "w").write(body)
                    elif kind == "linkmod":
                        open(os.path.join(top, "shared", "impl_tasks.py"), "w").write(body)
                        os.symlink(os.path.join(top, "shared", "impl_tasks.py"), os.path.join(d, "tasks.py"))
                    elif kind == "linkpkg":
                        os.makedirs(os.path.join(top, "shared", "pkgimpl"))
                        open(os.path.join(top, "shared", "pkgimpl", "__init__.py"), "w").write(body)
                        os.symlink(os.path.join(top, "shared", "pkgimpl"), os.path.join(d, "tasks"))
                    else:
                        os.makedirs(os.path.join(d, "tasks"))
                        open(os.path.join(d, "tasks", "__init__.py"), "w").write(body)
                        open(os.path.join(d, "tasks", "invoke.yaml"), "w").write("marker: wrong-inside\n")
                    start_abs = os.path.join(top, start_rel)
                    prefix = os.path.join(top, "userconf.")

                    class UserConf(Config):
                        def __init__(self, *a, **kw):
                            kw.setdefault("user_prefix", prefix)
                            super().__init__(*a, **kw)

                    def go():
                        argv = ["inv", "--list"]
                        p = Program()
                        if mode == "root":
                            argv = ["inv", "--search-root", start_abs, "--list"]
                        elif mode == "noroot":
                            os.chdir(start_abs)            # invoked from (a subdirectory of) the project
                        elif mode == "relroot":
                            os.chdir(top)
                            argv = ["inv", "--search-root", start_rel, "--list"]
                        else:
                            open(prefix + "invoke.yaml", "w").write("tasks:\n  search_root: %s\n" % start_abs)
                            p = Program(config_class=UserConf)
                        p.create_config()
                        p.parse_core(argv)
                        p.load_collection()
                        return p.config._project_path, p.config._project.get("marker")
                    n += 1
                    case = {"kind": kind, "start": start_rel, "mode": mode}
                    try:
                        path, marker = self._isolated(go)
                        if path != os.path.join(d, "invoke.yaml") or marker != "right":
                            fails.append({"case": case, "what": [path, marker]})
                    except Exception as e:  # noqa
                        fails.append({"case": case, "what": repr(e)})
        return {"name": "project-config-location", "evaluations": n, "failures": fails,
                "note": "Program.load_collection -> Config._project_path is <dir of module | parent of package>/invoke.yaml, "
                        "with --search-root (absolute / relative), without it from a subdirectory of the project, and "
                        "with tasks.search_root coming from a user-level configuration file"}

    def _load_sessions(self):
        """several loads in ONE interpreter, each module importing a sibling"""
        from invoke.loader import FilesystemLoader
        fails, n = [], 0

        def project(top, nm, style, sib, value):
            d = os.path.join(top, nm)
            os.makedirs(d)
            if style == "mod":
                open(os.path.join(d, sib + ".py"), "w").write("VALUE = %r\n" % value)
                open(os.path.join(d, "tasks.py"), "w").write("import %s\nVALUE = %s.VALUE\n" % (sib, sib))
            else:
                os.makedirs(os.path.join(d, "tasks"))
                open(os.path.join(d, "tasks", sib + ".py"), "w").write("VALUE = %r\n" % value)
                open(os.path.join(d, "tasks", "__init__.py"), "w").write(
                    "from . import %s\nVALUE = %s.VALUE\n" % (sib, sib))
            return d

        for style in ("mod", "pkg"):
            for same_sibling_name in (False, True):
                for reload_first in (False, True):
                    top = self._fresh()
                    a = project(top, "projA", style, "c20v_help", "A")
                    b = project(top, "projB", style, "c20v_help" if same_sibling_name else "c20v_other", "B")

                    def go():
                        got = []
                        order = [a, b] + ([a] if reload_first else [])
                        for d in order:
                            m, parent = FilesystemLoader(start=d).load("tasks")
                            got.append([m.VALUE, parent])
                        return got
                    n += 1
                    case = {"style": style, "same_sibling_name": same_sibling_name, "third_load_of_first": reload_first}
                    want = [["A", a], ["B", b]] + ([["A", a]] if reload_first else [])
                    try:
                        got = self._isolated(go)
                    except Exception as e:  # noqa
                        fails.append({"case": case, "what": repr(e)})
                        continue
                    if got != want:
                        f = {"case": case, "what": got}
                        # F-C20d: a LATER load, in the same interpreter, of a same-named collection whose sibling
                        # (submodule / neighbouring module) has the name of one an earlier load imported
                        if same_sibling_name and [g[1] for g in got] == [w[1] for w in want] and got[0] == want[0]:
                            f["finding"] = "F-C20d"
                        fails.append(f)
        return {"name": "load-sessions", "evaluations": n, "failures": fails,
                "note": "two or three loads of same-named collections from different projects in one interpreter, "
                        "each importing a sibling (module next to tasks.py / submodule of the tasks package)"}


PROP = C20()
