"""C04: tasks run depth-first in request order; identical invocations run once."""
import itertools
import random

from .. import coqterm as ct
from ..core import Prop

PNAMES = ["xx", "yy", "flag"]
DEFAULTS = [None, False, True, 0, 1, 7, "a", ""]
VALS = [None, False, True, 0, 1, 7, 9, "a", "b", ""]


# --------------------------------------------------------------------------
# python mirrors used to *classify* cases (never to judge them)
# --------------------------------------------------------------------------
def expand(case, tid, args, kwargs, out):
    t = case["tasks"][tid]
    for h in t["pre"]:
        expand(case, h["task"], h.get("args", []), h.get("kwargs", {}), out)
    out.append((tid, tuple(args), dict(kwargs)))
    for h in t["post"]:
        expand(case, h["task"], h.get("args", []), h.get("kwargs", {}), out)


def bind(case, f):
    tid, args, kwargs = f
    ps = case["tasks"][tid]["params"]
    if len(args) > len(ps):
        return None
    b = {}
    for (p, _), a in zip(ps, args):
        b[p] = a
    for k, v in kwargs.items():
        if k in b or k not in [p for p, _ in ps]:
            return None
        b[k] = v
    for p, d in ps:
        b.setdefault(p, d)
    return b


def tree_size(case, tid, memo=None):
    memo = {} if memo is None else memo
    if tid not in memo:
        t = case["tasks"][tid]
        memo[tid] = 1 + sum(tree_size(case, h["task"], memo) for h in t["pre"] + t["post"])
    return memo[tid]


class C04(Prop):
    id = "C04"
    corr_module = "Corr.C04Corr"
    preds = ("corr", "spec", "guard")
    quick_n = 2400
    thorough_n = 40000
    shard_size = 200
    rule = ("random acyclic pre/post graphs over 1-6 tasks (plain references and call(...) with positional/keyword "
            "arguments; parameters with defaults of every leaf kind) x request sequences of 0-4 entries in the three "
            "forms (name, (name, kwargs), real ParserContext from Parser(to_contexts()).parse_argv) x dedupe on/off x "
            "default task or none; non-trivial = some task is reached at least twice or both as pre and post; "
            "distinct by whole case")
    trusted_base = [
        "Coq 8.16.1 kernel + vm_compute (shard evaluation)",
        "hand-written model coq/Model/ExecModel.v + Common/PyCall.v tied to invoke/executor.py, tasks.Call.__eq__ by "
        "differential execution of real Executor sessions (this run)",
        "harness/coqterm.py, harness/props/c04.py (graph builder, unfolding of the DAG into call trees)",
        "CPython 3.12 executing /repo (argument binding is Python's own)",
    ]
    assumptions = [
        "pre/post graphs are acyclic (the inductive [call] type cannot express a cycle; invoke itself recurses forever on one)",
        "every generated call binds to its task's signature (no TypeError); argument values are None/bool/int/str",
        "task identity = distinct body code (Task.__eq__ compares name and body code; every generated task has its own)",
    ]
    not_modelled = ["autoprint output", "config reloading per call (C19)", "Call subclasses / parameterised expansion"]

    # ---- generation --------------------------------------------------------
    def _hook(self, rng, case, j, p_args):
        t = case["tasks"][j]
        ps = t["params"]
        if not ps or rng.random() > p_args:
            return {"task": j}
        npos = rng.randint(0, len(ps))
        args = []
        for p, d in ps[:npos]:
            args.append(d if rng.random() < 0.4 else rng.choice(VALS))
        kwargs = {}
        for p, d in ps[npos:]:
            if rng.random() < 0.5:
                kwargs[p] = d if rng.random() < 0.4 else rng.choice(VALS)
        return {"task": j, "args": args, "kwargs": kwargs}

    def _gen(self, rng):
        n = rng.randint(1, 6)
        p_params = rng.choice([0.0, 0.5, 0.8])
        case = {"tasks": [], "requests": [], "default": None, "dedupe": rng.random() < 0.7}
        for i in range(n):
            ps = []
            if rng.random() < p_params:
                for p in rng.sample(PNAMES, rng.randint(1, 2)):
                    ps.append([p, rng.choice(DEFAULTS)])
            case["tasks"].append({"id": i, "name": "t%d" % i, "params": ps, "pre": [], "post": []})
        p_args = rng.choice([0.0, 0.4, 0.8])
        for i in range(n - 1):
            later = list(range(i + 1, n))
            for kind in ("pre", "post"):
                for _ in range(rng.choice([0, 0, 1, 1, 2])):
                    case["tasks"][i][kind].append(self._hook(rng, case, rng.choice(later), p_args))
        for _ in range(rng.choice([0, 1, 1, 2, 2, 3, 4])):
            tid = rng.randrange(n)
            ps = case["tasks"][tid]["params"]
            form = rng.choice(["name", "pair", "ctx", "ctx"])
            req = {"form": form, "task": tid}
            if form == "pair":
                req["kwargs"] = {p: (d if rng.random() < 0.4 else rng.choice(VALS))
                                 for p, d in ps if rng.random() < 0.6}
            if form == "ctx":
                toks = []
                for p, d in ps:
                    if rng.random() < 0.4:
                        if d is False:
                            toks += ["--" + p]
                        elif isinstance(d, bool) or d is None:
                            pass
                        elif isinstance(d, int):
                            toks += ["--" + p, str(rng.choice([0, 1, 7, 9, d]))]
                        else:
                            toks += ["--" + p, rng.choice(["a", "b", d or "a"])]
                req["tokens"] = toks
            case["requests"].append(req)
        if rng.random() < 0.4:
            case["default"] = rng.randrange(n)
        return case

    def generate(self, rng, tier, n):
        out = 0
        while out < n:
            case = self._gen(rng)
            if sum(tree_size(case, r["task"]) for r in case["requests"]) > 80:
                continue
            yield case
            out += 1

    def enumerate_small(self, tier):
        """all graphs over <= 3 tasks with <= 1 pre and <= 1 post each (plain or with the one argument given
        positionally / by keyword / as its default) x requests of <= 2 names x dedupe"""
        hooks = lambda j: [None, {"task": j}, {"task": j, "args": [1], "kwargs": {}},
                           {"task": j, "args": [], "kwargs": {"xx": 1}}, {"task": j, "args": [0], "kwargs": {}}]
        n = 3
        for h01, h02, h12p in itertools.product(hooks(1), hooks(2), hooks(2)):
            for post in (False, True):
                tasks = [{"id": i, "name": "t%d" % i, "params": [["xx", 0]], "pre": [], "post": []} for i in range(n)]
                if h01:
                    tasks[0]["pre"].append(h01)
                if h02:
                    tasks[0]["post" if post else "pre"].append(h02)
                if h12p:
                    tasks[1]["post" if post else "pre"].append(h12p)
                for reqs in [[0], [0, 1], [2, 0], [1, 2], []]:
                    for form in ("name", "ctx"):
                        for dd in (True, False):
                            yield {"tasks": tasks, "default": 0, "dedupe": dd,
                                   "requests": [{"form": form, "task": r, "tokens": []} for r in reqs]}

    # ---- implementation ------------------------------------------------------
    def run_impl(self, case):
        from invoke import Collection, Config, Executor, Task, call
        from invoke.parser import Parser
        log = []
        objs = {}

        def on_call(tid, kw):
            log.append([tid, kw])
            return len(log) - 1

        for t in reversed(case["tasks"]):
            ps = ", ".join("%s=%r" % (p, d) for p, d in t["params"])
            src = "def body(c%s):\n    return _run(%d, dict(%s))\n" % (
                (", " + ps) if ps else "", t["id"], ", ".join("%s=%s" % (p, p) for p, _ in t["params"]))
            ns_ = {"_run": on_call}
            exec(src, ns_)
            body = ns_["body"]
            body.__name__ = t["name"]

            def hook(h):
                if "args" not in h and "kwargs" not in h:
                    return objs[h["task"]]
                return call(objs[h["task"]], *h.get("args", []), **h.get("kwargs", {}))
            task = Task(body, name=t["name"], pre=[hook(h) for h in t["pre"]], post=[hook(h) for h in t["post"]])
            task._verif_id = t["id"]
            objs[t["id"]] = task
        coll = Collection()
        for t in case["tasks"]:
            coll.add_task(objs[t["id"]], default=(case["default"] == t["id"]))
        reqs, req_kwargs = [], []
        try:
            for r in case["requests"]:
                name = case["tasks"][r["task"]]["name"]
                if r["form"] == "name":
                    reqs.append(name)
                    req_kwargs.append({})
                elif r["form"] == "pair":
                    reqs.append((name, dict(r["kwargs"])))
                    req_kwargs.append(dict(r["kwargs"]))
                else:
                    parsed = Parser(contexts=coll.to_contexts()).parse_argv([name] + r.get("tokens", []))
                    ctx = parsed[0]
                    reqs.append(ctx)
                    req_kwargs.append(dict(ctx.as_kwargs))
        except Exception as e:  # a request the parser refuses: not a C04 case
            return {"req_kwargs": None, "err": "request:" + type(e).__name__}
        cfg = Config(overrides={"tasks": {"dedupe": bool(case["dedupe"])}})
        try:
            results = Executor(coll, config=cfg).execute(*reqs)
        except RecursionError:
            return {"req_kwargs": req_kwargs, "err": "RecursionError"}
        except Exception as e:  # noqa
            return {"req_kwargs": req_kwargs, "err": type(e).__name__}
        return {"req_kwargs": req_kwargs, "ok": {"log": log, "results": [[k._verif_id, v] for k, v in results.items()]}}

    # ---- Coq terms -------------------------------------------------------------
    def _kw(self, d):
        return ct.lst([ct.pair(ct.s(k), ct.value(v)) for k, v in d.items()])

    def _tree(self, case, tid, args, kwargs):
        t = case["tasks"][tid]
        sub = lambda hs: ct.lst([self._tree(case, h["task"], h.get("args", []), h.get("kwargs", {})) for h in hs])
        return "(Call %s %s %s %s %s)" % (ct.n(tid), ct.lst([ct.value(a) for a in args]), self._kw(kwargs),
                                          sub(t["pre"]), sub(t["post"]))

    def to_coq(self, case, obs):
        sigs = ct.lst([ct.pair(ct.n(t["id"]), ct.lst([ct.pair(ct.s(p), ct.value(d)) for p, d in t["params"]]))
                       for t in case["tasks"]])
        rk = obs.get("req_kwargs")
        if rk is None:   # unusable request: an empty, trivially true case
            return "(mk %s [] None true (Ok ([], [])))" % sigs
        reqs = ct.lst([ct.pair(self._tree(case, r["task"], [], {}), self._kw(k))
                       for r, k in zip(case["requests"], rk)])
        dflt = ct.opt(self._tree(case, case["default"], [], {}) if case["default"] is not None else None)
        if "err" in obs:
            o = "(Err %s)" % ct.err(obs["err"])
        else:
            log = ct.lst([ct.pair(ct.n(t), self._kw(kw)) for t, kw in obs["ok"]["log"]])
            res = ct.lst([ct.pair(ct.n(t), ct.n(v)) for t, v in obs["ok"]["results"]])
            o = "(Ok (%s, %s))" % (log, res)
        return "(mk %s %s %s %s %s)" % (sigs, reqs, dflt, ct.b(case["dedupe"]), o)

    # ---- classification ----------------------------------------------------------
    def _order(self, case, obs):
        out = []
        rk = obs.get("req_kwargs") or []
        if case["requests"]:
            for r, k in zip(case["requests"], rk):
                expand(case, r["task"], [], k, out)
        elif case["default"] is not None:
            expand(case, case["default"], [], {}, out)
        return out

    def nontrivial(self, case, obs):
        order = self._order(case, obs)
        tids = [f[0] for f in order]
        return len(set(tids)) < len(tids)

    def classify(self, case, obs):
        if obs.get("req_kwargs") is None:
            return "request-refused"
        if "err" in obs:
            return "err:" + obs["err"]
        order = self._order(case, obs)
        kind = "dedupe-on" if case["dedupe"] else "dedupe-off"
        if len(obs["ok"]["log"]) < len(order):
            kind += ":skipped"
        if not case["requests"]:
            kind += ":default" if case["default"] is not None else ":nothing"
        return kind

    def finding_of(self, case, obs):
        """F-C04: dedupe is on and two calls of the session have the same
        effective arguments but differ literally"""
        if not case["dedupe"] or obs.get("req_kwargs") is None:
            return None
        order = self._order(case, obs)
        for a, b in itertools.combinations(order, 2):
            if a[0] == b[0] and (a[1], a[2]) != (b[1], b[2]):
                ba, bb = bind(case, a), bind(case, b)
                if ba is not None and ba == bb:
                    return "F-C04"
        return None

    def shrink_candidates(self, case):
        reqs = case["requests"]
        for i in range(len(reqs)):
            yield dict(case, requests=reqs[:i] + reqs[i + 1:])
        for ti, t in enumerate(case["tasks"]):
            for kind in ("pre", "post"):
                for hi in range(len(t[kind])):
                    t2 = dict(t)
                    t2[kind] = t[kind][:hi] + t[kind][hi + 1:]
                    yield dict(case, tasks=case["tasks"][:ti] + [t2] + case["tasks"][ti + 1:])
                for hi, h in enumerate(t[kind]):
                    if "args" in h or "kwargs" in h:
                        t2 = dict(t)
                        t2[kind] = t[kind][:hi] + [{"task": h["task"]}] + t[kind][hi + 1:]
                        yield dict(case, tasks=case["tasks"][:ti] + [t2] + case["tasks"][ti + 1:])
        for i, r in enumerate(reqs):
            if r["form"] != "name":
                yield dict(case, requests=reqs[:i] + [{"form": "name", "task": r["task"]}] + reqs[i + 1:])

    def mutate(self, case, rng):
        for _ in range(30):
            c = dict(case)
            c["dedupe"] = rng.random() < 0.7
            n = len(case["tasks"])
            c["requests"] = [{"form": rng.choice(["name", "ctx"]), "task": rng.randrange(n), "tokens": []}
                             for _ in range(rng.randint(1, 3))]
            yield c


PROP = C04()
