"""C04: tasks run depth-first in request order; identical invocations run once."""
import contextlib
import io
import itertools
import random
import time

from .. import coqterm as ct
from ..core import Prop

PNAMES = ["xx", "yy", "flag", "items"]
DEFAULTS = [None, False, True, 0, 1, 7, "a", ""]
VALS = [None, False, True, 0, 1, 7, 9, "a", "b", ""]
LISTS = [[], ["p"], ["p", "q"], ["q"]]


def _shuffled(rng, d):
    """the same keyword arguments, written in another order"""
    items = list(d.items())
    rng.shuffle(items)
    return dict(items)


def _val(rng, default):
    """an argument value of the parameter's kind (list parameters get lists)"""
    if isinstance(default, list):
        return list(rng.choice(LISTS))
    return default if rng.random() < 0.4 else rng.choice(VALS)
BOUND = ["build", "deploy", "clean", "test", "docs", "lint"]
ALIASES = ["b", "d", "cl", "t", "dx", "ln"]
COLLS = ["root", "sub", "lib"]


# --------------------------------------------------------------------------
# python mirrors used to *classify* cases (never to judge them)
# --------------------------------------------------------------------------
def expand(case, tid, args, kwargs, out):
    t = case["tasks"][tid]
    for h in t["pre"]:
        expand(case, h["task"], h.get("args", []), h.get("kwargs", {}), out)
    out.append((tid, tuple(args), dict(kwargs)))
    for h in t["post"]:
        expand(case, h["task"], h.get("args", []), h.get("kwargs", {}), out)


def bind(case, f):
    tid, args, kwargs = f
    ps = case["tasks"][tid]["params"]
    if len(args) > len(ps):
        return None
    b = {}
    for (p, _), a in zip(ps, args):
        b[p] = a
    for k, v in kwargs.items():
        if k in b or k not in [p for p, _ in ps]:
            return None
        b[k] = v
    for p, d in ps:
        b.setdefault(p, d)
    return b


def tree_size(case, tid, memo=None):
    memo = {} if memo is None else memo
    if tid not in memo:
        t = case["tasks"][tid]
        memo[tid] = 1 + sum(tree_size(case, h["task"], memo) for h in t["pre"] + t["post"])
    return memo[tid]


def names_of(case, tid):
    """every dotted name the task answers to on the command line: (kind, name)"""
    t = case["tasks"][tid]
    pre = "" if t["coll"] == "root" else t["coll"] + "."
    out = [("primary", pre + t["bound"])] + [("alias", pre + a) for a in t.get("aliases", [])]
    if t["coll"] != "root" and t.get("default"):
        out.append(("shortcut", t["coll"]))
    return out


def default_tid(case):
    """the task `prog` without arguments runs"""
    rd = case.get("root_default")
    for t in case["tasks"]:
        if rd is None and t["coll"] == "root" and t.get("default"):
            return t["id"]
        if rd is not None and t["coll"] == rd and t.get("default"):
            return t["id"]
    return None


def eq_class(case, tid):
    t = case["tasks"][tid]
    return ("factory", t["factory"]) if t.get("factory") is not None else ("own", tid)


class C04(Prop):
    id = "C04"
    corr_module = "Corr.C04Corr"
    preds = ("corr", "spec", "guard", "adj_literal", "adj_classes")
    quick_n = 2400
    thorough_n = 40000
    shard_size = 200
    rule = ("random acyclic pre/post graphs over 1-6 tasks spread over a root collection and two sub-collections "
            "(same bound names in different collections, own aliases, default tasks, a sub-collection as root default; "
            "groups of tasks made by one factory function: same name, same code object, different closure), hooks as "
            "plain references and call(...) with positional/keyword arguments, graphs built with Task(...) or the "
            "@task decorator x request sequences of 0-4 entries (names, aliases and collection shortcuts; as strings, "
            "(name, kwargs) pairs, ParserContexts parsed one by one or all from ONE command line) x dedupe on/off; "
            "observed arguments compared type-strictly; non-trivial = some task is reached at least twice; distinct "
            "by whole case")
    trusted_base = [
        "Coq 8.16.1 kernel + vm_compute (shard evaluation)",
        "hand-written model coq/Model/ExecModel.v + Common/PyCall.v tied to invoke/executor.py, tasks.Call.__eq__, "
        "Task.__eq__ by differential execution of real Executor sessions (this run)",
        "harness/coqterm.py, harness/props/c04.py (graph builder, unfolding of the DAG into call trees, the "
        "assignment of tasks to Task.__eq__ classes: same factory = same class)",
        "CPython 3.12 executing /repo (argument binding is Python's own)",
    ]
    assumptions = [
        "pre/post graphs are acyclic (the inductive [call] type cannot express a cycle; invoke itself recurses forever on one)",
        "every generated call binds to its task's signature (no TypeError); argument values are None/bool/int/str and "
        "lists of strings (iterable parameters)",
        "'identical' = same task object and Python-equal effective arguments; the arguments a body receives are "
        "compared type-strictly with the ones specified",
        "names are plain lower-case words (normalisation is C10's subject)",
    ]
    not_modelled = ["config reloading per call (C19)", "Call subclasses / parameterised expansion"]

    # ---- generation --------------------------------------------------------
    def _hook(self, rng, case, j, p_args):
        t = case["tasks"][j]
        ps = t["params"]
        if not ps or rng.random() > p_args:
            return {"task": j}
        npos = rng.randint(0, len(ps))
        args = []
        for p, d in ps[:npos]:
            args.append(_val(rng, d))
        kwargs = {}
        for p, d in ps[npos:]:
            if rng.random() < 0.5:
                kwargs[p] = _val(rng, d)
        kwargs = _shuffled(rng, kwargs)
        return {"task": j, "args": args, "kwargs": kwargs}

    def _gen(self, rng):
        n = rng.randint(1, 6)
        p_params = rng.choice([0.0, 0.5, 0.8])
        flat = rng.random() < 0.3
        case = {"tasks": [], "requests": [], "root_default": None, "dedupe": rng.random() < 0.7,
                "cmdline": False, "decorator": rng.random() < 0.4}
        used = {c: set() for c in COLLS}
        has_default = {c: False for c in COLLS}
        n_fact = 0
        for i in range(n):
            coll = "root" if flat else rng.choice(COLLS)
            ps = []
            if rng.random() < p_params:
                for p in rng.sample(PNAMES, rng.randint(1, 2)):
                    # "items" is an iterable parameter: default [], values are lists
                    ps.append([p, [] if p == "items" else rng.choice(DEFAULTS)])
            factory = None
            own = None
            # a sibling made by the same factory as an earlier task
            if case["tasks"] and rng.random() < 0.15:
                src = rng.choice(case["tasks"])
                if src.get("factory") is None:
                    n_fact += 1
                    src["factory"] = n_fact
                factory, ps, own = src["factory"], [list(p) for p in src["params"]], src["name"]
            free = [b for b in BOUND if b not in used[coll]]
            if not free:
                coll = "root"
                free = [b for b in BOUND + ["extra%d" % i] if b not in used[coll]]
            bound = rng.choice(free)
            used[coll].add(bound)
            aliases = []
            if rng.random() < 0.35:
                fa = [a for a in ALIASES if a not in used[coll]]
                if fa:
                    aliases = [rng.choice(fa)]
                    used[coll].add(aliases[0])
            dflt = False
            if not has_default[coll] and rng.random() < 0.4:
                dflt = has_default[coll] = True
            case["tasks"].append({"id": i, "name": own or bound, "bound": bound, "coll": coll, "aliases": aliases,
                                  "params": ps, "pre": [], "post": [], "factory": factory, "default": dflt,
                                  "autoprint": rng.random() < 0.4})
        p_args = rng.choice([0.0, 0.4, 0.8])
        for i in range(n - 1):
            later = list(range(i + 1, n))
            for kind in ("pre", "post"):
                for _ in range(rng.choice([0, 0, 1, 1, 2])):
                    case["tasks"][i][kind].append(self._hook(rng, case, rng.choice(later), p_args))
        # the root's default may be a sub-collection (then the root has no default task of its own)
        subs_with_default = [c for c in ("sub", "lib") if has_default[c]]
        if subs_with_default and not has_default["root"] and rng.random() < 0.6:
            case["root_default"] = rng.choice(subs_with_default)
        nreq = rng.choice([0, 1, 1, 2, 2, 3, 4])
        cmdline = rng.random() < 0.3
        case["cmdline"] = cmdline
        for _ in range(nreq):
            # the same task again, under another of its names, fairly often
            if case["requests"] and rng.random() < 0.35:
                tid = rng.choice(case["requests"])["task"]
            else:
                tid = rng.randrange(n)
            ps = case["tasks"][tid]["params"]
            form = "ctx" if cmdline else rng.choice(["name", "name", "pair", "ctx", "ctx"])
            kind, nm = rng.choice(names_of(case, tid))
            req = {"form": form, "task": tid, "as": nm}
            if form == "pair":
                req["kwargs"] = _shuffled(rng, {p: _val(rng, d) for p, d in ps if rng.random() < 0.6})
            if form == "ctx":
                toks = []
                for p, d in ps:
                    if rng.random() < 0.4:
                        if isinstance(d, list):
                            for v in rng.choice(LISTS[1:]):
                                toks += ["--" + p, v]
                        elif d is False:
                            toks += ["--" + p]
                        elif isinstance(d, bool) or d is None:
                            pass
                        elif isinstance(d, int):
                            toks += ["--" + p, str(rng.choice([0, 1, 7, 9, d]))]
                        else:
                            toks += ["--" + p, rng.choice(["a", "b", d or "a"])]
                req["tokens"] = toks
            case["requests"].append(req)
        return case

    def generate(self, rng, tier, n):
        out = 0
        while out < n:
            case = self._gen(rng)
            if sum(tree_size(case, r["task"]) for r in case["requests"]) > 80:
                continue
            yield case
            out += 1

    def enumerate_small(self, tier):
        """all graphs over 3 tasks (one in a sub-collection, with an alias and as its default) with <= 1 pre and
        <= 1 post each (plain or with the one argument given positionally / by keyword / as its default) x
        request sequences under every name x both request styles x dedupe"""
        hooks = lambda j: [None, {"task": j}, {"task": j, "args": [1], "kwargs": {}},
                           {"task": j, "args": [], "kwargs": {"xx": 1}}, {"task": j, "args": [0], "kwargs": {}}]
        n = 3
        for h01, h02, h12p in itertools.product(hooks(1), hooks(2), hooks(2)):
            for post in (False, True):
                tasks = [{"id": i, "name": "t%d" % i, "bound": "t%d" % i, "coll": "root" if i < 2 else "sub",
                          "aliases": ["a%d" % i] if i != 1 else [], "params": [["xx", 0]], "pre": [], "post": [],
                          "factory": None, "default": i != 1} for i in range(n)]
                if h01:
                    tasks[0]["pre"].append(h01)
                if h02:
                    tasks[0]["post" if post else "pre"].append(h02)
                if h12p:
                    tasks[1]["post" if post else "pre"].append(h12p)
                for reqs in [[(0, "t0")], [(0, "t0"), (0, "a0")], [(2, "sub.t2"), (2, "sub"), (0, "t0")],
                             [(1, "t1"), (2, "sub.a2")], []]:
                    for form in ("name", "ctx"):
                        for dd in (True, False):
                            yield {"tasks": tasks, "root_default": None, "dedupe": dd, "cmdline": form == "ctx",
                                   "decorator": post,
                                   "requests": [{"form": form, "task": t, "as": nm, "tokens": []} for t, nm in reqs]}

    # ---- implementation ------------------------------------------------------
    def run_impl(self, case):
        from invoke import Collection, Config, Executor, Task, call, task as task_deco
        from invoke.parser import Parser
        log = []
        objs = {}
        factories = {}

        def on_call(tid, kw):
            log.append([tid, kw])
            return len(log) - 1

        for t in reversed(case["tasks"]):
            ps = ", ".join("%s=%r" % (p, d) for p, d in t["params"])
            call_kw = ", ".join("%s=%s" % (p, p) for p, _ in t["params"])
            if t.get("factory") is not None:
                # one factory function per group: same code object, the task id lives in the closure
                if t["factory"] not in factories:
                    # (the group number is a constant of the code object: different factories differ)
                    src = ("def make(tid):\n    def body(c%s):\n        _group = %d\n        return _run(tid, dict(%s))\n"
                           "    return body\n" % ((", " + ps) if ps else "", t["factory"], call_kw))
                    ns_ = {"_run": on_call}
                    exec(src, ns_)
                    factories[t["factory"]] = ns_["make"]
                body = factories[t["factory"]](t["id"])
            else:
                src = "def body(c%s):\n    return _run(%d, dict(%s))\n" % ((", " + ps) if ps else "", t["id"], call_kw)
                ns_ = {"_run": on_call}
                exec(src, ns_)
                body = ns_["body"]
            body.__name__ = t["name"]

            def hook(h):
                if "args" not in h and "kwargs" not in h:
                    return objs[h["task"]]
                return call(objs[h["task"]], *h.get("args", []), **h.get("kwargs", {}))
            pre = [hook(h) for h in t["pre"]]
            post = [hook(h) for h in t["post"]]
            kw = dict(name=t["name"], aliases=tuple(t.get("aliases", [])), post=post,
                      autoprint=bool(t.get("autoprint")),
                      iterable=[p for p, d in t["params"] if isinstance(d, list)])
            if case.get("decorator"):
                tk = task_deco(*pre, **kw)(body) if pre else task_deco(**kw)(body)
            else:
                tk = Task(body, pre=pre, **kw)
            tk._verif_id = t["id"]
            objs[t["id"]] = tk
        colls = {"root": Collection()}
        for cname in ("sub", "lib"):
            if any(t["coll"] == cname for t in case["tasks"]):
                colls[cname] = Collection(cname)
        for t in case["tasks"]:
            colls[t["coll"]].add_task(objs[t["id"]], name=t["bound"], default=bool(t.get("default")))
        for cname in ("sub", "lib"):
            if cname in colls:
                colls["root"].add_collection(colls[cname], default=(case.get("root_default") == cname))
        coll = colls["root"]
        reqs, req_kwargs = [], []
        try:
            if case.get("cmdline") and case["requests"]:
                argv = []
                for r in case["requests"]:
                    argv += [r["as"]] + r.get("tokens", [])
                parsed = Parser(contexts=coll.to_contexts()).parse_argv(argv)
                if len(parsed) != len(case["requests"]):
                    raise ValueError("command line parsed into %d contexts" % len(parsed))
                for ctx in parsed:
                    reqs.append(ctx)
                    req_kwargs.append(dict(ctx.as_kwargs))
            else:
                for r in case["requests"]:
                    if r["form"] == "name":
                        reqs.append(r["as"])
                        req_kwargs.append({})
                    elif r["form"] == "pair":
                        reqs.append((r["as"], dict(r["kwargs"])))
                        req_kwargs.append(dict(r["kwargs"]))
                    else:
                        ctx = Parser(contexts=coll.to_contexts()).parse_argv([r["as"]] + r.get("tokens", []))[0]
                        reqs.append(ctx)
                        req_kwargs.append(dict(ctx.as_kwargs))
        except Exception as e:  # a request the parser refuses: not a C04 case
            return {"req_kwargs": None, "err": "request:" + type(e).__name__}
        cfg = Config(overrides={"tasks": {"dedupe": bool(case["dedupe"])}})
        out = io.StringIO()
        try:
            with contextlib.redirect_stdout(out):
                results = Executor(coll, config=cfg).execute(*reqs)
        except RecursionError:
            return {"req_kwargs": req_kwargs, "err": "RecursionError"}
        except Exception as e:  # noqa
            return {"req_kwargs": req_kwargs, "err": type(e).__name__}
        # every body returns its position in the log; autoprint prints it
        try:
            printed = [int(x) for x in out.getvalue().split()]
        except ValueError:
            printed = [-1]
        return {"req_kwargs": req_kwargs, "ok": {"log": log, "results": [[k._verif_id, v] for k, v in results.items()],
                                                 "printed": printed}}

    # ---- Coq terms -------------------------------------------------------------
    def _kw(self, d):
        return ct.lst([ct.pair(ct.s(k), ct.value(v)) for k, v in d.items()])

    def _tree(self, case, tid, args, kwargs):
        t = case["tasks"][tid]
        sub = lambda hs: ct.lst([self._tree(case, h["task"], h.get("args", []), h.get("kwargs", {})) for h in hs])
        return "(Call %s %s %s %s %s)" % (ct.n(tid), ct.lst([ct.value(a) for a in args]), self._kw(kwargs),
                                          sub(t["pre"]), sub(t["post"]))

    def to_coq(self, case, obs):
        sigs = ct.lst([ct.pair(ct.n(t["id"]), ct.lst([ct.pair(ct.s(p), ct.value(d)) for p, d in t["params"]]))
                       for t in case["tasks"]])
        eqk = ct.lst([ct.pair(ct.n(t["id"]), ct.n(1000 + t["factory"])) for t in case["tasks"]
                      if t.get("factory") is not None])
        rk = obs.get("req_kwargs")
        autop = ct.lst([ct.n(t["id"]) for t in case["tasks"] if t.get("autoprint")])
        if rk is None:   # unusable request: an empty, trivially true case
            return "(mk %s %s [] None true (Ok ([], [])) %s [])" % (sigs, eqk, autop)
        reqs = ct.lst([ct.pair(self._tree(case, r["task"], [], {}), self._kw(k))
                       for r, k in zip(case["requests"], rk)])
        dt = default_tid(case)
        dflt = ct.opt(self._tree(case, dt, [], {}) if dt is not None else None)
        if "err" in obs:
            o = "(Err %s)" % ct.err(obs["err"])
        else:
            log = ct.lst([ct.pair(ct.n(t), self._kw(kw)) for t, kw in obs["ok"]["log"]])
            res = ct.lst([ct.pair(ct.n(t), ct.n(v)) for t, v in obs["ok"]["results"]])
            o = "(Ok (%s, %s))" % (log, res)
        pr = ct.lst([ct.n(i) if i >= 0 else "9999%nat" for i in (obs["ok"]["printed"] if "ok" in obs else [])])
        return "(mk %s %s %s %s %s %s %s %s)" % (sigs, eqk, reqs, dflt, ct.b(case["dedupe"]), o, autop, pr)

    # ---- classification ----------------------------------------------------------
    def _order(self, case, obs):
        out = []
        rk = obs.get("req_kwargs") or []
        if case["requests"]:
            for r, k in zip(case["requests"], rk):
                expand(case, r["task"], [], k, out)
        else:
            dt = default_tid(case)
            if dt is not None:
                expand(case, dt, [], {}, out)
        return out

    def nontrivial(self, case, obs):
        order = self._order(case, obs)
        tids = [f[0] for f in order]
        return len(set(tids)) < len(tids)

    def classify(self, case, obs):
        if obs.get("req_kwargs") is None:
            return "request-refused"
        if "err" in obs:
            return "err:" + obs["err"]
        order = self._order(case, obs)
        kind = "dedupe-on" if case["dedupe"] else "dedupe-off"
        if len(obs["ok"]["log"]) < len(order):
            kind += ":skipped"
        if not case["requests"]:
            kind += ":default" if default_tid(case) is not None else ":nothing"
        elif case.get("cmdline"):
            kind += ":cmdline"
        return kind

    def finding_of(self, case, obs, verdict=None):
        """F-C04: dedupe on and two calls of one task have the same effective arguments but differ literally.
        F-C04c: dedupe on and two *different* tasks of one factory (same Task.__eq__ class) are called with
        Python-equal literal arguments.  (The adjusted judgement is made in Coq: core consults this only
        when the faithful model agrees with the implementation.)"""
        if obs.get("req_kwargs") is None:
            return None
        # (with dedupe off the same two equalities still decide which executions autoprint)
        order = self._order(case, obs)
        lit = fac = False
        for a, b in itertools.combinations(order, 2):
            if eq_class(case, a[0]) == eq_class(case, b[0]) and (a[1], a[2]) != (b[1], b[2]):
                ba, bb = bind(case, a), bind(case, b)
                if ba is not None and ba == bb:
                    lit = True
            if a[0] != b[0] and eq_class(case, a[0]) == eq_class(case, b[0]) and (a[1], a[2]) == (b[1], b[2]):
                fac = True
        # the judgement itself is made in Coq: the specification with the finding's expectation
        # substituted must accept the observation
        v = verdict or {}
        if lit and v.get("adj_literal"):
            return "F-C04"
        if fac and v.get("adj_classes"):
            return "F-C04c"
        if lit and fac:
            return "F-C04c"      # both mechanisms in one session (each is listed; the model agrees)
        return None

    _shrink_t0 = None

    def shrink_candidates(self, case):
        if self._shrink_t0 is None:
            self._shrink_t0 = time.time()
        if time.time() - self._shrink_t0 > 60:
            return
        reqs = case["requests"]
        for i in range(len(reqs)):
            yield dict(case, requests=reqs[:i] + reqs[i + 1:])
        for ti, t in enumerate(case["tasks"]):
            for kind in ("pre", "post"):
                for hi in range(len(t[kind])):
                    t2 = dict(t)
                    t2[kind] = t[kind][:hi] + t[kind][hi + 1:]
                    yield dict(case, tasks=case["tasks"][:ti] + [t2] + case["tasks"][ti + 1:])
                for hi, h in enumerate(t[kind]):
                    if "args" in h or "kwargs" in h:
                        t2 = dict(t)
                        t2[kind] = t[kind][:hi] + [{"task": h["task"]}] + t[kind][hi + 1:]
                        yield dict(case, tasks=case["tasks"][:ti] + [t2] + case["tasks"][ti + 1:])
        if case.get("cmdline"):
            yield dict(case, cmdline=False)
        if case.get("decorator"):
            yield dict(case, decorator=False)
        for i, r in enumerate(reqs):
            if r["form"] != "name" and not case.get("cmdline"):
                yield dict(case, requests=reqs[:i] + [{"form": "name", "task": r["task"], "as": r["as"]}] + reqs[i + 1:])

    def mutate(self, case, rng):
        for _ in range(30):
            c = dict(case)
            c["dedupe"] = rng.random() < 0.7
            c["cmdline"] = False
            n = len(case["tasks"])
            reqs = []
            for _ in range(rng.randint(1, 3)):
                tid = rng.randrange(n)
                reqs.append({"form": rng.choice(["name", "ctx"]), "task": tid,
                             "as": rng.choice(names_of(case, tid))[1], "tokens": []})
            c["requests"] = reqs
            yield c


PROP = C04()
