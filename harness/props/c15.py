"""C15: the command, options and environment actually used are the documented resolution.

Two kinds of cases, both on the real code with a capturing Runner subclass that
records what `start(command, shell, env)` received and stops before any IO:

  opts : one Runner.run(command, **kwargs) -- options given as keyword argument /
         explicit None / configured / neither; observes the exception class, the
         arguments of start, the echoed text, self.opts, self.streams, using_pty,
         watchers and the kind of return value;
  ctx  : a program of nested `with c.cd(..)` / `with c.prefix(..)` / try-except
         blocks around c.run / c.sudo calls on a real Context; observes the start
         arguments call by call, the two stacks afterwards and whether an
         exception came out.
"""
import contextlib
import io
import itertools
import os
import sys
from unittest import mock

from .. import coqterm as ct
from ..core import Prop

OPTS = ["asynchronous", "disown", "dry", "echo", "echo_stdin", "encoding", "env", "err_stream",
        "fallback", "hide", "in_stream", "out_stream", "echo_format", "pty", "replace_env", "shell",
        "warn", "watchers"]
COQ_OPT = {"asynchronous": "Asynchronous", "disown": "Disown", "dry": "Dry", "echo": "Echo",
           "echo_stdin": "EchoStdin", "encoding": "Encoding", "env": "Env", "err_stream": "ErrStream",
           "fallback": "Fallback", "hide": "Hide", "in_stream": "InStream", "out_stream": "OutStream",
           "echo_format": "EchoFormat", "pty": "Pty", "replace_env": "ReplaceEnv", "shell": "Shell",
           "warn": "Warn", "watchers": "Watchers"}

S1, S2 = {"stream": "S1"}, {"stream": "S2"}
ENVS = [{"dict": {}}, {"dict": {"A": "x"}}, {"dict": {"B": "2", "A": "z"}}, {"dict": {"LANG": "C"}}]
POOL = {
    "asynchronous": [True, False], "disown": [True, False], "dry": [True, False],
    "echo": [True, False], "echo_stdin": [True, False], "encoding": ["utf-8", "latin-1"],
    "env": ENVS, "err_stream": [S1, S2], "fallback": [True, False],
    "hide": [True, False, "out", "stdout", "err", "stderr", "both", "bogus"],
    "in_stream": [False, S1, S2], "out_stream": [S1, S2],
    "echo_format": ["RUN {command}!", "{command}", "$ {command} # {command}"],
    "pty": [True, False], "replace_env": [True, False], "shell": ["/bin/sh", "zsh"],
    "warn": [True, False], "watchers": [{"list": ["w1"]}, {"list": []}, {"list": ["w1", "w2"]}],
}
PARENTS = [{"A": "1", "HOME": "/h"}, {}, {"PATH": "/bin", "B": "0"},
           {"SHELL": "/bin/zsh", "HOME": "/h2"}, {"SHELL": "/usr/bin/fish", "COMSPEC": "cmd.exe", "A": "0"}]


class Boom(Exception):
    pass


class Stream:
    def __init__(self, tag):
        self.tag = tag

    def write(self, s):
        return len(s)

    def flush(self):
        pass

    def read(self, n=1):
        return ""


class Watcher:
    def __init__(self, tag):
        self.tag = tag

    def submit(self, stream):
        return []


def to_py(v):
    if isinstance(v, dict):
        if "dict" in v:
            return dict(v["dict"])
        if "stream" in v:
            return Stream(v["stream"])
        if "list" in v:
            return [Watcher(t) for t in v["list"]]
    return v


def canon(v):
    if isinstance(v, Stream):
        return {"stream": v.tag}
    if v is sys.stdout:
        return {"stream": "sys.stdout"}
    if v is sys.stderr:
        return {"stream": "sys.stderr"}
    if v is sys.stdin:
        return {"stream": "sys.stdin"}
    if isinstance(v, dict):
        return {"dict": {str(k): str(x) for k, x in v.items()}}
    if isinstance(v, (list, tuple)):
        return {"list": [x.tag if isinstance(x, Watcher) else
                         "<sudo>" if type(x).__name__ == "FailingResponder" else str(x) for x in v]}
    if v is None or isinstance(v, (bool, int, str)):
        return v
    if hasattr(v, "items"):       # DataProxy around a configured dict
        return {"dict": {str(k): str(x) for k, x in v.items()}}
    return {"stream": "?" + type(v).__name__}


def oval(v):
    if v is None:
        return "ONone"
    if v is True or v is False:
        return "(OBool %s)" % ct.b(v)
    if isinstance(v, int):
        return "(OInt %s)" % ct.z(v)
    if isinstance(v, str):
        return "(OStr %s)" % ct.s(v)
    if "dict" in v:
        return "(ODict %s)" % envterm(v["dict"])
    if "stream" in v:
        return "(OStream %s)" % ct.s(v["stream"])
    return "(OList %s)" % ct.strs(v["list"])


def envterm(d):
    return ct.lst([ct.pair(ct.s(k), ct.s(x)) for k, x in d.items()])


def table(d):
    return "(table %s)" % ct.lst([ct.pair(COQ_OPT[k], oval(v)) for k, v in d.items() if k in COQ_OPT])


def cfgterm(cfg):
    return "(mkCfg %s %s)" % (table(cfg.get("run", {})), oval(cfg.get("timeout")))


_CAP = {}


def capturing_class():
    if "cls" in _CAP:
        return _CAP["cls"]
    from invoke.runners import Runner

    class Capturing(Runner):
        input_sleep = 0
        instances = []

        def __init__(self, *a, **kw):
            super().__init__(*a, **kw)
            self.started = None
            Capturing.instances.append(self)

        def start(self, command, shell, env, timeout=None):
            self.started = [command, canon(shell), dict(env)]

        def echo(self, command):
            buf = io.StringIO()
            with contextlib.redirect_stdout(buf):
                super().echo(command)
            self.echoed = getattr(self, "echoed", "") + buf.getvalue()
            sys.stdout.write(buf.getvalue())

        def create_io_threads(self):
            return {}, [], []

        def start_timer(self, timeout):
            self.timer_armed = ("armed", timeout)

        def read_proc_stdout(self, num_bytes):
            return b""

        def read_proc_stderr(self, num_bytes):
            return b""

        def _write_proc_stdin(self, data):
            pass

        def close_proc_stdin(self):
            pass

        @property
        def process_is_finished(self):
            return True

        def returncode(self):
            # a command containing the word "false" exits 1
            return 1 if self.started and "false" in self.started[0] else 0

        @property
        def timed_out(self):
            return False

        def stop(self):
            pass

        def kill(self):
            pass

    _CAP["cls"] = Capturing
    return Capturing


def make_config(cfg, extra=None):
    from invoke import Config
    over = {"run": {k: to_py(v) for k, v in cfg.get("run", {}).items()}}
    if "timeout" in cfg:
        over["timeouts"] = {"command": cfg["timeout"]}
    over.update(extra or {})
    return Config(overrides=over)


def observe(r, exc, res, echo):
    """canonical view of one Runner.run on a capturing runner (call inside the patched environment)"""
    from invoke.runners import Promise, Result
    obs = {}
    if exc is None and r is not None and hasattr(r, "opts"):
        opts = {k: canon(r.opts[k]) for k in OPTS}
        obs["res"] = {
            "opts": opts, "timeout": canon(r.opts["timeout"]),
            "out": canon(r.streams["out"]), "err": canon(r.streams["err"]), "in": canon(r.streams["in"]),
            "pty": canon(r.using_pty), "watchers": canon(r.watchers),
            "extra_opts": sorted(k for k in r.opts if k not in OPTS and k != "timeout"),
        }
    if exc is None and r is not None and hasattr(r, "opts") and hasattr(r, "timer_armed") \
            and r.timer_armed[1] != r.opts["timeout"]:
        exc = "timer-armed-with-%r" % (r.timer_armed[1],)     # the Timer must get the resolved timeout
    obs.update({
        "exc": exc, "started": r.started if r is not None else None, "echo": echo if echo else None,
        "kind": "raised" if exc else ("promise" if isinstance(res, Promise) else
                                      "result" if isinstance(res, Result) else
                                      "none" if res is None else "other"),
    })
    return obs


def run_opts(case):
    from invoke import Context
    Cap = capturing_class()
    Cap.instances = []
    kwargs = {k: to_py(v) for k, v in case["kwargs"].items()}
    buf = io.StringIO()
    exc, res = None, None
    with mock.patch.dict(os.environ, case["parent"], clear=True), contextlib.redirect_stdout(buf):
        # the Config is built under the case's environment: its built-in defaults must not
        # depend on it (SHELL, COMSPEC, HOME ...)
        ctx = Context(make_config(case["config"]))
        r = Cap(ctx)
        try:
            res = r.run(case["command"], **kwargs)
        except Exception as e:
            exc = type(e).__name__
        return observe(r, exc, res, buf.getvalue())


SHORT = {"warn_only": "-w", "pty": "-p", "echo": "-e", "dry": "-R", "timeout": "-T", "config": "-f"}
LONG = {"warn_only": "--warn-only", "pty": "--pty", "echo": "--echo", "dry": "--dry",
        "timeout": "--command-timeout", "config": "--config", "hide": "--hide",
        "no_dedupe": "--no-dedupe", "prompt_pw": "--prompt-for-sudo-password"}
_TMP = {}
_CLI = {}


def tmpdir():
    if "d" not in _TMP:
        import tempfile
        _TMP["d"] = tempfile.mkdtemp(prefix="verif-c15-")
    return _TMP["d"]


def run_cli(case):
    """the real Program: parse argv, update_config, execute a task whose body is c.run(...)"""
    import json as _json
    from invoke import Collection, Config, Program, task
    Cap = capturing_class()
    Cap.instances = []
    lower = case["lower"]
    where = lower.get("where", {})
    levels = {"defaults": {}, "collection": {}, "runtime": {}}
    for k, v in lower.get("run", {}).items():
        levels[where.get(k, "collection")].setdefault("run", {})[k] = v
    if "timeout" in lower:
        levels[where.get("timeout", "collection")].setdefault("timeouts", {})["command"] = lower["timeout"]
    d = tmpdir()
    rt_path = os.path.join(d, "rt-%d.json" % case.get("n", 0))
    with open(rt_path, "w") as f:
        _json.dump({sec: {k: (v["dict"] if isinstance(v, dict) and "dict" in v else v) for k, v in body.items()}
                    for sec, body in levels["runtime"].items()}, f)
    decoy = os.path.join(d, "decoy.json")
    with open(decoy, "w") as f:
        _json.dump({"run": {"shell": "/decoy", "echo_format": "DECOY {command}"}, "timeouts": {"command": 77}}, f)
    use_f, env_rt = case["args"].get("config"), case.get("env_runtime")
    parent = dict(case["parent"])
    if env_rt:
        parent["INVOKE_RUNTIME_CONFIG"] = decoy if use_f else rt_path
    argv = ["inv"] + [rt_path if t == "@RT" else t for t in case["before"]] + ["t"] + \
        [rt_path if t == "@RT" else t for t in case["after"]]
    rec = {}
    kwargs = {k: to_py(v) for k, v in case["kwargs"].items()}
    command = case["command"]

    def body(c):
        try:
            rec["res"] = c.run(command, **kwargs)
        except Exception as e:
            rec["exc"] = type(e).__name__
    _CLI["body"] = body
    coll_cfg = {sec: {k: to_py(v) for k, v in b.items()} for sec, b in levels["collection"].items()}
    _CLI["coll_cfg"] = coll_cfg
    loaded = bool(case["args"].get("no_dedupe")) or case.get("loaded")
    if loaded:
        # --no-dedupe exists only for programs that load their collection themselves
        with open(os.path.join(d, "vtasks.py"), "w") as f:
            f.write("from invoke import Collection, task\nfrom harness.props import c15 as H\n\n"
                    "@task\ndef t(c):\n    H._CLI['body'](c)\n\n"
                    "ns = Collection(t)\nif H._CLI['coll_cfg']:\n    ns.configure(H._CLI['coll_cfg'])\n")
        argv = argv[:1] + ["-r", d, "-c", "vtasks"] + argv[1:]
        ns = None
    else:
        t = task(body, name="t")
        ns = Collection(t)
        if coll_cfg:
            ns.configure(coll_cfg)
    dflt = levels["defaults"]

    class Cfg(Config):
        @staticmethod
        def global_defaults():
            g = Config.global_defaults()
            g["runners"]["local"] = Cap
            for k, v in dflt.get("run", {}).items():
                g["run"][k] = to_py(v)
            if "timeouts" in dflt:
                g["timeouts"]["command"] = dflt["timeouts"]["command"]
            return g

    prog = Program(namespace=ns, config_class=Cfg) if ns is not None else Program(config_class=Cfg)
    buf = io.StringIO()
    outer = None
    with mock.patch.dict(os.environ, parent, clear=True), contextlib.redirect_stdout(buf), \
            contextlib.redirect_stderr(io.StringIO()), mock.patch("getpass.getpass", lambda prompt="": "typed"):
        try:
            prog.run(argv, exit=False)
        except BaseException as e:
            outer = type(e).__name__
        r = Cap.instances[-1] if Cap.instances else None
        obs = observe(r, rec.get("exc"), rec.get("res"), buf.getvalue())
    cfg = getattr(prog, "config", None)
    over = getattr(cfg, "_overrides", None)
    obs["overrides"] = over if isinstance(over, dict) else {"<missing>": 1}
    obs["runtime"] = getattr(cfg, "_runtime_path", None)
    obs["outer"] = outer
    obs["env_var"] = parent.get("INVOKE_RUNTIME_CONFIG")
    obs["rt_path"] = rt_path
    obs["ran"] = bool(rec)
    return obs


RAISE = {"boom": Boom, "kbd": KeyboardInterrupt, "sysexit": SystemExit, "genexit": GeneratorExit}
XK = {"Boom": "XBoom", "TypeError": "XType", "ValueError": "XValue", "UnexpectedExit": "XUnexpected",
      "KeyboardInterrupt": "XKbd", "SystemExit": "XSysExit", "GeneratorExit": "XGenExit"}
SUDO_ONLY = ("user", "password")


def stmt_kw(st):
    """keyword arguments of a run / sudo statement (older cases: run has none)"""
    return st[2] if len(st) > 2 else {}


def run_ctx(case):
    from invoke import Context
    from invoke.exceptions import UnexpectedExit
    Cap = capturing_class()
    Cap.instances = []
    sudo = case["config"].get("sudo", {})
    calls = []

    def call(fn, cmd, kw):
        n0 = len(Cap.instances)
        exc, res = None, None
        try:
            res = fn(cmd, **{k: to_py(v) for k, v in kw.items()})
        except UnexpectedExit as e:
            res = e.result                      # the run itself went through; C05's business
            raise
        except Exception as e:
            exc = type(e).__name__
            raise
        finally:
            r = Cap.instances[n0] if len(Cap.instances) > n0 else None
            calls.append(observe(r, exc, res, getattr(r, "echoed", "") if r is not None else ""))

    raised = None
    with mock.patch.dict(os.environ, case["parent"], clear=True), \
            contextlib.redirect_stdout(io.StringIO()), contextlib.redirect_stderr(io.StringIO()):
        cfg = make_config(case["config"], {"sudo": {"prompt": sudo.get("prompt", "[sudo] password: "),
                                                    "user": sudo.get("user"), "password": "pw"},
                                           "runners": {"local": Cap}})
        c = Context(cfg)

        def go(prog):
            for st in prog:
                if st[0] == "run":
                    call(c.run, st[1], stmt_kw(st))
                elif st[0] == "sudo":
                    call(c.sudo, st[1], stmt_kw(st))
                elif st[0] == "raise":
                    raise RAISE[st[1] if len(st) > 1 else "boom"]()
                elif st[0] == "cd":
                    with c.cd(st[1]):
                        go(st[2])
                elif st[0] == "prefix":
                    with c.prefix(st[1]):
                        go(st[2])
                elif st[0] == "try":
                    try:
                        go(st[1])
                    except BaseException:
                        pass
        try:
            go(case["prog"])
        except BaseException as e:
            raised = type(e).__name__
    return {"calls": calls, "raised": raised,
            "final": [list(c.command_prefixes), list(c.command_cwds)]}


def started_term(st):
    if st is None:
        return "None"
    return "(Some (%s, %s, %s))" % (ct.s(st[0]), oval(st[1]), envterm(st[2]))


def kwterm(kw):
    extra = [k for k in kw if k not in COQ_OPT and k != "timeout"]
    return "(mkKw %s %s %s)" % (table(kw), ct.opt(oval(kw["timeout"]) if "timeout" in kw else None),
                                ct.strs(extra))


def stmt_term(st):
    if st[0] == "run":
        return "(SRun %s %s %s)" % (ct.s(st[1]), kwterm(stmt_kw(st)), ct.b("false" in st[1]))
    if st[0] == "sudo":
        kw = stmt_kw(st)
        rest = {k: v for k, v in kw.items() if k not in SUDO_ONLY}
        return "(SSudo %s %s %s %s)" % (ct.s(st[1]), ct.opt(oval(kw["user"]) if "user" in kw else None),
                                        kwterm(rest), ct.b("false" in st[1]))
    if st[0] == "raise":
        return "(SRaise %s)" % XK[RAISE[st[1] if len(st) > 1 else "boom"].__name__]
    if st[0] == "cd":
        return "(SBlock (BCd %s) %s)" % (ct.s(st[1]), ct.lst([stmt_term(x) for x in st[2]]))
    if st[0] == "prefix":
        return "(SBlock (BPrefix %s) %s)" % (ct.s(st[1]), ct.lst([stmt_term(x) for x in st[2]]))
    return "(SBlock BTry %s)" % ct.lst([stmt_term(x) for x in st[1]])


def walk(prog):
    for st in prog:
        yield st
        if st[0] in ("cd", "prefix"):
            yield from walk(st[2])
        elif st[0] == "try":
            yield from walk(st[1])


KIND = {"result": "RResult", "none": "RNoneK", "promise": "RPromise", "raised": "RRaised"}


class C15(Prop):
    id = "C15"
    corr_module = "Corr.C15Corr"
    quick_n = 3600
    thorough_n = 40000
    shard_size = 300
    rule = ("opts cases: every option independently in one of {absent, kwarg, kwarg None, configured, "
            "configured+kwarg, configured+kwarg None} with values from per-option pools (booleans incl. "
            "False-vs-None, hide incl. an undocumented value, streams, env mappings, formats), timeout "
            "kwarg/None/config, 8% unknown kwargs; plus the exhaustive interaction table hide x echo x dry x "
            "asynchronous x disown x out_stream x in_stream (1152 cases, every run). ctx cases: random "
            "block trees (depth <= 4) over absolute/relative/~/spaced/empty directories and prefixes, "
            "raise and try blocks, run and sudo calls with user/env given, None or absent, configured "
            "run.env / replace_env / shell / sudo.user / sudo.prompt.  non-trivial = an opts case with at "
            "least one option both configured and passed, or an interaction option set; a ctx case with "
            "a call below >= 2 blocks")
    trusted_base = [
        "Coq 8.16.1 kernel + vm_compute (shard evaluation, refutation witness)",
        "hand-written models coq/Model/OptsModel.v, coq/Model/CtxCmdModel.v (+ the option/default table in "
        "coq/Model/RunTypes.v) tied to invoke/runners.py, invoke/context.py, invoke/config.py by "
        "differential execution (this run)",
        "harness/props/c15.py: capturing Runner subclass, canonicaliser, term printer",
        "CPython 3.12 executing /repo",
    ]
    assumptions = [
        "option values are of the documented types (booleans for flags, str/None for hide, mappings for env)",
        "echo formats contain no braces other than {command}",
        "Runner base class ([should_use_pty] = the pty option); Local's tty probing is not exercised",
        "config.run holds exactly the 18 documented keys (extra keys added by client libraries not explored)",
    ]
    not_modelled = ["merging of configuration levels (C03)", "everything after start() (C02/C05/C08)",
                    "Windows shell default", "sudo's watcher list handling (appends to a caller-supplied list)"]

    # ---- generation --------------------------------------------------------
    def gen_opts(self, rng):
        cfg_run, kwargs = {}, {}
        chosen = rng.sample(OPTS, rng.choice([1, 2, 3, 4, 6, 9]))
        for o in chosen:
            mode = rng.choice(["kw", "kw", "kwnone", "cfg", "cfg", "both", "both", "cfg+kwnone"])
            if mode in ("cfg", "both", "cfg+kwnone"):
                cfg_run[o] = rng.choice(POOL[o])
            if mode in ("kw", "both"):
                kwargs[o] = rng.choice(POOL[o])
            if mode in ("kwnone", "cfg+kwnone"):
                kwargs[o] = None
        cfg = {"run": cfg_run}
        t = rng.random()
        if t < 0.15:
            kwargs["timeout"] = rng.choice([None, 3, 7])
        if 0.1 < t < 0.3:
            cfg["timeout"] = rng.choice([5, 9])
        if rng.random() < 0.08:
            kwargs[rng.choice(["bogus", "user", "hidee"])] = 1
        return {"kind": "opts", "config": cfg, "kwargs": kwargs,
                "command": rng.choice(["ls", "echo {x}", "a && b", ""]), "parent": rng.choice(PARENTS)}

    CDS = ["/a", "b", "~/x", "c d", "", "/", "e/", "/v w", "sub"]
    PRES = ["p1", "source x", "workon e", ""]

    def gen_call_kwargs(self, rng):
        kw = {}
        if rng.random() < 0.35:
            for o in rng.sample(["echo", "hide", "shell", "warn", "env", "replace_env", "dry",
                                 "asynchronous", "disown", "pty", "watchers"], rng.choice([1, 1, 2, 3])):
                kw[o] = rng.choice(POOL[o] + [None])
            if rng.random() < 0.1:
                kw["bogus"] = 1
            if rng.random() < 0.1:
                kw["timeout"] = rng.choice([None, 3])
        return kw

    def gen_prog(self, rng, depth, open_blocks=()):
        out = []
        for _ in range(rng.choice([1, 2, 2, 3, 3])):
            k = rng.random()
            if depth > 0 and k < 0.45:
                # now and then re-enter a block that is already open (same value)
                again = [b for b in open_blocks] if rng.random() < 0.35 else []
                if again:
                    kind, val = rng.choice(again)
                elif rng.random() < 0.55:
                    kind, val = "cd", rng.choice(self.CDS)
                else:
                    kind, val = "prefix", rng.choice(self.PRES)
                out.append([kind, val, self.gen_prog(rng, depth - 1, open_blocks + ((kind, val),))])
            elif depth > 0 and k < 0.55:
                out.append(["try", self.gen_prog(rng, depth - 1, open_blocks)])
            elif k < 0.60:
                out.append(["raise", rng.choice(["boom", "boom", "kbd", "sysexit", "genexit"])])
            elif k < 0.86:
                out.append(["run", rng.choice(["ls", "make x", "a b", "ls -l", "x y", "t", "false", "false y"]),
                            self.gen_call_kwargs(rng)])
            else:
                kw = self.gen_call_kwargs(rng)
                u = rng.random()
                if u < 0.3:
                    kw["user"] = rng.choice(["bob", None])
                if rng.random() < 0.3:
                    kw["password"] = rng.choice(["secret", None])
                if rng.random() < 0.45:
                    kw["env"] = rng.choice(ENVS + [None])
                if rng.random() < 0.35:
                    kw["watchers"] = rng.choice(POOL["watchers"] + [{"list": []}, None])
                if rng.random() < 0.25:
                    kw["timeout"] = rng.choice([None, 4, 8])
                out.append(["sudo", rng.choice(["whoami", "apt x", "id", "false z"]), kw])
        return out

    def gen_ctx(self, rng):
        run = {}
        if rng.random() < 0.4:
            run["env"] = rng.choice(ENVS)
        if rng.random() < 0.15:
            run["replace_env"] = True
        if rng.random() < 0.15:
            run["shell"] = "/bin/sh"
        if rng.random() < 0.06:
            run["dry"] = True
        if rng.random() < 0.08:
            run["warn"] = True
        if rng.random() < 0.03:
            run["hide"] = "bogus"          # every call is refused
        if rng.random() < 0.3:
            run["watchers"] = rng.choice([{"list": ["cw"]}, {"list": ["cw1", "cw2"]}])
        sudo = {}
        if rng.random() < 0.3:
            sudo["user"] = "root2"
        if rng.random() < 0.3:
            sudo["prompt"] = "P:"
        return {"kind": "ctx", "config": {"run": run, "sudo": sudo}, "parent": rng.choice(PARENTS),
                "prog": self.gen_prog(rng, rng.choice([1, 2, 3, 4]))}

    def gen_cli(self, rng, n=0):
        a, before, after = {}, [], []

        def place(tokens, may_follow=True):
            (after if may_follow and rng.random() < 0.4 else before).append(tokens)
        for name in ("warn_only", "pty", "echo", "dry"):
            if rng.random() < 0.4:
                a[name] = True
                place([rng.choice([SHORT[name], LONG[name]])])
        if rng.random() < 0.4:
            a["hide"] = rng.choice(["out", "both", "err", "stdout", "bogus", ""])
            place(["--hide", a["hide"]] if rng.random() < 0.6 or a["hide"] == "" else ["--hide=" + a["hide"]])
        if rng.random() < 0.2:
            a["no_dedupe"] = True
            place(["--no-dedupe"], False)
        if rng.random() < 0.4:
            a["timeout"] = rng.choice([5, 0, 12, 3])
            place([rng.choice(["-T", "--command-timeout"]), str(a["timeout"])])
        if rng.random() < 0.15:
            a["prompt_pw"] = True
            place(["--prompt-for-sudo-password"], False)
        if rng.random() < 0.4:
            a["config"] = True
            place([rng.choice(["-f", "--config"]), "@RT"])
        env_rt = rng.random() < 0.4
        rng.shuffle(before)
        rng.shuffle(after)
        lower = {"run": {}, "where": {}}
        places = ["defaults", "collection"] + (["runtime", "runtime"] if (a.get("config") or env_rt) else [])
        pools = {"echo": [True, False], "warn": [True, False], "pty": [True, False], "dry": [True, False],
                 "hide": ["out", "both", True, False, "err"], "shell": ["/bin/sh", "zsh"],
                 "replace_env": [True, False], "env": ENVS, "echo_format": ["RUN {command}!", "{command}"]}
        for o in rng.sample(sorted(pools), rng.choice([0, 1, 2, 3, 5])):
            lower["run"][o] = rng.choice(pools[o])
            lower["where"][o] = rng.choice(places)
        if (a.get("config") or env_rt) and rng.random() < 0.7:
            # a setting only the runtime file has: tells whether that file was really loaded
            lower["run"]["shell"] = "/rt/shell"
            lower["where"]["shell"] = "runtime"
        if rng.random() < 0.35:
            lower["timeout"] = rng.choice([9, 20])
            lower["where"]["timeout"] = rng.choice(places)
        kwargs = {}
        for o in rng.sample(["echo", "warn", "pty", "dry", "hide", "shell", "env", "asynchronous", "out_stream"],
                            rng.choice([0, 0, 1, 2, 3])):
            kwargs[o] = rng.choice(POOL[o] + [None])
        t = rng.random()
        if t < 0.25:
            kwargs["timeout"] = rng.choice([None, 3, 7])
        if rng.random() < 0.04:
            kwargs["bogus"] = 1
        return {"kind": "cli", "n": n, "loaded": rng.random() < 0.15, "args": a, "before": [t for g in before for t in g],
                "after": [t for g in after for t in g], "lower": lower, "env_runtime": env_rt,
                "kwargs": kwargs, "command": rng.choice(["x", "make it"]), "parent": rng.choice(PARENTS)}

    def interaction_table(self):
        hide = [None, ("kw", True), ("kw", "both"), ("kw", False), ("cfg", True), ("kw", "bogus")]
        echo = [None, ("kw", True), ("cfg", True), ("cfgT+kwF", None)]
        dry = [None, ("kw", True), ("cfg", True)]
        for h, e, d, a, dis, o, i in itertools.product(hide, echo, dry, [False, True], [False, True],
                                                       [False, True], [False, True]):
            cfg, kw = {}, {}
            for name, v in (("hide", h), ("dry", d)):
                if v:
                    (kw if v[0] == "kw" else cfg)[name] = v[1]
            if e:
                if e[0] == "kw":
                    kw["echo"] = True
                elif e[0] == "cfg":
                    cfg["echo"] = True
                else:
                    cfg["echo"] = True
                    kw["echo"] = False
            if a:
                kw["asynchronous"] = True
            if dis:
                cfg["disown"] = True
            if o:
                kw["out_stream"] = S1
            if i:
                kw["in_stream"] = S2
            yield {"kind": "opts", "config": {"run": cfg}, "kwargs": kw, "command": "ls",
                   "parent": {"A": "1"}}

    def generate(self, rng, tier, n):
        yield from self.interaction_table()
        n = max(0, n - 1152)
        for i in range(n):
            if i % 4 == 1:
                yield self.gen_cli(rng, i)
            else:
                yield self.gen_ctx(rng) if i % 3 == 0 else self.gen_opts(rng)

    def enumerate_small(self, tier):
        # every option x every placement x two values (pairwise with one other configured option)
        for o in OPTS:
            vals = POOL[o][:3]
            for v1, v2 in itertools.product(vals, vals):
                for mode in ("kw", "kwnone", "cfg", "both", "cfg+kwnone", "none"):
                    cfg, kw = {}, {}
                    if mode in ("cfg", "both", "cfg+kwnone"):
                        cfg[o] = v1
                    if mode in ("kw", "both"):
                        kw[o] = v2
                    if mode in ("kwnone", "cfg+kwnone"):
                        kw[o] = None
                    yield {"kind": "opts", "config": {"run": cfg}, "kwargs": kw, "command": "ls",
                           "parent": {"A": "1"}}
        for kt in ("absent", None, 3):
            for ctm in ("absent", 5):
                kw = {} if kt == "absent" else {"timeout": kt}
                cfg = {"run": {}}
                if ctm != "absent":
                    cfg["timeout"] = ctm
                yield {"kind": "opts", "config": cfg, "kwargs": kw, "command": "ls", "parent": {}}
        # every nesting of <= 3 blocks (values may repeat) around a call / a raise of each
        # kind / a failing command, with a call after every block exit
        blocks = [("cd", "/a"), ("cd", "b"), ("cd", "c d"), ("prefix", "p1"), ("prefix", "q")]
        tails = [["run", "ls", {}], ["sudo", "w", {}], ["run", "false", {}], ["raise", "boom"],
                 ["raise", "kbd"], ["raise", "sysexit"], ["raise", "genexit"]]
        for n in range(0, 4):
            for combo in itertools.product(blocks, repeat=n):
                for tail in tails:
                    prog = [["run", "x", {}], tail]
                    for lvl, b in enumerate(reversed(combo)):
                        prog = [["try", [[b[0], b[1], prog]]], ["run", "after%d" % lvl, {}]]
                    yield {"kind": "ctx", "config": {"run": {}, "sudo": {}}, "parent": {"A": "1"},
                           "prog": prog + [["run", "end", {}]]}

    # ---- implementation ----------------------------------------------------
    def run_impl(self, case):
        if case["kind"] == "cli":
            return run_cli(case)
        return run_opts(case) if case["kind"] == "opts" else run_ctx(case)

    def teardown(self):
        if "d" in _TMP:
            import shutil
            shutil.rmtree(_TMP.pop("d"), ignore_errors=True)

    def outcome_term(self, obs):
        exc = ct.opt(ct.err(obs["exc"]) if obs["exc"] else None)
        if obs.get("res"):
            r = obs["res"]
            full = ct.lst([ct.pair(COQ_OPT[k], oval(r["opts"][k])) for k in OPTS])
            res = "(Some (mkRes (total_table %s) %s %s %s %s %s %s))" % (
                full, oval(r["timeout"]), oval(r["out"]), oval(r["err"]), oval(r["in"]),
                oval(r["pty"]), oval(r["watchers"]))
        else:
            res = "None"
        return "(mkOut %s %s %s %s %s)" % (exc, started_term(obs["started"]),
                                           ct.opt(ct.s(obs["echo"]) if obs["echo"] is not None else None),
                                           res, KIND.get(obs["kind"], "RRaised"))

    def cli_term(self, case, obs):
        a = case["args"]
        args = "(mkArgs %s %s %s %s %s %s %s %s %s)" % (
            ct.b(bool(a.get("warn_only"))), ct.b(bool(a.get("pty"))),
            ct.opt(ct.s(a["hide"]) if a.get("hide") is not None else None),
            ct.b(bool(a.get("echo"))), ct.b(bool(a.get("dry"))), ct.b(bool(a.get("no_dedupe"))),
            ct.opt(ct.z(a["timeout"]) if a.get("timeout") is not None else None),
            ct.opt(ct.s("typed") if a.get("prompt_pw") else None),
            ct.opt(ct.s(obs["rt_path"]) if a.get("config") else None))
        lower = "(mkCfg %s %s)" % (table(case["lower"].get("run", {})), oval(case["lower"].get("timeout")))
        if not obs["ran"] or obs["outer"]:
            # the program did not get as far as the task body: report it as such
            out = "(mkOut (Some EOther) None None None RRaised)"
        else:
            out = self.outcome_term(obs)
        return "(CCli %s %s %s %s %s %s %s %s %s)" % (
            args, lower, ct.opt(ct.s(obs["env_var"]) if obs["env_var"] is not None else None),
            envterm(dict(case["parent"], **({"INVOKE_RUNTIME_CONFIG": obs["env_var"]} if obs["env_var"] else {}))),
            ct.s(case["command"]), kwterm(case["kwargs"]), ct.tree(obs["overrides"]),
            ct.opt(ct.s(obs["runtime"]) if obs["runtime"] is not None else None), out)

    def to_coq(self, case, obs):
        if case["kind"] == "cli":
            return self.cli_term(case, obs)
        if case["kind"] == "opts":
            kwt = kwterm(case["kwargs"])
            exc = ct.opt(ct.err(obs["exc"]) if obs["exc"] else None)
            if obs.get("res"):
                r = obs["res"]
                full = ct.lst([ct.pair(COQ_OPT[k], oval(r["opts"][k])) for k in OPTS])
                res = "(Some (mkRes (total_table %s) %s %s %s %s %s %s))" % (
                    full, oval(r["timeout"]), oval(r["out"]), oval(r["err"]), oval(r["in"]),
                    oval(r["pty"]), oval(r["watchers"]))
            else:
                res = "None"
            out = "(mkOut %s %s %s %s %s)" % (exc, started_term(obs["started"]),
                                              ct.opt(ct.s(obs["echo"]) if obs["echo"] is not None else None),
                                              res, KIND.get(obs["kind"], "RRaised"))
            return "(COpts %s %s %s %s %s)" % (cfgterm(case["config"]), envterm(case["parent"]),
                                               ct.s(case["command"]), kwt, out)
        sudo = case["config"].get("sudo", {})
        cc = "(mkCC %s %s %s %s)" % (cfgterm(case["config"]), ct.s(sudo.get("prompt", "[sudo] password: ")),
                                     oval(sudo.get("user")), envterm(case["parent"]))
        calls = ct.lst([self.outcome_term(x) for x in obs["calls"]])
        final = "(mkC %s %s)" % (ct.strs(obs["final"][0]), ct.strs(obs["final"][1]))
        r = obs["raised"]
        if isinstance(r, bool):      # first-generation observations
            r = "Boom" if r else None
        raised = ct.opt(XK.get(r, "XOtherExc") if r else None)
        return "(CCtx %s %s %s %s %s)" % (cc, ct.lst([stmt_term(x) for x in case["prog"]]), calls, final, raised)

    def nontrivial(self, case, obs):
        if case["kind"] == "cli":
            fed = {"warn_only": "warn", "pty": "pty", "echo": "echo", "dry": "dry", "hide": "hide",
                   "timeout": "timeout"}
            given = [fed[k] for k in case["args"] if k in fed]
            return any(g in case["kwargs"] or g in case["lower"].get("run", {}) or
                       (g == "timeout" and "timeout" in case["lower"]) for g in given) or \
                bool(case["args"].get("config") or case.get("env_runtime"))
        if case["kind"] == "opts":
            both = any(k in case["config"].get("run", {}) for k in case["kwargs"])
            inter = any(k in case["kwargs"] or k in case["config"].get("run", {})
                        for k in ("hide", "dry", "asynchronous", "disown"))
            return both or inter

        def depth(prog, d):
            best = 0
            for st in prog:
                if st[0] in ("run", "sudo"):
                    best = max(best, d)
                elif st[0] in ("cd", "prefix"):
                    best = max(best, depth(st[2], d + 1))
                elif st[0] == "try":
                    best = max(best, depth(st[1], d))
            return best
        return depth(case["prog"], 0) >= 2

    def classify(self, case, obs):
        if case["kind"] == "cli":
            tag = "cli/%dflags" % min(4, len(case["args"]))
            if case["after"]:
                tag += "/after-task"
            if case["args"].get("config") or case.get("env_runtime"):
                tag += "/runtime"
            if not obs["ran"]:
                tag += "/not-run"
            return tag
        if case["kind"] == "opts":
            return "opts/" + (obs["exc"] or obs["kind"]) + ("/echo" if obs["echo"] else "")
        kinds = sorted({(st[1] if len(st) > 1 else "boom") for st in walk(case["prog"]) if st[0] == "raise"})
        tag = "ctx/%dcalls" % min(4, len(obs["calls"]))
        if any(st[0] in ("run", "sudo") and stmt_kw(st) for st in walk(case["prog"])):
            tag += "/kwargs"
        if any(k != "boom" for k in kinds):
            tag += "/baseexc"
        if obs["raised"]:
            tag += "/raised:" + str(obs["raised"])
        return tag

    def finding_of(self, case, obs):
        # F-C15 / F-C15b / F-C15c are fixed in /repo (c2a3b37, 2644606, f03a111): nothing is attributed
        return None

    def shrink_candidates(self, case):
        if case["kind"] == "cli":
            for k in list(case["kwargs"]):
                kw = dict(case["kwargs"])
                del kw[k]
                yield dict(case, kwargs=kw)
            lo = case["lower"]
            for k in list(lo.get("run", {})):
                r2 = dict(lo["run"])
                del r2[k]
                yield dict(case, lower=dict(lo, run=r2))
            if "timeout" in lo:
                yield dict(case, lower={k: v for k, v in lo.items() if k != "timeout"})
            if case["after"]:
                yield dict(case, before=case["before"] + case["after"], after=[])
            if case.get("env_runtime"):
                yield dict(case, env_runtime=False,
                           lower=dict(lo, where={k: ("collection" if w == "runtime" and not case["args"].get("config")
                                                     else w) for k, w in lo.get("where", {}).items()}))
            if case["parent"]:
                yield dict(case, parent={})
            return
        if case["kind"] == "opts":
            for k in list(case["kwargs"]):
                kw = dict(case["kwargs"])
                del kw[k]
                yield dict(case, kwargs=kw)
            run = case["config"].get("run", {})
            for k in list(run):
                r2 = dict(run)
                del r2[k]
                yield dict(case, config=dict(case["config"], run=r2))
            if "timeout" in case["config"]:
                yield dict(case, config={"run": run})
            if case["parent"]:
                yield dict(case, parent={})
            return

        def variants(prog):
            for i, st in enumerate(prog):
                yield prog[:i] + prog[i + 1:]
                if st[0] in ("cd", "prefix"):
                    yield prog[:i] + st[2] + prog[i + 1:]
                    for b in variants(st[2]):
                        yield prog[:i] + [[st[0], st[1], b]] + prog[i + 1:]
                elif st[0] == "try":
                    yield prog[:i] + st[1] + prog[i + 1:]
                    for b in variants(st[1]):
                        yield prog[:i] + [["try", b]] + prog[i + 1:]
                elif st[0] in ("run", "sudo") and stmt_kw(st):
                    for k in stmt_kw(st):
                        kw = dict(stmt_kw(st))
                        del kw[k]
                        yield prog[:i] + [[st[0], st[1], kw]] + prog[i + 1:]
                elif st[0] == "raise" and len(st) > 1 and st[1] != "boom":
                    yield prog[:i] + [["raise", "boom"]] + prog[i + 1:]
        for p in variants(case["prog"]):
            yield dict(case, prog=p)
        for sec in ("run", "sudo"):
            d = case["config"].get(sec, {})
            for k in list(d):
                d2 = dict(d)
                del d2[k]
                yield dict(case, config=dict(case["config"], **{sec: d2}))

    def extra_checks(self, tier, seed):
        return [sudo_password_table(), real_env_checks()]

    def mutate(self, case, rng):
        for i in range(40):
            if case["kind"] == "cli":
                yield self.gen_cli(rng, 900000 + i)
            else:
                yield self.gen_opts(rng) if case["kind"] == "opts" else self.gen_ctx(rng)


def sudo_password_table():
    """TEST: the response of sudo's own watcher is the per-call password when one is
    passed (None included), else the configured one; the password never travels on
    to the runner."""
    from invoke import Config, Context
    Cap = capturing_class()
    failures, n = [], 0
    for cfg_pw in (None, "cfg"):
        for kw in ({}, {"password": "kw"}, {"password": None}):
            n += 1
            Cap.instances = []
            c = Context(Config(overrides={"sudo": {"password": cfg_pw, "prompt": "P:"}, "runners": {"local": Cap}}))
            want = "%s\n" % (kw["password"] if "password" in kw else cfg_pw,)
            try:
                with contextlib.redirect_stdout(io.StringIO()):
                    c.sudo("x", hide=True, **kw)
                w = Cap.instances[-1].watchers[-1]
                got = {"response": w.response, "pattern": w.pattern, "sentinel": w.sentinel}
                ok = w.response == want and w.pattern == "P:" and w.sentinel == "Sorry, try again.\n"
            except Exception as e:
                got, ok = {"exception": type(e).__name__}, False
            if not ok:
                failures.append({"case": {"configured": cfg_pw, "kwargs": kw}, "what": dict(got, wanted=want)})
    return {"name": "sudo-password", "evaluations": n, "failures": failures,
            "note": "TEST (finite table): sudo's responder answers with the per-call password if given, "
                    "else the configured one"}


def real_env_checks():
    """TEST on real Local runs: the environment the child process really sees is the
    parent's updated with the mapping, or -- replace_env -- the mapping alone (the shell
    adds a few variables of its own, which are ignored)."""
    from invoke import Config, Context
    shell_own = {"PWD", "OLDPWD", "SHLVL", "_"}
    failures, n = [], 0
    marker = {"VERIF_A": "1", "VERIF B": "x y"}
    for shell in ("/bin/bash", "/bin/sh"):
        if not os.path.exists(shell):
            continue
        for pty in (False, True):
            for replace in (False, True):
                for via_config in (False, True):
                    n += 1
                    envmap = {"VERIF_A": "1", "VERIF_B": "x y"}
                    over = {"run": {"env": envmap, "replace_env": replace}} if via_config else {}
                    kw = {} if via_config else {"env": envmap, "replace_env": replace}
                    c = Context(Config(overrides=over))
                    with mock.patch.dict(os.environ, {"VERIF_PARENT": "p", "VERIF_A": "old"}):
                        parent = dict(os.environ)
                        try:
                            r = c.run("/usr/bin/env", hide=True, in_stream=False, shell=shell, pty=pty,
                                      timeout=20, **kw)
                            got = {}
                            for line in r.stdout.replace("\r\n", "\n").split("\n"):
                                if "=" in line:
                                    k, v = line.split("=", 1)
                                    got[k] = v
                            err = None
                        except Exception as e:
                            got, err = {}, type(e).__name__
                    want = dict(envmap) if replace else dict(parent, **envmap)
                    a = {k: v for k, v in got.items() if k not in shell_own}
                    b = {k: v for k, v in want.items() if k not in shell_own}
                    if err or a != b:
                        diff = {k: (a.get(k), b.get(k)) for k in set(a) | set(b) if a.get(k) != b.get(k)}
                        failures.append({"case": {"shell": shell, "pty": pty, "replace_env": replace,
                                                  "via_config": via_config},
                                         "what": {"exception": err, "differs(got,wanted)": diff}})
    return {"name": "real-env", "evaluations": n, "failures": failures,
            "note": "TEST on real Local children (/usr/bin/env; bash and sh; pipes and pty; env given per call "
                    "and configured): child environment = parent updated with / replaced by the mapping"}


PROP = C15()
