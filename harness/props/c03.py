"""C03: every setting comes from the highest-precedence level that defines it;
load-order irrelevance; first existing suffix only."""
import copy
import itertools

from .. import config_common as cc
from .. import coqterm as ct
from .. import gen_tree as gt
from ..core import Prop

DOC_ORDER = ["defaults", "collection", "system", "user", "project", "env", "runtime",
             "overrides", "modifications", "deletions"]
FILE_KINDS = "nbisl"


def supplied_levels(case):
    """Python twin of Spec.C03Spec.supplied_of, used only for statistics
    (non-triviality, histogram) -- never for the verdict."""
    init, ops, fs = case["init"], case["ops"], case["fs"]
    init = cc.effective_init(init)
    lv = {"defaults": init.get("defaults") or {}, "overrides": init.get("overrides") or {},
          "collection": {}}
    proj, rt = init.get("proj"), init.get("rt")
    ops = [[o[0][:-2]] + list(o[1:]) if o[0].endswith("_d") else o for o in ops]
    names = [o[0] for o in ops]
    for o in ops:
        if o[0] == "load_defaults":
            lv["defaults"] = o[1]
        elif o[0] == "load_overrides":
            lv["overrides"] = o[1]
        elif o[0] == "load_collection":
            lv["collection"] = o[1]
        elif o[0] == "set_project_location":
            proj = o[1]
        elif o[0] == "set_runtime_path":
            rt = o[1]

    def first(loc):
        for s in cc.SUFFIXES:
            for l, sf, e in fs:
                if l == loc and sf == s:
                    return e.get("data") or {}
        return {}
    lazy = init.get("lazy")
    lv["system"] = first("sys") if (not lazy or "load_system" in names) else {}
    lv["user"] = first("usr") if (not lazy or "load_user" in names) else {}
    lv["project"] = first(proj) if (proj and "load_project" in names) else {}
    lv["runtime"] = {}
    if rt and "load_runtime" in names:
        for l, sf, e in fs:
            if l == rt[0] and sf == rt[1]:
                lv["runtime"] = e.get("data") or {}
    return lv


def all_paths(t, pre=()):
    if isinstance(t, dict) and "__tuple__" not in t:
        for k, v in t.items():
            yield pre + (k,)
            yield from all_paths(v, pre + (k,))


class C03(Prop):
    id = "C03"
    corr_module = "Corr.C03Corr"
    preds = ("corr", "spec", "in_scope")
    quick_n = 1100
    thorough_n = 20000
    rule = ("one schema per case fixes which paths are sections/leaves; each of the 8 non-env levels is "
            "absent or a random sub-tree of it (overlap forced, depth<=4, all leaf kinds); system/user/"
            "project/runtime levels are real files (yaml/yml/json/py, several candidates with different "
            "contents at once, occasionally an empty YAML file, an unopenable candidate (a directory / a symlink loop) or a damaged one its loader cannot parse); dict levels are handed over as plain dicts, as types.MappingProxyType or as a section of another config; 10% of the cases start from the class's stock global_defaults(); the "
            "environment names settings of the schema; levels are fed through the constructor or the "
            "load_* calls in a random order -- 45% of the cases with some or all loads deferred (merge=False) and "
            "then an explicit merge() or load_shell_env() at the end --, load_shell_env last.  Non-trivial = at least 3 levels "
            "define a common path; distinct by the whole case")
    trusted_base = [
        "Coq 8.16.1 kernel + vm_compute (shard evaluation)",
        "hand-written model coq/Model/ConfigModel.v + MergeModel.v + EnvModel.v tied to invoke/config.py, "
        "invoke/env.py by differential execution (this run)",
        "harness/coqterm.py, harness/config_common.py (term printers, file writers), harness/props/c03.py",
        "the YAML/JSON/Python loaders are exercised, not modelled: format independence is a test",
        "CPython 3.12 executing the repository under test",
    ]
    assumptions = [
        "levels are type-consistent (a path is a section in every level defining it or a leaf in every one): "
        "the property's quantifier; other inputs are judged acceptable by the spec",
        "each level is loaded through the public API, file locations are set before the loads, the "
        "environment is read last and once (as documented)",
        "keys are ASCII strings (a non-string key makes load_shell_env() raise: known finding F-C03a, "
        "witnessed by an extra check); leaves None/bool/int/str/list/tuple",
        "a .py candidate that os.path.exists() denies (missing, dangling or looping link) loads as empty "
        "(load_source's documented quirk): unopenable candidates are generated for yaml/yml/json only",
    ]
    not_modelled = [
        "the three file parsers (files are an abstract map location x suffix -> data)",
        "expanduser / Windows defaults for the system prefix",
        "the state of a Config after merge() raised",
    ]

    def teardown(self):
        cc.cleanup()

    # -- generation --------------------------------------------------------
    def gen_one(self, rng):
        keys = cc.SAFE_KEYS if rng.random() < 0.65 else gt.KEYS
        # list / tuple leaves too: the same path holds a list in several levels
        sch = cc.schema(rng, depth=rng.choice([2, 3, 3, 4]), width=rng.choice([2, 3, 4]), keys=keys,
                        kinds=rng.choice(["nbis", "nbislt", "lltis"]))
        p_keep = rng.choice([0.5, 0.7, 0.9])

        def inst(kinds):
            return gt.jsonable(cc.instance(rng, sch, p_keep, kinds))
        fs = []
        present = {n: rng.random() < 0.65 for n in
                   ["defaults", "collection", "system", "user", "project", "runtime", "overrides"]}
        for name, loc in (("system", "sys"), ("user", "usr"), ("project", "projA")):
            if present[name]:
                for sfx in rng.sample(cc.SUFFIXES, rng.choice([1, 1, 2, 3])):
                    r = rng.random()
                    if r < 0.025 and sfx in ("yaml", "yml", "json"):
                        fs.append([loc, sfx, {"empty": 1}])      # empty YAML document / JSON null
                    elif r < 0.03:
                        fs.append([loc, sfx, {"ioerr": 1}])
                    elif r < 0.05:
                        fs.append([loc, sfx, {"bad": 1}])        # damaged: its loader cannot parse it
                    elif r < 0.055 and sfx != "py":
                        # exists, cannot be opened (ELOOP).  Not for .py: load_source() asks
                        # os.path.exists first and answers {} when that says no (the recorded
                        # quirk: a .py candidate that does not "exist" loads as empty)
                        fs.append([loc, sfx, {"loop": 1}])
                    else:
                        fs.append([loc, sfx, {"data": inst(FILE_KINDS)}])
        rt = None
        if present["runtime"]:
            rt = ["rtA", rng.choice(cc.SUFFIXES)]
            r = rng.random()
            if r < 0.03:
                fs.append([rt[0], rt[1], {"bad": 1}])
            elif r < 0.9:
                fs.append([rt[0], rt[1], {"data": inst(FILE_KINDS)}])
            if rng.random() < 0.2:     # a sibling with another suffix must be ignored
                other = rng.choice([s for s in cc.SUFFIXES if s != rt[1]])
                fs.append([rt[0], other, {"data": inst(FILE_KINDS)}])
        if rng.random() < 0.15:        # a second project location that must not be read
            fs.append(["projB", rng.choice(cc.SUFFIXES), {"data": inst(FILE_KINDS)}])
        rng.shuffle(fs)
        lazy = rng.random() < 0.5
        init = {"defaults": None, "overrides": None, "proj": None, "rt": None, "lazy": lazy,
                "tilde": rng.random() < 0.25}
        r = rng.random()
        if r < 0.10:
            init["mapkind"] = "mp"        # dict levels handed over as types.MappingProxyType
        elif r < 0.16:
            init["mapkind"] = "proxy"     # ... as a section (DataProxy) of another config
        if rng.random() < 0.10:
            init["stock"] = True          # the class's stock global_defaults() underneath
        pre, loads = [], []
        if present["defaults"]:
            if rng.random() < 0.5:
                init["defaults"] = inst("nbislt")
            else:
                loads.append(["load_defaults", inst("nbislt")])
            if rng.random() < 0.1:
                loads.append(["load_defaults", inst("nbislt")])
        if present["overrides"]:
            if rng.random() < 0.5:
                init["overrides"] = inst("nbislt")
            else:
                loads.append(["load_overrides", inst("nbislt")])
        if present["collection"]:
            loads.append(["load_collection", inst("nbislt")])
        if present["project"] or rng.random() < 0.2:
            if rng.random() < 0.5:
                init["proj"] = "projA"
            else:
                if rng.random() < 0.3:
                    init["proj"] = "projB"
                pre.append(["set_project_location", "projA"])
            loads.append(["load_project"])
        if rt is not None:
            if rng.random() < 0.5:
                init["rt"] = rt
            else:
                pre.append(["set_runtime_path", rt])
            loads.append(["load_runtime"])
        if lazy:
            if rng.random() < 0.8:
                loads.append(["load_system"])
            if rng.random() < 0.8:
                loads.append(["load_user"])
        elif rng.random() < 0.2:
            loads.append([rng.choice(["load_system", "load_user"])])   # no-op: already loaded
        if init.get("stock") and init["defaults"] is not None:
            loads.append(["load_defaults", init["defaults"]])   # stock defaults first, replaced later
            init["defaults"] = None
        rng.shuffle(pre)
        rng.shuffle(loads)
        # re-pointing: after the project / runtime file was loaded, point elsewhere
        # (and maybe load again): what came from the old location must be forgotten
        names = [o[0] for o in loads]
        if "load_project" in names and rng.random() < 0.2:
            fs.append(["projB", rng.choice(cc.SUFFIXES), {"data": inst(FILE_KINDS)}])
            i = names.index("load_project")
            j = rng.randint(i + 1, len(loads))
            loads.insert(j, ["set_project_location", rng.choice(["projB", "projB", None])])
            if rng.random() < 0.6:
                loads.insert(rng.randint(j + 1, len(loads)), ["load_project"])
        names = [o[0] for o in loads]
        if "load_runtime" in names and rng.random() < 0.15:
            sfx2 = rng.choice(cc.SUFFIXES)
            fs.append(["rtB", sfx2, {"data": inst(FILE_KINDS)}])
            i = names.index("load_runtime")
            j = rng.randint(i + 1, len(loads))
            loads.insert(j, ["set_runtime_path", ["rtB", sfx2]])
            if rng.random() < 0.6:
                loads.insert(rng.randint(j + 1, len(loads)), ["load_runtime"])
        # merge=False: some or all loads deferred; the script then ends with
        # load_shell_env() or an explicit merge() (re-pointing does not merge either)
        deferred = any(o[0].startswith("set_") for o in loads)
        if rng.random() < 0.45:
            p_def = rng.choice([0.4, 0.7, 1.0])
            for o in loads:
                if o[0].startswith("load_") and rng.random() < p_def:
                    o[0] += "_d"
                    deferred = True
            if rng.random() < 0.2 and loads:
                loads.insert(rng.randrange(len(loads) + 1), ["merge"])
        seen_files, uniq = set(), []
        for e in fs:                      # one entry per (location, suffix)
            if (e[0], e[1]) not in seen_files:
                seen_files.add((e[0], e[1]))
                uniq.append(e)
        fs = uniq
        ops = pre + loads
        if rng.random() < (0.75 if not deferred else 0.85):
            if rng.random() < 0.1:
                ops.append(["merge"])
            ops.append(["load_shell_env", cc.env_for(rng, sch, rng.choice([0.2, 0.5]))])
        elif deferred or rng.random() < 0.1:
            ops.append(["merge"])
        return {"fs": fs, "init": init, "ops": ops}

    def generate(self, rng, tier, n):
        for _ in range(n):
            yield self.gen_one(rng)

    def enumerate_small(self, tier):
        """every assignment of {absent, {a:{b:i}}, {a:{c:i}, d:i}} to the seven
        non-env levels (i = 1 + index of the level, so the winner is
        recognisable), environment naming a.b; quick: every 7th"""
        names = ["defaults", "collection", "system", "user", "project", "runtime", "overrides"]
        k = 0
        for combo in itertools.product([0, 1, 2], repeat=7):
            k += 1
            if tier == "quick" and k % 7:
                continue
            fs, ops = [], []
            init = {"defaults": None, "overrides": None, "proj": "projA", "rt": ["rtA", "json"],
                    "lazy": bool(k % 2)}
            for idx, (name, c) in enumerate(zip(names, combo)):
                if c == 0:
                    continue
                i = idx + 1
                data = {"a": {"b": i}} if c == 1 else {"a": {"c": i}, "d": i}
                if name == "defaults":
                    init["defaults"] = data
                elif name == "overrides":
                    ops.append(["load_overrides", data])
                elif name == "collection":
                    ops.append(["load_collection", data])
                elif name == "system":
                    fs.append(["sys", "yml", {"data": data}])
                elif name == "user":
                    fs.append(["usr", "json", {"data": data}])
                elif name == "project":
                    fs.append(["projA", "py", {"data": data}])
                elif name == "runtime":
                    fs.append(["rtA", "json", {"data": data}])
            ops += [["load_runtime"], ["load_project"], ["load_user"], ["load_system"]]
            if k % 3:
                ops = list(reversed(ops))
            ops.append(["load_shell_env", {"INVOKE_A_B": "9", "INVOKE_D": "8"}])
            yield {"fs": fs, "init": init, "ops": ops}

    # -- implementation ----------------------------------------------------
    def run_impl(self, case):
        s = cc.Session(case)
        try:
            try:
                cfg = s.construct()
            except Exception as e:
                return {"err": type(e).__name__}
            def snap():
                return {"view": cc.view_of(cfg), "env": cc.level_view(cfg._env),
                        "sfx": [cc.sfx_of(cfg._system_path) if cfg._system_found else None,
                                cc.sfx_of(cfg._user_path) if cfg._user_found else None,
                                cc.sfx_of(cfg._project_path) if cfg._project_found else None]}
            mids = []
            for op in case["ops"]:
                cfg, out = s.try_op(cfg, op)
                if "err" in out:
                    return dict(out, mids=mids)
                mids.append(snap())
            return {"ok": snap(), "mids": mids}
        finally:
            s.close()

    def to_coq(self, case, obs):
        def snap(ok):
            return "(%s, %s, %s)" % (cc.c_tree(ok["view"]), cc.c_tree(ok["env"]),
                                     ct.lst([cc.c_optstr(x) for x in ok["sfx"]]))
        if "err" in obs:
            o = "(Err %s)" % ct.err(obs["err"])
        else:
            o = "(Ok %s)" % snap(obs["ok"])
        mids = ct.lst([snap(m) for m in obs.get("mids", [])])
        return "(mk %s %s %s %s %s)" % (cc.c_fs(case["fs"]), cc.c_init(cc.effective_init(case["init"])),
                                        cc.c_ops(case["ops"]), o, mids)

    # -- statistics --------------------------------------------------------
    def nontrivial(self, case, obs):
        lv = supplied_levels(case)
        count = {}
        for name, t in lv.items():
            for p in set(all_paths(t)):
                count[p] = count.get(p, 0) + 1
        if "ok" in obs:
            for p in set(all_paths(obs["ok"]["env"])):
                count[p] = count.get(p, 0) + 1
        return any(c >= 3 for c in count.values())

    def classify(self, case, obs):
        if "err" in obs:
            return "err:" + obs["err"]
        lv = supplied_levels(case)
        n = sum(1 for t in lv.values() if t) + (1 if obs["ok"]["env"] else 0)
        return "levels:%d" % n

    def shrink_candidates(self, case):
        yield from cc.shrink_common(case)

    def mutate(self, case, rng):
        for _ in range(40):
            c = {"fs": [list(x) for x in case["fs"]], "init": dict(case["init"]),
                 "ops": [list(o) for o in case["ops"]]}
            r = rng.random()
            loads = [i for i, o in enumerate(c["ops"]) if o[0].startswith("load_") and o[0] != "load_shell_env"]
            if rng.random() < 0.3 and loads:
                i = rng.choice(loads)
                if not c["ops"][i][0].endswith("_d"):
                    c["ops"][i][0] += "_d"
                    if c["ops"][-1][0] not in ("merge", "load_shell_env"):
                        c["ops"].append(["merge"])
                    yield c
                    continue
            if r < 0.4 and len(loads) >= 2:
                i, j = rng.sample(loads, 2)
                c["ops"][i], c["ops"][j] = c["ops"][j], c["ops"][i]
            elif r < 0.7 and c["fs"]:
                i = rng.randrange(len(c["fs"]))
                c["fs"][i][1] = rng.choice(cc.SUFFIXES)
                if len({(l, s) for l, s, _ in c["fs"]}) < len(c["fs"]):
                    continue
            else:
                envs = [o for o in c["ops"] if o[0] == "load_shell_env"]
                lv = supplied_levels(c)
                paths = [p for t in lv.values() for p in all_paths(t)]
                if not paths:
                    continue
                var = "INVOKE_" + "_".join(rng.choice(paths)).upper()
                if envs:
                    envs[0][1] = dict(envs[0][1], **{var: rng.choice(cc.ENV_VALUES)})
                else:
                    c["ops"].append(["load_shell_env", {var: rng.choice(cc.ENV_VALUES)}])
            yield c

    # -- extra checks ------------------------------------------------------
    def extra_checks(self, tier, seed):
        return [self.check_formats(seed, 60 if tier == "quick" else 600),
                self.check_executor(seed, 40 if tier == "quick" else 400),
                self.check_rewritten(seed, 30 if tier == "quick" else 300),
                self.check_nonstring_keys()]

    def check_nonstring_keys(self):
        """F-C03a: a level with a non-string key (YAML ``1: x``) makes load_shell_env()
        raise TypeError while it builds variable names."""
        res = {"name": "nonstring-keys-env", "evaluations": 0, "failures": [],
               "note": "witness of the known finding F-C03a (not modelled: model keys are strings)"}
        for data in ({"a": {1: "x"}}, {2: True, "b": 1}):
            case = {"fs": [], "init": {"lazy": True}, "ops": []}
            s = cc.Session(case)
            try:
                cfg = s.construct()
                cfg.load_defaults(copy.deepcopy(data))
                res["evaluations"] += 1
                try:
                    s.run_op(cfg, ["load_shell_env", {}])
                except TypeError as e:
                    res["failures"].append({"finding": "F-C03a", "case": {"defaults": repr(data)},
                                            "what": "load_shell_env() raised TypeError: %s" % e})
                except Exception as e:
                    res["failures"].append({"case": {"defaults": repr(data)},
                                            "what": "load_shell_env() raised %r" % (e,)})
            finally:
                s.close()
        return res

    def check_rewritten(self, seed, n):
        """A file level holds what the file holds WHEN IT IS LOADED: a second Config
        reading the same path after the file was rewritten (same path, new content,
        same second) shows the new content; so does a reload of the same object
        after re-pointing to the same location."""
        import os
        import random
        rng = random.Random(seed + 13)
        res = {"name": "rewritten-file-reread", "evaluations": 0, "failures": [],
               "note": "test: two Configs on one scratch directory, a file rewritten in between "
                       "(modification time kept within the same second)"}
        for _ in range(n):
            sfx = rng.choice(cc.SUFFIXES)
            loc = rng.choice(["sys", "usr", "projA", "rtA"])
            d1 = {"a": {"b": rng.randint(1, 50)}, "k": "one"}
            d2 = {"a": {"b": d1["a"]["b"] + 100, "c": True}, "k": "two"}
            init = {"lazy": False, "proj": "projA" if loc == "projA" else None,
                    "rt": ["rtA", sfx] if loc == "rtA" else None}
            ops = [["load_project"]] if loc == "projA" else ([["load_runtime"]] if loc == "rtA" else [])
            case = {"fs": [[loc, sfx, {"data": d1}]], "init": init, "ops": ops}
            s = cc.Session(case)
            try:
                c1 = s.construct()
                for op in ops:
                    s.run_op(c1, op)
                v1 = cc.view_of(c1)
                path = cc.file_path(s.root, loc, sfx)
                st = os.stat(path)
                cc.write_fs(s.root, [[loc, sfx, {"data": d2}]])
                # keep the modification time inside the same second (a quick rewrite)
                os.utime(path, ns=(st.st_atime_ns, (st.st_mtime_ns // 10**9) * 10**9 + 999_000_000))
                c2 = s.construct()
                for op in ops:
                    s.run_op(c2, op)
                v2 = cc.view_of(c2)
                res["evaluations"] += 1
                if v1 != d1 or v2 != d2:
                    res["failures"].append({"case": {"loc": loc, "sfx": sfx, "first": d1, "second": d2},
                                            "what": "first Config read %r; after the rewrite a second Config "
                                                    "on the same path read %r (file holds %r)" % (v1, v2, d2)})
                    break
            except Exception as e:
                res["failures"].append({"case": {"loc": loc, "sfx": sfx}, "what": "raised %r" % (e,)})
                break
            finally:
                s.close()
        return res

    def check_executor(self, seed, n):
        """At the Executor level the environment must be read once the collection
        level is in place: a setting only the collection configuration defines is
        overridden by its environment variable in the config a task sees."""
        import os
        import random
        from invoke import Collection, Executor
        from invoke.tasks import Task
        rng = random.Random(seed + 5)
        res = {"name": "executor-env-after-collection", "evaluations": 0, "failures": [],
               "note": "test at the Executor level (Program/Executor are not modelled): collection "
                       "configuration then load_shell_env, as documented"}
        for _ in range(n):
            sch = cc.schema(rng, depth=rng.choice([1, 2, 3]), width=3, kinds="s")
            conf = cc.instance(rng, sch, 0.9)
            paths = [p for p, v in gt.leaf_paths(conf)]
            if not paths:
                continue
            seen = []

            def body(c):
                seen.append(gt.deep_view(c.config))
            coll = Collection("root")
            coll.add_task(Task(body, name="t"))
            coll.configure(conf)
            case = {"fs": [], "init": {"defaults": None, "lazy": False}, "ops": []}
            s = cc.Session(case)
            saved = dict(os.environ)
            try:
                cfg = s.construct()
                p = rng.choice(paths)
                os.environ["INVOKE_" + "_".join(p).upper()] = "from-env"
                Executor(coll, config=cfg).execute("t")
                res["evaluations"] += 1
                got = seen[0]
                for k in p:
                    got = got[k]
                if got != "from-env":
                    res["failures"].append({"case": {"collection": conf, "env_path": list(p)},
                                            "what": "task saw %r at %s, the environment says 'from-env' "
                                                    "(env read before the collection level was loaded?)"
                                                    % (got, ".".join(p))})
                    break
            except Exception as e:
                res["failures"].append({"case": {"collection": conf}, "what": "Executor raised %r" % (e,)})
                break
            finally:
                os.environ.clear()
                os.environ.update(saved)
                s.close()
        return res

    def check_formats(self, seed, n):
        """Format independence (a test: the parsers are not modelled): the same
        data written as yaml, yml, json and py loads to the same level."""
        import random
        rng = random.Random(seed + 77)
        res = {"name": "format-independence", "evaluations": 0, "failures": [],
               "note": "tested, not proved: the same tree through the four real loaders"}
        for _ in range(n):
            data = gt.jsonable(gt.tree(rng, depth=3, width=3, keys=gt.KEYS, kinds=FILE_KINDS,
                                       allow_empty=False))
            views = []
            for sfx in cc.SUFFIXES:
                case = {"fs": [["sys", sfx, {"data": data}]],
                        "init": {"lazy": False}, "ops": []}
                s = cc.Session(case)
                try:
                    cfg = s.construct()
                    views.append((sfx, cc.view_of(cfg), cc.sfx_of(cfg._system_path)))
                except Exception as e:
                    views.append((sfx, {"err": type(e).__name__}, None))
                finally:
                    s.close()
            res["evaluations"] += 1
            bad = [v for v in views if v[1] != data or v[2] != v[0]]
            if bad:
                res["failures"].append({"case": {"data": data}, "what": "format %s loads as %r" % (bad[0][0], bad[0][1])})
                break
        return res


PROP = C03()
