"""C03: every setting comes from the highest-precedence level that defines it;
load-order irrelevance; first existing suffix only."""
import copy
import itertools

from .. import config_common as cc
from .. import coqterm as ct
from .. import gen_tree as gt
from ..core import Prop

DOC_ORDER = ["defaults", "collection", "system", "user", "project", "env", "runtime",
             "overrides", "modifications", "deletions"]
FILE_KINDS = "nbisl"


def supplied_levels(case):
    """Python twin of Spec.C03Spec.supplied_of, used only for statistics
    (non-triviality, histogram) -- never for the verdict."""
    init, ops, fs = case["init"], case["ops"], case["fs"]
    init = cc.effective_init(init)
    lv = {"defaults": init.get("defaults") or {}, "overrides": init.get("overrides") or {},
          "collection": {}}
    proj, rt = init.get("proj"), init.get("rt")
    ops = [[o[0][:-2]] + list(o[1:]) if o[0].endswith("_d") else o for o in ops]
    names = [o[0] for o in ops]
    for o in ops:
        if o[0] == "load_defaults":
            lv["defaults"] = o[1]
        elif o[0] == "load_overrides":
            lv["overrides"] = o[1]
        elif o[0] == "load_collection":
            lv["collection"] = o[1]
        elif o[0] == "set_project_location":
            proj = o[1]
        elif o[0] == "set_runtime_path":
            rt = o[1]

    def first(loc):
        for s in cc.SUFFIXES:
            for l, sf, e in fs:
                if l == loc and sf == s:
                    return e.get("data") or {}
        return {}
    lazy = init.get("lazy")
    lv["system"] = first("sys") if (not lazy or "load_system" in names) else {}
    lv["user"] = first("usr") if (not lazy or "load_user" in names) else {}
    # a re-pointing empties the level: only a load AFTER the last re-pointing counts
    # (Spec.C03Spec.supplied_of: has_op ... (after_last ...))
    def after_last(setter):
        idx = [k for k, nm in enumerate(names) if nm == setter]
        return names[idx[-1] + 1:] if idx else names
    lv["project"] = first(proj) if (proj and "load_project" in after_last("set_project_location")) else {}
    lv["runtime"] = {}
    if rt and "load_runtime" in after_last("set_runtime_path"):
        for l, sf, e in fs:
            if l == rt[0] and sf == rt[1]:
                lv["runtime"] = e.get("data") or {}
    return lv


def all_paths(t, pre=()):
    if isinstance(t, dict) and "__tuple__" not in t:
        for k, v in t.items():
            yield pre + (k,)
            yield from all_paths(v, pre + (k,))


# --------------------------------------------------------------------------
# runtime modifications: histories of edits after the load calls
# --------------------------------------------------------------------------
MOD_OPS = ("set", "del", "pop", "popitem", "clear", "setdefault", "update")
P_MODS = 0.4


def _is_sec(v):
    return isinstance(v, dict) and not cc.is_enc_leaf(v)


def _set_path(d, p, v):
    cur = d
    for k in p[:-1]:
        if not _is_sec(cur.get(k)):
            cur[k] = {}
        cur = cur[k]
    cur[p[-1]] = v


def _attr_ok(k):
    """attribute syntax applies to the key (an identifier that is not a real
    attribute / method of Config)"""
    try:
        from invoke.config import Config
        real = set(dir(Config))
    except Exception:           # pragma: no cover
        return False
    return isinstance(k, str) and k.isidentifier() and not k.startswith("__") and k not in real \
        and k not in ("True", "False", "None")


class ModTwin:
    """Generation-side bookkeeping only (never the verdict): the levels of the
    case, the writes and the deletions so far, to aim the next edit at paths
    that are visible / were deleted."""

    def __init__(self, levels):
        self.base = {}
        for name in DOC_ORDER:
            if _is_sec(levels.get(name)):
                self.base = cc.py_overlay(self.base, levels[name])
        self.mods, self.dels = {}, []

    def view(self):
        v = cc.py_overlay(self.base, self.mods)
        for p in self.dels:
            cur = v
            for k in p[:-1]:
                cur = cur.get(k) if _is_sec(cur) else None
                if cur is None:
                    break
            if _is_sec(cur):
                cur.pop(p[-1], None)
        return v

    def at(self, p):
        cur = self.view()
        for k in p:
            if not _is_sec(cur) or k not in cur:
                return None, False
            cur = cur[k]
        return cur, True

    def sections(self):
        out = [()]

        def rec(t, pre):
            for k, v in t.items():
                if _is_sec(v):
                    out.append(pre + (k,))
                    rec(v, pre + (k,))
        rec(self.view(), ())
        return out

    def write(self, p, v):
        p = tuple(p)
        _set_path(self.mods, p, copy.deepcopy(v))
        self.dels = [d for d in self.dels if d[:len(p)] != p]

    def delete(self, p):
        self.dels.append(tuple(p))

    def apply(self, op):
        """follow the edit; False = it will raise (the script ends there)"""
        n, kp = op[0], tuple(op[2]) if len(op) > 2 else ()
        if n == "merge":
            return True
        sec, ok = self.at(kp)
        if not ok or not _is_sec(sec):
            return False
        if n == "set":
            self.write(kp + (op[3],), op[4])
        elif n == "del":
            if op[3] not in sec:
                return False
            self.delete(kp + (op[3],))
        elif n == "pop":
            if op[3] in sec:
                self.delete(kp + (op[3],))
            elif op[4] is None:
                return False
        elif n == "popitem":
            if not sec:
                return False
            self.delete(kp + (list(sec)[-1],))      # a guess: which key goes is the dict's business
        elif n == "clear":
            for k in list(sec):
                self.delete(kp + (k,))
        elif n == "setdefault":
            if op[3] not in sec:
                self.write(kp + (op[3],), None if op[4] is None else op[4]["d"])
        elif n == "update":
            for k, v in op[3]:
                self.write(kp + (k,), v)
        return True


def _sch_at(sch, p):
    cur = sch
    for k in p:
        if not isinstance(cur, dict) or k not in cur:
            return None
        cur = cur[k]
    return cur


def _value_for(rng, sch, p, force=None, avoid=None):
    """a value for a write at ``p`` keeping the case type-consistent: a leaf of the
    schema's kind, an instance of the schema's section (``force``: a relative path
    the written dict must define; ``avoid``: one it must not), a fresh leaf for a
    path the schema does not know"""
    node = _sch_at(sch, p)
    if isinstance(node, dict):
        v = gt.jsonable(cc.instance(rng, node, rng.choice([0.4, 0.7, 1.0])))
        if force:
            sub, cur = node, v
            for i, k in enumerate(force):
                sub = sub.get(k) if isinstance(sub, dict) else None
                if sub is None:
                    break
                if i == len(force) - 1:
                    cur[k] = (gt.jsonable(cc.instance(rng, sub, 0.7)) if isinstance(sub, dict)
                              else cc.leaf(rng, sub))
                else:
                    if not _is_sec(cur.get(k)):
                        cur[k] = {}
                    cur = cur[k]
        if avoid:
            cur = v
            for k in avoid[:-1]:
                cur = cur.get(k) if _is_sec(cur) else None
                if cur is None:
                    break
            if _is_sec(cur):
                cur.pop(avoid[-1], None)
        return v
    if isinstance(node, str):
        return cc.leaf(rng, node)
    return cc.leaf(rng, rng.choice("nbis"))


def _fl(rng, path):
    return "attr" if (rng.random() < 0.4 and all(_attr_ok(k) for k in path)) else "item"


def gen_mods(rng, sch, keys, levels, n):
    """a history of ``n`` edits; more than half of the writes are aimed at what an
    earlier edit deleted: the path itself, its parent section or a section further
    up (assigned a dict with / without the deleted key), by assignment, update()
    or setdefault()"""
    tw = ModTwin(levels)
    ops, deleted = [], []

    def emit(op):
        ops.append(op)
        return tw.apply(op)

    for _ in range(n):
        secs = tw.sections()
        alive = True
        if deleted and rng.random() < 0.6:
            p = rng.choice(deleted)
            # the target of the write: the deleted path or one of its proper ancestors
            cut = rng.choice(range(1, len(p) + 1)) if rng.random() < 0.65 else len(p)
            t, rel = p[:cut], p[cut:]
            _, par_ok = tw.at(t[:-1])
            if not par_ok:
                continue
            r = rng.random()
            v = _value_for(rng, sch, t, force=(rel if (rel and r < 0.7) else None),
                           avoid=(rel if (rel and r >= 0.85) else None))
            how = rng.random()
            if how < 0.6:
                alive = emit(["set", _fl(rng, t), list(t[:-1]), t[-1], v])
            elif how < 0.85:
                kvs = [[t[-1], v]]
                if rng.random() < 0.3:
                    par = _sch_at(sch, t[:-1])
                    if isinstance(par, dict):
                        k2 = rng.choice(list(par))
                        if k2 != t[-1]:
                            kvs.insert(rng.randrange(2), [k2, _value_for(rng, sch, t[:-1] + (k2,))])
                alive = emit(["update", _fl(rng, t[:-1]), list(t[:-1]), kvs,
                              rng.choice(["dict", "kwargs", "pairs"]) if all(_attr_ok(k) for k, _ in kvs)
                              else rng.choice(["dict", "pairs"])])
            else:
                alive = emit(["setdefault", _fl(rng, t[:-1]), list(t[:-1]), t[-1], {"d": v}])
        else:
            kp = rng.choice(secs)
            sec, _ = tw.at(kp)
            kind = rng.choices(["del", "pop", "popitem", "clear", "set", "update", "setdefault", "merge"],
                               [30, 12, 5, 6, 18, 8, 6, 5])[0]
            if kind in ("del", "pop"):
                if not sec:
                    continue
                k = rng.choice(list(sec)) if rng.random() < 0.93 else rng.choice(keys)
                deleted.append(kp + (k,))
                if kind == "del":
                    alive = emit(["del", _fl(rng, kp + (k,)), list(kp), k])
                else:
                    d = None if rng.random() < 0.5 else {"d": cc.leaf(rng, "isn")}
                    alive = emit(["pop", _fl(rng, kp), list(kp), k, d])
            elif kind == "popitem":
                if not sec:
                    continue
                deleted.extend(kp + (k,) for k in sec)
                alive = emit(["popitem", _fl(rng, kp), list(kp)])
            elif kind == "clear":
                if not kp and rng.random() < 0.7:
                    continue
                deleted.extend(kp + (k,) for k in sec)
                alive = emit(["clear", _fl(rng, kp), list(kp)])
            elif kind == "merge":
                alive = emit(["merge"])
            else:
                node = _sch_at(sch, kp)
                cands = list(node) if isinstance(node, dict) else []
                k = rng.choice(cands) if (cands and rng.random() < 0.8) else rng.choice(keys)
                if isinstance(node, dict) and k not in node:
                    node[k] = rng.choice("nbis")          # a key only the modifications level defines
                v = _value_for(rng, sch, kp + (k,))
                if kind == "set":
                    alive = emit(["set", _fl(rng, kp + (k,)), list(kp), k, v])
                elif kind == "update":
                    alive = emit(["update", _fl(rng, kp), list(kp), [[k, v]],
                                  rng.choice(["dict", "pairs"])])
                else:
                    alive = emit(["setdefault", _fl(rng, kp), list(kp), k,
                                  {"d": v} if (rng.random() < 0.9 or isinstance(v, dict)) else None])
        if not alive:
            break
    return ops


def mods_family():
    """Systematic "delete, then write again" histories over one small
    configuration (three levels defining the section): every way of removing a
    setting x every way of defining it again -- the path itself, its parent, the
    section two levels up, with and without the removed key in the written dict."""
    defaults = {"s": {"x": 1, "y": 2, "t": {"u": 3, "v": 4}}, "k": 0}
    overrides = {"s": {"y": 20, "t": {"v": 40}}}
    proj = {"s": {"x": 10, "z": 30}}
    targets = [("s", "x"), ("s", "t"), ("s", "t", "u"), ("k",), ("s",)]
    fresh = {("s", "x"): 7, ("s", "t"): {"u": 8, "w": 9}, ("s", "t", "u"): 5, ("k",): 6,
             ("s",): {"x": 11, "t": {"u": 12}, "q": 13}}
    out = []
    for P in targets:
        par, key = P[:-1], P[-1]
        removers = [[["del", "item", list(par), key]], [["del", "attr", list(par), key]],
                    [["pop", "item", list(par), key, None]],
                    [["pop", "attr", list(par), key, {"d": 0}]]]
        if par:
            removers.append([["clear", "item", list(par)]])
        if len(P) == 3:
            removers.append([["del", "item", list(par), key], ["del", "item", list(par), "v"]])
        rewriters = [[["set", "item", list(par), key, fresh[P]]],
                     [["set", "attr", list(par), key, fresh[P]]],
                     [["update", "item", list(par), [[key, fresh[P]]], "dict"]],
                     [["setdefault", "item", list(par), key, {"d": fresh[P]}]]]
        for cut in range(1, len(P)):
            A, rel = P[:cut], P[cut:]
            with_key, without = {}, {"fresh": 1}
            _set_path(with_key, rel, fresh[P])
            if len(rel) > 1:
                _set_path(without, rel[:-1] + ("other",), 2)
            rewriters.append([["set", "item", list(A[:-1]), A[-1], with_key]])
            rewriters.append([["set", "attr", list(A[:-1]), A[-1], with_key]])
            rewriters.append([["set", "item", list(A[:-1]), A[-1], without]])
            rewriters.append([["update", "item", list(A[:-1]), [[A[-1], with_key]], "pairs"]])
            rewriters.append([["set", "item", list(A[:-1]), A[-1], {}]])
        for i, rm in enumerate(removers):
            for j, rw in enumerate(rewriters):
                ops = [["load_project"]] + rm + rw
                if (i + j) % 3 == 0:
                    ops.append(["merge"])
                if (i + j) % 4 == 1:
                    ops.insert(1, ["load_shell_env", {"INVOKE_S_Y": "21", "INVOKE_K": "3"}])
                out.append({"fs": [["projA", ["json", "yaml", "py"][(i + j) % 3], {"data": proj}]],
                            "init": {"defaults": defaults, "overrides": overrides, "proj": "projA", "rt": None,
                                     "lazy": bool((i + j) % 2)},
                            "ops": ops})
    return out


class C03(Prop):
    id = "C03"
    corr_module = "Corr.C03Corr"
    preds = ("corr", "spec", "in_scope", "with_mods")
    quick_n = 1100
    shard_size = 70            # 16 shards run in parallel: snapshots after every call make the terms big
    thorough_n = 20000
    rule = ("one schema per case fixes which paths are sections/leaves; each of the 8 non-env levels is "
            "absent or a random sub-tree of it (overlap forced, depth<=4, all leaf kinds); system/user/"
            "project/runtime levels are real files (yaml/yml/json/py, several candidates with different "
            "contents at once, occasionally an empty YAML file, an unopenable candidate (a directory / a symlink loop) or a damaged one its loader cannot parse); dict levels are handed over as plain dicts, as types.MappingProxyType or as a section of another config; 10% of the cases start from the class's stock global_defaults(); the "
            "environment names settings of the schema; levels are fed through the constructor or the "
            "load_* calls in a random order -- 45% of the cases with some or all loads deferred (merge=False) and "
            "then an explicit merge() or load_shell_env() at the end --, load_shell_env last.  40% of the cases go on "
            "with a history of 2-7 edits through the configuration (the runtime-modifications level and its deletion "
            "bookkeeping): del / pop / popitem / clear, assignment of leaves and of dicts, update(), setdefault(), "
            "merge(), item or attribute syntax, at any depth; 60% of the writes are aimed at what an earlier edit "
            "deleted -- the path itself, its parent section or a section further up, assigned a dict with or without "
            "the deleted key.  Every run starts with a third (quick) / all (thorough) of a systematic family of 206 "
            "'remove, then define again' histories (5 targets x 4-6 ways of removing x 4-14 ways of writing again) over "
            "one three-level configuration.  Non-trivial = at least 3 levels "
            "define a common path; distinct by the whole case")
    trusted_base = [
        "Coq 8.16.1 kernel + vm_compute (shard evaluation)",
        "hand-written model coq/Model/ConfigModel.v + MergeModel.v + EnvModel.v tied to invoke/config.py, "
        "invoke/env.py by differential execution (this run)",
        "harness/coqterm.py, harness/config_common.py (term printers, file writers), harness/props/c03.py",
        "the YAML/JSON/Python loaders are exercised, not modelled: format independence is a test",
        "CPython 3.12 executing the repository under test",
    ]
    assumptions = [
        "levels are type-consistent (a path is a section in every level defining it or a leaf in every one): "
        "the property's quantifier; other inputs are judged acceptable by the spec",
        "each level is loaded through the public API, file locations are set before the loads, the "
        "environment is read last and once (as documented)",
        "edits through the configuration come after the (settled) load calls; what they delete stays deleted until "
        "the path is written again; a deletion below a section that is then assigned a dict NOT defining the deleted "
        "key may stay or be cancelled (the property does not say; the code cancels it); written values keep the case "
        "type-consistent (a clash may raise AmbiguousMergeError: judging stops there)",
        "keys are ASCII strings (a non-string key makes load_shell_env() raise: known finding F-C03a, "
        "witnessed by an extra check); leaves None/bool/int/str/list/tuple",
        "a .py candidate that os.path.exists() denies (missing, dangling or looping link) loads as empty "
        "(load_source's documented quirk): unopenable candidates are generated for yaml/yml/json only",
    ]
    not_modelled = [
        "the three file parsers (files are an abstract map location x suffix -> data)",
        "expanduser / Windows defaults for the system prefix",
        "the state of a Config after merge() raised",
        "edits through proxies held across calls, edits interleaved with reloads, load_shell_env() after edits "
        "(C06's subject); which item popitem() removes is read off the next view",
    ]

    def teardown(self):
        cc.cleanup()

    # -- generation --------------------------------------------------------
    def gen_one(self, rng):
        keys = cc.SAFE_KEYS if rng.random() < 0.65 else gt.KEYS
        # list / tuple leaves too: the same path holds a list in several levels
        sch = cc.schema(rng, depth=rng.choice([2, 3, 3, 4]), width=rng.choice([2, 3, 4]), keys=keys,
                        kinds=rng.choice(["nbis", "nbislt", "lltis"]))
        p_keep = rng.choice([0.5, 0.7, 0.9])

        def inst(kinds):
            return gt.jsonable(cc.instance(rng, sch, p_keep, kinds))
        fs = []
        present = {n: rng.random() < 0.65 for n in
                   ["defaults", "collection", "system", "user", "project", "runtime", "overrides"]}
        for name, loc in (("system", "sys"), ("user", "usr"), ("project", "projA")):
            if present[name]:
                for sfx in rng.sample(cc.SUFFIXES, rng.choice([1, 1, 2, 3])):
                    r = rng.random()
                    if r < 0.025 and sfx in ("yaml", "yml", "json"):
                        fs.append([loc, sfx, {"empty": 1}])      # empty YAML document / JSON null
                    elif r < 0.03:
                        fs.append([loc, sfx, {"ioerr": 1}])
                    elif r < 0.05:
                        fs.append([loc, sfx, {"bad": 1}])        # damaged: its loader cannot parse it
                    elif r < 0.055 and sfx != "py":
                        # exists, cannot be opened (ELOOP).  Not for .py: load_source() asks
                        # os.path.exists first and answers {} when that says no (the recorded
                        # quirk: a .py candidate that does not "exist" loads as empty)
                        fs.append([loc, sfx, {"loop": 1}])
                    else:
                        fs.append([loc, sfx, {"data": inst(FILE_KINDS)}])
        rt = None
        if present["runtime"]:
            rt = ["rtA", rng.choice(cc.SUFFIXES)]
            r = rng.random()
            if r < 0.03:
                fs.append([rt[0], rt[1], {"bad": 1}])
            elif r < 0.9:
                fs.append([rt[0], rt[1], {"data": inst(FILE_KINDS)}])
            if rng.random() < 0.2:     # a sibling with another suffix must be ignored
                other = rng.choice([s for s in cc.SUFFIXES if s != rt[1]])
                fs.append([rt[0], other, {"data": inst(FILE_KINDS)}])
        if rng.random() < 0.15:        # a second project location that must not be read
            fs.append(["projB", rng.choice(cc.SUFFIXES), {"data": inst(FILE_KINDS)}])
        rng.shuffle(fs)
        lazy = rng.random() < 0.5
        init = {"defaults": None, "overrides": None, "proj": None, "rt": None, "lazy": lazy,
                "tilde": rng.random() < 0.25}
        r = rng.random()
        if r < 0.10:
            init["mapkind"] = "mp"        # dict levels handed over as types.MappingProxyType
        elif r < 0.16:
            init["mapkind"] = "proxy"     # ... as a section (DataProxy) of another config
        if rng.random() < 0.10:
            init["stock"] = True          # the class's stock global_defaults() underneath
        pre, loads = [], []
        if present["defaults"]:
            if rng.random() < 0.5:
                init["defaults"] = inst("nbislt")
            else:
                loads.append(["load_defaults", inst("nbislt")])
            if rng.random() < 0.1:
                loads.append(["load_defaults", inst("nbislt")])
        if present["overrides"]:
            if rng.random() < 0.5:
                init["overrides"] = inst("nbislt")
            else:
                loads.append(["load_overrides", inst("nbislt")])
        if present["collection"]:
            loads.append(["load_collection", inst("nbislt")])
        if present["project"] or rng.random() < 0.2:
            if rng.random() < 0.5:
                init["proj"] = "projA"
            else:
                if rng.random() < 0.3:
                    init["proj"] = "projB"
                pre.append(["set_project_location", "projA"])
            loads.append(["load_project"])
        if rt is not None:
            if rng.random() < 0.5:
                init["rt"] = rt
            else:
                pre.append(["set_runtime_path", rt])
            loads.append(["load_runtime"])
        if lazy:
            if rng.random() < 0.8:
                loads.append(["load_system"])
            if rng.random() < 0.8:
                loads.append(["load_user"])
        elif rng.random() < 0.2:
            loads.append([rng.choice(["load_system", "load_user"])])   # no-op: already loaded
        if init.get("stock") and init["defaults"] is not None:
            loads.append(["load_defaults", init["defaults"]])   # stock defaults first, replaced later
            init["defaults"] = None
        rng.shuffle(pre)
        rng.shuffle(loads)
        # re-pointing: after the project / runtime file was loaded, point elsewhere
        # (and maybe load again): what came from the old location must be forgotten
        names = [o[0] for o in loads]
        if "load_project" in names and rng.random() < 0.2:
            fs.append(["projB", rng.choice(cc.SUFFIXES), {"data": inst(FILE_KINDS)}])
            i = names.index("load_project")
            j = rng.randint(i + 1, len(loads))
            loads.insert(j, ["set_project_location", rng.choice(["projB", "projB", None])])
            if rng.random() < 0.6:
                loads.insert(rng.randint(j + 1, len(loads)), ["load_project"])
        names = [o[0] for o in loads]
        if "load_runtime" in names and rng.random() < 0.15:
            sfx2 = rng.choice(cc.SUFFIXES)
            fs.append(["rtB", sfx2, {"data": inst(FILE_KINDS)}])
            i = names.index("load_runtime")
            j = rng.randint(i + 1, len(loads))
            loads.insert(j, ["set_runtime_path", ["rtB", sfx2]])
            if rng.random() < 0.6:
                loads.insert(rng.randint(j + 1, len(loads)), ["load_runtime"])
        # merge=False: some or all loads deferred; the script then ends with
        # load_shell_env() or an explicit merge() (re-pointing does not merge either)
        deferred = any(o[0].startswith("set_") for o in loads)
        if rng.random() < 0.45:
            p_def = rng.choice([0.4, 0.7, 1.0])
            for o in loads:
                if o[0].startswith("load_") and rng.random() < p_def:
                    o[0] += "_d"
                    deferred = True
            if rng.random() < 0.2 and loads:
                loads.insert(rng.randrange(len(loads) + 1), ["merge"])
        seen_files, uniq = set(), []
        for e in fs:                      # one entry per (location, suffix)
            if (e[0], e[1]) not in seen_files:
                seen_files.add((e[0], e[1]))
                uniq.append(e)
        fs = uniq
        ops = pre + loads
        if rng.random() < (0.75 if not deferred else 0.85):
            if rng.random() < 0.1:
                ops.append(["merge"])
            ops.append(["load_shell_env", cc.env_for(rng, sch, rng.choice([0.2, 0.5]))])
        elif deferred or rng.random() < 0.1:
            ops.append(["merge"])
        # runtime modifications: a history of edits after the (settled) load calls
        if rng.random() < P_MODS:
            if not ops or (deferred and ops[-1][0] not in ("merge", "load_shell_env")):
                ops.append(["merge"])
            # written dicts are plain dicts (Session.supply would wrap them like the levels)
            init.pop("mapkind", None)
            levels = supplied_levels({"fs": fs, "init": init, "ops": ops})
            ops.extend(gen_mods(rng, sch, keys, levels, rng.choice([2, 3, 4, 5, 7])))
        return {"fs": fs, "init": init, "ops": ops}

    def generate(self, rng, tier, n):
        fam = mods_family()
        if tier == "quick":         # a third of the systematic family per run, chosen by the seed
            k = rng.randrange(3)
            fam = [c for j, c in enumerate(fam) if j % 3 == k]
        yield from fam
        for _ in range(max(0, n - len(fam))):
            yield self.gen_one(rng)

    def enumerate_small(self, tier):
        """every assignment of {absent, {a:{b:i}}, {a:{c:i}, d:i}} to the seven
        non-env levels (i = 1 + index of the level, so the winner is
        recognisable), environment naming a.b; quick: every 7th"""
        names = ["defaults", "collection", "system", "user", "project", "runtime", "overrides"]
        k = 0
        for combo in itertools.product([0, 1, 2], repeat=7):
            k += 1
            if tier == "quick" and k % 7:
                continue
            fs, ops = [], []
            init = {"defaults": None, "overrides": None, "proj": "projA", "rt": ["rtA", "json"],
                    "lazy": bool(k % 2)}
            for idx, (name, c) in enumerate(zip(names, combo)):
                if c == 0:
                    continue
                i = idx + 1
                data = {"a": {"b": i}} if c == 1 else {"a": {"c": i}, "d": i}
                if name == "defaults":
                    init["defaults"] = data
                elif name == "overrides":
                    ops.append(["load_overrides", data])
                elif name == "collection":
                    ops.append(["load_collection", data])
                elif name == "system":
                    fs.append(["sys", "yml", {"data": data}])
                elif name == "user":
                    fs.append(["usr", "json", {"data": data}])
                elif name == "project":
                    fs.append(["projA", "py", {"data": data}])
                elif name == "runtime":
                    fs.append(["rtA", "json", {"data": data}])
            ops += [["load_runtime"], ["load_project"], ["load_user"], ["load_system"]]
            if k % 3:
                ops = list(reversed(ops))
            ops.append(["load_shell_env", {"INVOKE_A_B": "9", "INVOKE_D": "8"}])
            yield {"fs": fs, "init": init, "ops": ops}

    # -- implementation ----------------------------------------------------
    def run_impl(self, case):
        s = cc.Session(case)
        try:
            try:
                cfg = s.construct()
            except Exception as e:
                return {"err": type(e).__name__}
            def snap():
                return {"view": cc.view_of(cfg), "env": cc.level_view(cfg._env),
                        "sfx": [cc.sfx_of(cfg._system_path) if cfg._system_found else None,
                                cc.sfx_of(cfg._user_path) if cfg._user_found else None,
                                cc.sfx_of(cfg._project_path) if cfg._project_found else None]}
            mids = []
            for op in case["ops"]:
                cfg, out = s.try_op(cfg, op)
                if "err" in out:
                    return dict(out, mids=mids)
                mids.append(snap())
            return {"ok": snap(), "mids": mids}
        finally:
            s.close()

    def to_coq(self, case, obs):
        def snap(ok):
            return "(%s, %s, %s)" % (cc.c_tree(ok["view"]), cc.c_tree(ok["env"]),
                                     ct.lst([cc.c_optstr(x) for x in ok["sfx"]]))
        if "err" in obs:
            o = "(Err %s)" % ct.err(obs["err"])
        else:
            o = "(Ok %s)" % snap(obs["ok"])
        mids = ct.lst([snap(m) for m in obs.get("mids", [])])
        return "(mk %s %s %s %s %s)" % (cc.c_fs(case["fs"]), cc.c_init(cc.effective_init(case["init"])),
                                        cc.c_ops(case["ops"]), o, mids)

    # -- statistics --------------------------------------------------------
    def nontrivial(self, case, obs):
        lv = supplied_levels(case)
        count = {}
        for name, t in lv.items():
            for p in set(all_paths(t)):
                count[p] = count.get(p, 0) + 1
        if "ok" in obs:
            for p in set(all_paths(obs["ok"]["env"])):
                count[p] = count.get(p, 0) + 1
        return any(c >= 3 for c in count.values())

    def classify(self, case, obs):
        if "err" in obs:
            return "err:" + obs["err"] + ("+edits" if any(o[0] in MOD_OPS for o in case["ops"]) else "")
        lv = supplied_levels(case)
        n = sum(1 for t in lv.values() if t) + (1 if obs["ok"]["env"] else 0)
        m = sum(1 for o in case["ops"] if o[0] in MOD_OPS)
        return "levels:%d" % n + ("+edits:%s" % (m if m < 4 else "4+") if m else "")

    def shrink_candidates(self, case):
        yield from cc.shrink_common(case)

    def mutate(self, case, rng):
        for _ in range(40):
            c = {"fs": [list(x) for x in case["fs"]], "init": dict(case["init"]),
                 "ops": [list(o) for o in case["ops"]]}
            r = rng.random()
            loads = [i for i, o in enumerate(c["ops"]) if o[0].startswith("load_") and o[0] != "load_shell_env"]
            if rng.random() < 0.25:
                # a "delete, then define again through the parent" tail on a nested setting some level defines
                lv = supplied_levels(c)
                nested = [p for t in lv.values() for p in all_paths(t) if len(p) >= 2]
                if nested:
                    p = rng.choice(nested)
                    if not c["ops"] or c["ops"][-1][0] not in ("merge", "load_shell_env"):
                        c["ops"].append(["merge"])
                    c["init"].pop("mapkind", None)
                    inner = {}
                    _set_path(inner, p[1:], "again")
                    c["ops"] += [["del", "item", list(p[:-1]), p[-1]], ["set", "item", [], p[0], inner]]
                    yield c
                    continue
            if rng.random() < 0.3 and loads:
                i = rng.choice(loads)
                if not c["ops"][i][0].endswith("_d"):
                    c["ops"][i][0] += "_d"
                    if c["ops"][-1][0] not in ("merge", "load_shell_env"):
                        c["ops"].append(["merge"])
                    yield c
                    continue
            if r < 0.4 and len(loads) >= 2:
                i, j = rng.sample(loads, 2)
                c["ops"][i], c["ops"][j] = c["ops"][j], c["ops"][i]
            elif r < 0.7 and c["fs"]:
                i = rng.randrange(len(c["fs"]))
                c["fs"][i][1] = rng.choice(cc.SUFFIXES)
                if len({(l, s) for l, s, _ in c["fs"]}) < len(c["fs"]):
                    continue
            else:
                envs = [o for o in c["ops"] if o[0] == "load_shell_env"]
                lv = supplied_levels(c)
                paths = [p for t in lv.values() for p in all_paths(t)]
                if not paths:
                    continue
                var = "INVOKE_" + "_".join(rng.choice(paths)).upper()
                if envs:
                    envs[0][1] = dict(envs[0][1], **{var: rng.choice(cc.ENV_VALUES)})
                else:
                    c["ops"].append(["load_shell_env", {var: rng.choice(cc.ENV_VALUES)}])
            yield c

    # -- extra checks ------------------------------------------------------
    def extra_checks(self, tier, seed):
        return [self.check_formats(seed, 60 if tier == "quick" else 600),
                self.check_executor(seed, 40 if tier == "quick" else 400),
                self.check_rewritten(seed, 30 if tier == "quick" else 300),
                self.check_nonstring_keys()]

    def check_nonstring_keys(self):
        """F-C03a: a level with a non-string key (YAML ``1: x``) makes load_shell_env()
        raise TypeError while it builds variable names."""
        res = {"name": "nonstring-keys-env", "evaluations": 0, "failures": [],
               "note": "witness of the known finding F-C03a (not modelled: model keys are strings)"}
        for data in ({"a": {1: "x"}}, {2: True, "b": 1}):
            case = {"fs": [], "init": {"lazy": True}, "ops": []}
            s = cc.Session(case)
            try:
                cfg = s.construct()
                cfg.load_defaults(copy.deepcopy(data))
                res["evaluations"] += 1
                try:
                    s.run_op(cfg, ["load_shell_env", {}])
                except TypeError as e:
                    res["failures"].append({"finding": "F-C03a", "case": {"defaults": repr(data)},
                                            "what": "load_shell_env() raised TypeError: %s" % e})
                except Exception as e:
                    res["failures"].append({"case": {"defaults": repr(data)},
                                            "what": "load_shell_env() raised %r" % (e,)})
            finally:
                s.close()
        return res

    def check_rewritten(self, seed, n):
        """A file level holds what the file holds WHEN IT IS LOADED: a second Config
        reading the same path after the file was rewritten (same path, new content,
        same second) shows the new content; so does a reload of the same object
        after re-pointing to the same location."""
        import os
        import random
        rng = random.Random(seed + 13)
        res = {"name": "rewritten-file-reread", "evaluations": 0, "failures": [],
               "note": "test: two Configs on one scratch directory, a file rewritten in between "
                       "(modification time kept within the same second)"}
        for _ in range(n):
            sfx = rng.choice(cc.SUFFIXES)
            loc = rng.choice(["sys", "usr", "projA", "rtA"])
            d1 = {"a": {"b": rng.randint(1, 50)}, "k": "one"}
            d2 = {"a": {"b": d1["a"]["b"] + 100, "c": True}, "k": "two"}
            init = {"lazy": False, "proj": "projA" if loc == "projA" else None,
                    "rt": ["rtA", sfx] if loc == "rtA" else None}
            ops = [["load_project"]] if loc == "projA" else ([["load_runtime"]] if loc == "rtA" else [])
            case = {"fs": [[loc, sfx, {"data": d1}]], "init": init, "ops": ops}
            s = cc.Session(case)
            try:
                c1 = s.construct()
                for op in ops:
                    s.run_op(c1, op)
                v1 = cc.view_of(c1)
                path = cc.file_path(s.root, loc, sfx)
                st = os.stat(path)
                cc.write_fs(s.root, [[loc, sfx, {"data": d2}]])
                # keep the modification time inside the same second (a quick rewrite)
                os.utime(path, ns=(st.st_atime_ns, (st.st_mtime_ns // 10**9) * 10**9 + 999_000_000))
                c2 = s.construct()
                for op in ops:
                    s.run_op(c2, op)
                v2 = cc.view_of(c2)
                res["evaluations"] += 1
                if v1 != d1 or v2 != d2:
                    res["failures"].append({"case": {"loc": loc, "sfx": sfx, "first": d1, "second": d2},
                                            "what": "first Config read %r; after the rewrite a second Config "
                                                    "on the same path read %r (file holds %r)" % (v1, v2, d2)})
                    break
            except Exception as e:
                res["failures"].append({"case": {"loc": loc, "sfx": sfx}, "what": "raised %r" % (e,)})
                break
            finally:
                s.close()
        return res

    def check_executor(self, seed, n):
        """At the Executor level the environment must be read once the collection
        level is in place: a setting only the collection configuration defines is
        overridden by its environment variable in the config a task sees."""
        import os
        import random
        from invoke import Collection, Executor
        from invoke.tasks import Task
        rng = random.Random(seed + 5)
        res = {"name": "executor-env-after-collection", "evaluations": 0, "failures": [],
               "note": "test at the Executor level (Program/Executor are not modelled): collection "
                       "configuration then load_shell_env, as documented"}
        for _ in range(n):
            sch = cc.schema(rng, depth=rng.choice([1, 2, 3]), width=3, kinds="s")
            conf = cc.instance(rng, sch, 0.9)
            paths = [p for p, v in gt.leaf_paths(conf)]
            if not paths:
                continue
            seen = []

            def body(c):
                seen.append(gt.deep_view(c.config))
            coll = Collection("root")
            coll.add_task(Task(body, name="t"))
            coll.configure(conf)
            case = {"fs": [], "init": {"defaults": None, "lazy": False}, "ops": []}
            s = cc.Session(case)
            saved = dict(os.environ)
            try:
                cfg = s.construct()
                p = rng.choice(paths)
                os.environ["INVOKE_" + "_".join(p).upper()] = "from-env"
                Executor(coll, config=cfg).execute("t")
                res["evaluations"] += 1
                got = seen[0]
                for k in p:
                    got = got[k]
                if got != "from-env":
                    res["failures"].append({"case": {"collection": conf, "env_path": list(p)},
                                            "what": "task saw %r at %s, the environment says 'from-env' "
                                                    "(env read before the collection level was loaded?)"
                                                    % (got, ".".join(p))})
                    break
            except Exception as e:
                res["failures"].append({"case": {"collection": conf}, "what": "Executor raised %r" % (e,)})
                break
            finally:
                os.environ.clear()
                os.environ.update(saved)
                s.close()
        return res

    def check_formats(self, seed, n):
        """Format independence (a test: the parsers are not modelled): the same
        data written as yaml, yml, json and py loads to the same level."""
        import random
        rng = random.Random(seed + 77)
        res = {"name": "format-independence", "evaluations": 0, "failures": [],
               "note": "tested, not proved: the same tree through the four real loaders"}
        for _ in range(n):
            data = gt.jsonable(gt.tree(rng, depth=3, width=3, keys=gt.KEYS, kinds=FILE_KINDS,
                                       allow_empty=False))
            views = []
            for sfx in cc.SUFFIXES:
                case = {"fs": [["sys", sfx, {"data": data}]],
                        "init": {"lazy": False}, "ops": []}
                s = cc.Session(case)
                try:
                    cfg = s.construct()
                    views.append((sfx, cc.view_of(cfg), cc.sfx_of(cfg._system_path)))
                except Exception as e:
                    views.append((sfx, {"err": type(e).__name__}, None))
                finally:
                    s.close()
            res["evaluations"] += 1
            bad = [v for v in views if v[1] != data or v[2] != v[0]]
            if bad:
                res["failures"].append({"case": {"data": data}, "what": "format %s loads as %r" % (bad[0][0], bad[0][1])})
                break
        return res


PROP = C03()
