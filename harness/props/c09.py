"""C09: a task signature maps to a well-formed CLI whose parsed values always bind."""
import inspect
import itertools

from .. import coqterm as ct
from ..core import Prop

CTX = "zctx"  # default name of the context parameter; never in the vocabularies
CTX_NAMES = ["zctx", "c", "ctx", "context", "self", "task", "name"]     # the context parameter's name varies

# shared prefixes, underscores, single letters, leading/trailing underscores
VOCAB10 = ["a", "b", "ab", "abc", "a_b", "ab_c", "_a", "b_", "no_a", "_"]
VOCAB = VOCAB10 + ["foo", "foo_bar", "f", "bar", "no_foo", "a_b_c", "a__b", "x1", "__x__", "foo_",
                   "o", "n", "no", "ba", "__",
                   # case matters: identifiers and short flags are case-sensitive
                   "Verbose", "v", "V", "Ab", "aB", "A", "B", "Foo", "F", "No_a",
                   # names that also occur in invoke's own call path (Task.__call__, Executor, Context)
                   "context", "self", "args", "kwargs", "task", "name", "type_"]

DEFAULTS = [["E"], ["N"], ["S", "x"], ["S", ""], ["I", 0], ["I", 5], ["B", True], ["B", False],
            ["L", []], ["L", ["p", "q"]],
            # defaults of other types: [O, type name, source text]
            ["O", "float", "1.5"], ["O", "tuple", "(1, 2)"], ["O", "float", "0.0"]]
OTHER = {"float": float, "tuple": tuple}
KINDS7 = [["E"], ["N"], ["S", "x"], ["I", 5], ["B", True], ["B", False], ["L", []], ["O", "float", "1.5"]]
KINDS3 = [["E"], ["B", True], ["S", "x"]]

EMPTY_SENTINEL = "<inspect._empty>"


def dashed(n):
    return n.strip("_").replace("_", "-")


def py_default(d):
    k = d[0]
    if k == "N":
        return "None"
    if k == "O":
        return d[2]
    return repr(d[1])


def pkind(p):
    return p[2] if len(p) > 2 else None


def source(params, ctx=CTX):
    """params: [name, default] or [name, default, kind] with kind 'po' (positional-only; leading),
    'va' (*name) or 'vk' (**name; last).  Raises SyntaxError for an impossible layout."""
    parts = [ctx]
    seen_default = False
    star = False
    in_po = False
    for p in params:
        name, d, kind = p[0], p[1], pkind(p)
        if in_po and kind != "po":
            parts.append("/")
            in_po = False
        if kind == "va":
            parts.append("*" + name)
            star = True
            continue
        if kind == "vk":
            parts.append("**" + name)
            continue
        if kind == "po":
            in_po = True
        if d[0] == "E":
            if seen_default and not star:
                parts.append("*")
                star = True
            parts.append(name)
        else:
            seen_default = True
            parts.append("%s=%s" % (name, py_default(d)))
    if in_po:
        parts.append("/")
    names = [p[0] for p in params]
    return "def f(%s):\n    return dict(%s)\n" % (", ".join(parts), ", ".join("%s=%s" % (n, n) for n in names))


_BODY_CACHE = {}


def body_of(params, ctx=CTX):
    src = source(params, ctx)
    fn = _BODY_CACHE.get(src)
    if fn is None:
        ns = {}
        exec(compile(src, "<c09>", "exec"), ns)
        fn = ns["f"]
        if len(_BODY_CACHE) > 50000:
            _BODY_CACHE.clear()
        _BODY_CACHE[src] = fn
    return fn


def shown(n):
    """the command-line spelling arg_opts gives a parameter name"""
    return dashed(n) if "_" in n else n


def canon_val(v):
    if v is None:
        return ["N"]
    if v is inspect.Signature.empty:
        return ["S", EMPTY_SENTINEL]
    if v is True or v is False:
        return ["B", v]
    if isinstance(v, int):
        return ["I", v]
    if isinstance(v, str):
        return ["S", v]
    if isinstance(v, list):
        return ["L", [str(x) for x in v]]
    return ["S", "<%s %r>" % (type(v).__name__, v)]      # the reserved spelling of Common/SigTypes.v


KIND_NAMES = {str: "KStr", int: "KInt", bool: "KBool", list: "KList"}


def coq_aval(v):
    k = v[0]
    if k == "N":
        return "ANone"
    if k == "S":
        return "(AStr %s)" % ct.s(v[1])
    if k == "I":
        return "(AInt %s)" % ct.z(v[1])
    if k == "B":
        return "(ABool %s)" % ct.b(v[1])
    if k == "L":
        return "(AList %s)" % ct.strs(v[1])
    raise ValueError(v)


def coq_pdefault(d):
    k = d[0]
    if k == "E":
        return "DEmpty"
    if k == "N":
        return "DNone"
    if k == "S":
        return "(DStr %s)" % ct.s(d[1])
    if k == "I":
        return "(DInt %s)" % ct.z(d[1])
    if k == "B":
        return "(DBool %s)" % ct.b(d[1])
    if k == "L":
        return "(DList %s)" % ct.strs(d[1])
    if k == "O":
        return "(DOther %s %s)" % (ct.s(d[1]), ct.s(repr(eval(d[2]))))
    raise ValueError(d)


def mkcase(params, positional=None, optional=(), iterable=(), incrementable=(), auto=True, help=None, ctx=None):
    c = {"params": [list(p) for p in params], "positional": positional,
         "optional": list(optional), "iterable": list(iterable),
         "incrementable": list(incrementable), "auto": auto}
    if help:
        c["help"] = [list(kv) for kv in help]      # the help= dict, in insertion order
    if ctx and ctx != CTX:
        c["ctx"] = ctx                             # name of the context parameter
    return c


def valid_layout(params, ctx=CTX):
    try:
        body_of(params, ctx)
        return True
    except SyntaxError:
        return False


class C09(Prop):
    id = "C09"
    corr_module = "Corr.C09Corr"
    quick_n = 2400
    thorough_n = 12000
    shard_size = 300
    rule = ("real @task-style Task objects built with exec over a name vocabulary (shared prefixes, "
            "underscores, single letters, leading/trailing underscores, no_x forms) x default kinds "
            "(none, None, str, int, bool true/false, list) x decorator options (positional incl. reordered/"
            "foreign/duplicate names, optional, iterable, incrementable, auto_shortflags, help= keyed by the Python or "
            "the command-line spelling incl. unknown and doubled keys) x the name of the context parameter x "
            "parameter kinds (positional-only prefix, *args, **kwargs); random up to 6 "
            "parameters (quick) + exhaustive <=3 parameters over a 10-name vocabulary (thorough); "
            "non-trivial = at least two parameters or a non-default decorator option; distinct by the whole case")
    trusted_base = [
        "Coq 8.16.1 kernel + vm_compute (shard evaluation)",
        "hand-written models coq/Model/SigModel.v, SigCtxModel.v tied to invoke/tasks.py and "
        "invoke/parser/context.py, argument.py by differential execution (this run)",
        "harness/coqterm.py term printer; harness/props/c09.py generator and canonicaliser",
        "CPython 3.12 executing /repo; inspect.signature().bind as the binding oracle",
    ]
    assumptions = [
        "parameter names are ASCII identifiers [a-z0-9_]; defaults are None/str/int/bool/list of str",
        "inspect.Signature.empty as an Argument default is represented by a reserved string",
        "parameters without default that follow defaulted ones are declared keyword-only (Python syntax demands it)",
    ]
    not_modelled = [
        "the ignore_unknown_help escape (off by default)",
        "name=, aliases=, pre/post, default=, autoprint (no influence on the argument list)",
        "callable objects other than plain functions",
        "defaults of other types (float, tuple, custom classes): kind = type(default) is used as a factory",
        "values set by the parser (see C01/C07)",
    ]

    # ------------------------------------------------------------------ cases
    def _random_case(self, rng):
        k = rng.choice([1, 2, 2, 3, 3, 4, 5, 6])
        vocab = VOCAB10 if rng.random() < 0.3 else VOCAB
        # keep the all-underscore names rare so most cases lie outside F-C09b
        names = []
        while len(names) < k:
            n = rng.choice(vocab)
            if n in names:
                continue
            if dashed(n) == "" and rng.random() < 0.85:
                continue
            names.append(n)
        params = [[n, rng.choice(DEFAULTS)] for n in names]
        positional = None
        r = rng.random()
        if r < 0.12:
            positional = rng.sample(names, rng.randint(0, len(names)))
        elif r < 0.18:
            positional = [rng.choice(names + ["zz"]) for _ in range(rng.randint(1, 3))]
        pick = lambda p: [n for n in names if rng.random() < p]
        optional = pick(0.15) if rng.random() < 0.5 else []
        iterable = pick(0.15) if rng.random() < 0.5 else []
        incrementable = pick(0.12) if rng.random() < 0.4 else []
        auto = rng.random() < 0.85
        # help= for a random subset, keyed by the Python or the command-line spelling
        help_ = None
        if rng.random() < 0.3:
            help_ = []
            for i, n in enumerate(names):
                if rng.random() < 0.5:
                    help_.append([n if rng.random() < 0.5 else shown(n), "help %d" % i])
                    if "_" in n and shown(n) != n and rng.random() < 0.06:
                        help_.append([shown(n) if help_[-1][0] == n else n, "twice"])
            if rng.random() < 0.1:
                help_.append([rng.choice(["nosuch", "zz_top", names[0] + "x"]), "unknown"])
            rng.shuffle(help_)
            seen = set()
            help_ = [kv for kv in help_ if not (kv[0] in seen or seen.add(kv[0]))]
        # parameter kinds: positional-only prefix, *args, **kwargs
        if rng.random() < 0.1:
            cand = [list(p) for p in params]
            r2 = rng.random()
            if r2 < 0.4:
                for p in cand[:rng.randint(1, len(cand))]:
                    p.append("po")
            elif r2 < 0.7:
                i = rng.randrange(len(cand))
                cand[i] = [cand[i][0], ["E"], "va"]
            elif r2 < 0.9:
                cand[-1] = [cand[-1][0], ["E"], "vk"]
            else:
                cand = cand + [["args" if "args" not in names else "va_", ["E"], "va"],
                               ["kwargs" if "kwargs" not in names else "vk_", ["E"], "vk"]]
            if valid_layout(cand):
                params = cand
        ctx = CTX
        if rng.random() < 0.3:
            ctx = rng.choice([c for c in CTX_NAMES if c not in [p[0] for p in params]])
        return mkcase(params, positional, optional, iterable, incrementable, auto, help_, ctx)

    def generate(self, rng, tier, n):
        for _ in range(n):
            yield self._random_case(rng)

    def enumerate_small(self, tier):
        names = VOCAB10
        if tier == "quick":
            # second-stage search space: <=2 parameters x 3 kinds, default options
            yield mkcase([])
            for n1 in names:
                for d1 in KINDS3:
                    yield mkcase([[n1, d1]])
            for n1, n2 in itertools.permutations(names, 2):
                for d1, d2 in itertools.product(KINDS3, KINDS3):
                    yield mkcase([[n1, d1], [n2, d2]])
            yield from self._help_and_kinds()
            return
        yield mkcase([])
        yield from self._help_and_kinds()
        # one parameter: all kinds x every single decorator option
        for n1 in names:
            for d1 in DEFAULTS:
                for kw in self._deco_variants([n1]):
                    yield mkcase([[n1, d1]], **kw)
        # two parameters: all ordered name pairs x 7x7 kinds x decorator variants
        for n1, n2 in itertools.permutations(names, 2):
            for d1, d2 in itertools.product(KINDS7, KINDS7):
                for kw in self._deco_variants([n1, n2]):
                    yield mkcase([[n1, d1], [n2, d2]], **kw)
        # three parameters: all ordered name triples x 3^3 kinds x auto on/off
        for tri in itertools.permutations(names, 3):
            for ds in itertools.product(KINDS3, repeat=3):
                ps = [[n, d] for n, d in zip(tri, ds)]
                yield mkcase(ps)
                yield mkcase(ps, auto=False)

    @staticmethod
    def _help_and_kinds():
        """help= under either spelling / unknown / both spellings; every context-parameter name; every
        name of invoke's own call path as a parameter; positional-only, *args, **kwargs"""
        for n in ("a", "a_b", "type_", "_a", "foo_bar"):
            for key in {n, shown(n)}:
                yield mkcase([["name", ["E"]], [n, ["S", "lib"]]], help=[[key, "text"]])
                yield mkcase([[n, ["B", False]], ["b", ["I", 5]]], help=[["b", "B"], [key, "text"]], positional=["b"])
            yield mkcase([[n, ["S", "x"]]], help=[["nosuch", "text"]])
            yield mkcase([[n, ["S", "x"]]], help=[[n, "t"], ["nosuch", "text"]])
            if shown(n) != n:
                yield mkcase([[n, ["S", "x"]]], help=[[n, "one"], [shown(n), "two"]])
        for ctx in CTX_NAMES:
            yield mkcase([["a", ["E"]], ["b", ["I", 1]]], ctx=ctx)
        for n in ("context", "self", "args", "kwargs", "task", "name", "c", "ctx", "body"):
            for d in (["E"], ["S", "x"], ["B", True]):
                yield mkcase([[n, d]])
                yield mkcase([["a", ["E"]], [n, d]], ctx="c" if n != "c" else "ctx")
        yield mkcase([["a", ["E"], "po"], ["b", ["I", 1]]])
        yield mkcase([["a", ["I", 1], "po"], ["b", ["I", 1]]])
        yield mkcase([["a", ["E"], "po"], ["b", ["E"], "po"]])
        yield mkcase([["args", ["E"], "va"]])
        yield mkcase([["a", ["I", 1]], ["rest", ["E"], "va"], ["k", ["E"]]])
        yield mkcase([["kwargs", ["E"], "vk"]])
        yield mkcase([["a", ["I", 1]], ["args", ["E"], "va"], ["kwargs", ["E"], "vk"]])
        yield mkcase([["a", ["I", 1], "po"], ["kw", ["E"], "vk"]])

    @staticmethod
    def _deco_variants(ns):
        yield {}
        yield {"auto": False}
        yield {"positional": list(reversed(ns))}
        yield {"positional": []}
        yield {"optional": [ns[0]]}
        yield {"iterable": [ns[0]]}
        yield {"incrementable": [ns[-1]]}
        yield {"iterable": [ns[-1]], "incrementable": [ns[-1]], "optional": [ns[-1]]}

    # --------------------------------------------------------- implementation
    def run_impl(self, case):
        from invoke.tasks import Task
        from invoke.parser import ParserContext
        from invoke.parser.context import to_flag

        params = [list(p) for p in case["params"]]
        ctxname = case.get("ctx", CTX)
        help_ = dict((k, v) for k, v in case.get("help", []))
        body = body_of(params, ctxname)
        try:
            t = Task(body, positional=case["positional"], optional=tuple(case["optional"]),
                     iterable=list(case["iterable"]), incrementable=list(case["incrementable"]),
                     auto_shortflags=case["auto"], help=dict(help_))
            args = t.get_arguments()
            ctx = ParserContext(name="t", args=args)
        except Exception as e:  # noqa
            return {"err": type(e).__name__}
        # the same task through the public route: @task(...) decorator, Collection, to_contexts()
        from invoke import task as task_deco, Collection, Context
        from invoke.executor import Executor
        try:
            deco_kwargs = dict(optional=tuple(case["optional"]), iterable=list(case["iterable"]),
                               incrementable=list(case["incrementable"]), auto_shortflags=case["auto"])
            if case["positional"] is not None:
                deco_kwargs["positional"] = case["positional"]
            plain = deco_kwargs == dict(optional=(), iterable=[], incrementable=[], auto_shortflags=True) \
                and not help_
            if help_:
                deco_kwargs["help"] = dict(help_)
            t2 = task_deco(body_of(params, ctxname)) if plain else task_deco(**deco_kwargs)(body_of(params, ctxname))
            coll = Collection()
            coll.add_task(t2, name="t")
            ctx2 = coll.to_contexts()[0]
        except Exception as e:  # noqa
            return {"err": "decorator-route:" + type(e).__name__}

        def table(c):
            return ([(a.names, a.kind, a.default, a.positional, a.optional, a.incrementable, a.attr_name, a.help)
                     for a in c.args.values()],
                    sorted((k, v.names[0]) for k, v in dict.items(c.flags)), sorted(c.flags.aliases.items()),
                    sorted(c.inverse_flags.items()), [a.names[0] for a in c.positional_args],
                    list(c.as_kwargs.items()))
        if table(ctx) != table(ctx2) or ctx2.name != "t":
            return {"err": "decorator-route-differs"}
        o = {}
        o["args"] = [{"names": list(a.names), "kind": KIND_NAMES.get(a.kind, "KStr"),
                      "kind_known": a.kind in KIND_NAMES, "kind_name": getattr(a.kind, "__name__", "?"),
                      "takes_value": bool(a.takes_value),
                      "default": canon_val(a.default), "positional": bool(a.positional),
                      "optional": bool(a.optional), "incrementable": bool(a.incrementable),
                      "attr_name": a.attr_name} for a in args]
        o["flags"] = [[k, v.names[0]] for k, v in dict.items(ctx.flags)]
        o["flag_aliases"] = [[k, v] for k, v in ctx.flags.aliases.items()]
        o["inverse"] = [[k, v] for k, v in ctx.inverse_flags.items()]
        o["positional"] = [a.names[0] for a in ctx.positional_args]
        kw = ctx.as_kwargs
        o["kwargs"] = [[k, canon_val(v)] for k, v in kw.items()]
        # help texts: Argument.help, and the same through ParserContext.help_for / help_tuples
        o["help"] = [[a.attr_name or a.name, a.help] for a in args]
        if all(dashed(p[0]) != "" for p in params):
            try:
                shown_help = [ctx.help_for(to_flag(a.name))[1] for a in args]
                if shown_help != [(a.help or "") for a in args] or len(ctx.help_tuples()) != len(args):
                    return {"err": "help-tuples-differ"}
            except Exception as e:  # noqa
                return {"err": "help-tuples:" + type(e).__name__}
        try:
            inspect.signature(body).bind(object(), **kw)
            o["binds"] = True
        except TypeError:
            o["binds"] = False
        # ... and the kwargs really reach the function through Executor.normalize + the Task call:
        # every parameter receives the value meant for it (its own empty default for * / ** parameters)
        calls = o["binds"]
        try:
            call = Executor(coll).normalize([ctx2])[0]
            got = call.task(Context(), *call.args, **call.kwargs)
            want = [(p[0], () if pkind(p) == "va" else {} if pkind(p) == "vk" else kw[p[0]]) for p in params]
            if list(got.items()) != want or call.called_as != "t":
                calls = False
        except TypeError:
            calls = False
        except KeyError:
            calls = False
        o["calls"] = calls
        return {"ok": o}

    def to_coq(self, case, obs):
        ps = ct.lst(["(mkParam %s %s)" % (ct.s(p[0]), coq_pdefault(p[1])) for p in case["params"]])
        pos = ct.opt(None if case["positional"] is None else ct.strs(case["positional"]))
        deco = "(mkDeco %s %s %s %s %s)" % (pos, ct.strs(case["optional"]), ct.strs(case["iterable"]),
                                           ct.strs(case["incrementable"]), ct.b(case["auto"]))

        def ss(pairs):
            return ct.lst([ct.pair(ct.s(k), ct.s(v)) for k, v in pairs])

        def cli(o):
            args = ct.lst(["(mkArg %s %s %s %s %s %s %s)" % (
                ct.strs(a["names"]),
                a["kind"] if a["kind_known"] else "(KOther %s CFailV [])" % ct.s(a["kind_name"]),
                coq_aval(a["default"]),
                ct.b(a["positional"]), ct.b(a["optional"]), ct.b(a["incrementable"]),
                ct.opt(None if a["attr_name"] is None else ct.s(a["attr_name"]))) for a in o["args"]])
            kw = ct.lst([ct.pair(ct.s(k), coq_aval(v)) for k, v in o["kwargs"]])
            return "(mkCli %s %s %s %s %s %s %s %s %s)" % (
                args, ss(o["flags"]), ss(o["flag_aliases"]), ss(o["inverse"]),
                ct.strs(o["positional"]), kw, ct.b(o["binds"]),
                ct.strs([a["kind_name"] for a in o["args"]]),
                ct.lst([ct.b(a["takes_value"]) for a in o["args"]]))
        help_ = ct.lst([ct.pair(ct.s(k), ct.s(v)) for k, v in case.get("help", [])])
        ho = ct.lst([ct.pair(ct.s(k), ct.opt(None if v is None else ct.s(v)))
                     for k, v in (obs["ok"]["help"] if "ok" in obs else [])])
        kn = {None: "PPlain", "po": "PPosOnly", "va": "PVarPos", "vk": "PVarKw"}
        kinds = [kn[pkind(p)] for p in case["params"]]
        kinds = ct.lst(kinds if any(k != "PPlain" for k in kinds) else [])
        calls = ct.b(obs["ok"]["calls"] if "ok" in obs else True)
        return "(mk (mkSig %s %s) %s %s %s %s %s)" % (ps, deco, ct.result(obs, cli), help_, ho, kinds, calls)

    # ------------------------------------------------------------- reporting
    def nontrivial(self, case, obs):
        return len(case["params"]) >= 2 or case["positional"] is not None or bool(
            case["optional"] or case["iterable"] or case["incrementable"] or case.get("help")) or \
            not case["auto"] or any(len(p) > 2 for p in case["params"])

    def classify(self, case, obs):
        n = len(case["params"])
        if "err" in obs:
            return "params=%d:err:%s%s" % (n, obs["err"], ":help" if case.get("help") else "")
        shorts = sum(1 for a in obs["ok"]["args"] if len(a["names"]) > 1)
        extra = ""
        if case.get("help"):
            extra += ":help=%d" % sum(1 for _, h in obs["ok"]["help"] if h is not None)
        ks = sorted({pkind(p) for p in case["params"]} - {None})
        if ks:
            extra += ":kinds=" + "+".join(ks)
        if case.get("ctx"):
            extra += ":ctx=" + case["ctx"]
        return "params=%d:shorts=%d:inv=%d%s" % (n, min(shorts, 3), min(len(obs["ok"]["inverse"]), 2), extra)

    def finding_of(self, case, obs):
        names = [p[0] for p in case["params"]]
        ds = [dashed(n) for n in names]
        clash = len(set(ds)) < len(ds)
        if "err" in obs:
            return None          # F-C09c (refused although dashed names distinct) is fixed: d208a4d
        if clash:
            return None
        if any(d == "" for d in ds):
            return "F-C09b"
        for p in case["params"]:
            if p[1] == ["B", True] and p[0] not in case["optional"] and ("no-" + dashed(p[0])) in ds:
                return "F-C09d"
        o = obs["ok"]
        if not (o["binds"] and o["calls"]):
            kinds = [pkind(p) for p in case["params"]]
            if "po" in kinds:
                return "F-C09f"
            if "va" in kinds or "vk" in kinds:
                return "F-C09g"
            if "self" in names:
                return "F-C09e"
        return None

    def shrink_candidates(self, case):
        ps = case["params"]
        names = [p[0] for p in ps]
        if case.get("ctx"):
            c = dict(case)
            del c["ctx"]
            if valid_layout(c["params"]) and CTX not in names:
                yield c
        if case.get("help"):
            c = dict(case)
            del c["help"]
            yield c
            for i in range(len(case["help"])):
                yield dict(case, help=case["help"][:i] + case["help"][i + 1:])
        if any(len(p) > 2 for p in ps):
            c = dict(case, params=[p[:2] for p in ps])
            if valid_layout(c["params"], case.get("ctx", CTX)):
                yield c
        yield from (c for c in self._shrink_basic(case) if valid_layout(c["params"], c.get("ctx", CTX)))

    def _shrink_basic(self, case):
        ps = case["params"]
        names = [p[0] for p in ps]
        for i in range(len(ps)):
            gone = ps[i][0]
            c = dict(case, params=ps[:i] + ps[i + 1:])
            if case.get("help"):
                c["help"] = [kv for kv in case["help"] if kv[0] not in (gone, shown(gone))]
                if not c["help"]:
                    del c["help"]
            for k in ("optional", "iterable", "incrementable"):
                c[k] = [x for x in case[k] if x != gone]
            if case["positional"] is not None:
                c["positional"] = [x for x in case["positional"] if x != gone]
            yield c
        if case["positional"] is not None:
            yield dict(case, positional=None)
        for k in ("optional", "iterable", "incrementable"):
            if case[k]:
                yield dict(case, **{k: []})
                for x in case[k]:
                    yield dict(case, **{k: [y for y in case[k] if y != x]})
        if not case["auto"]:
            yield dict(case, auto=True)
        for i, p in enumerate(ps):
            n, d, rest = p[0], p[1], p[2:]
            for d2 in (["E"], ["N"], ["B", False]):
                if d != d2 and d[0] not in ("E",) and len(d2) <= len(d):
                    yield dict(case, params=ps[:i] + [[n, d2] + rest] + ps[i + 1:])
            for n2 in ("a", "b", "ab"):
                if n2 not in names and len(n2) < len(n) and n2 != case.get("ctx"):
                    c = dict(case, params=ps[:i] + [[n2, d] + rest] + ps[i + 1:])
                    if case.get("help"):
                        c["help"] = [[n2 if k in (n, shown(n)) else k, v] for k, v in case["help"]]
                    for k in ("optional", "iterable", "incrementable"):
                        c[k] = [n2 if x == n else x for x in case[k]]
                    if case["positional"] is not None:
                        c["positional"] = [n2 if x == n else x for x in case["positional"]]
                    yield c

    def mutate(self, case, rng):
        ps = case["params"]
        for _ in range(40):
            c = dict(case)
            r = rng.random()
            if r < 0.35 and ps:
                i = rng.randrange(len(ps))
                c["params"] = ps[:i] + [[ps[i][0], rng.choice(DEFAULTS)] + ps[i][2:]] + ps[i + 1:]
            elif r < 0.6:
                n = rng.choice(VOCAB)
                if n not in [x[0] for x in ps] and n != case.get("ctx"):
                    i = rng.randint(0, len(ps))
                    c["params"] = ps[:i] + [[n, rng.choice(DEFAULTS)]] + ps[i:]
            elif r < 0.7:
                c["auto"] = not case["auto"]
            elif r < 0.8 and ps:
                c["positional"] = rng.sample([x[0] for x in ps], rng.randint(0, len(ps)))
            elif ps:
                k = rng.choice(["optional", "iterable", "incrementable"])
                c[k] = [rng.choice(ps)[0]]
            if valid_layout(c["params"], c.get("ctx", CTX)):
                yield c


PROP = C09()
