"""C09: a task signature maps to a well-formed CLI whose parsed values always bind."""
import inspect
import itertools

from .. import coqterm as ct
from ..core import Prop

CTX = "zctx"  # name of the context parameter; never in the vocabularies

# shared prefixes, underscores, single letters, leading/trailing underscores
VOCAB10 = ["a", "b", "ab", "abc", "a_b", "ab_c", "_a", "b_", "no_a", "_"]
VOCAB = VOCAB10 + ["foo", "foo_bar", "f", "bar", "no_foo", "a_b_c", "a__b", "x1", "__x__", "foo_",
                   "o", "n", "no", "ba", "__",
                   # case matters: identifiers and short flags are case-sensitive
                   "Verbose", "v", "V", "Ab", "aB", "A", "B", "Foo", "F", "No_a"]

DEFAULTS = [["E"], ["N"], ["S", "x"], ["S", ""], ["I", 0], ["I", 5], ["B", True], ["B", False],
            ["L", []], ["L", ["p", "q"]],
            # defaults of other types: [O, type name, source text]
            ["O", "float", "1.5"], ["O", "tuple", "(1, 2)"], ["O", "float", "0.0"]]
OTHER = {"float": float, "tuple": tuple}
KINDS7 = [["E"], ["N"], ["S", "x"], ["I", 5], ["B", True], ["B", False], ["L", []], ["O", "float", "1.5"]]
KINDS3 = [["E"], ["B", True], ["S", "x"]]

EMPTY_SENTINEL = "<inspect._empty>"


def dashed(n):
    return n.strip("_").replace("_", "-")


def py_default(d):
    k = d[0]
    if k == "N":
        return "None"
    if k == "O":
        return d[2]
    return repr(d[1])


def source(params):
    parts = [CTX]
    seen_default = False
    star = False
    for name, d in params:
        if d[0] == "E":
            if seen_default and not star:
                parts.append("*")
                star = True
            parts.append(name)
        else:
            seen_default = True
            parts.append("%s=%s" % (name, py_default(d)))
    names = [n for n, _ in params]
    return "def f(%s):\n    return dict(%s)\n" % (", ".join(parts), ", ".join("%s=%s" % (n, n) for n in names))


_BODY_CACHE = {}


def body_of(params):
    src = source(params)
    fn = _BODY_CACHE.get(src)
    if fn is None:
        ns = {}
        exec(compile(src, "<c09>", "exec"), ns)
        fn = ns["f"]
        if len(_BODY_CACHE) > 50000:
            _BODY_CACHE.clear()
        _BODY_CACHE[src] = fn
    return fn


def canon_val(v):
    if v is None:
        return ["N"]
    if v is inspect.Signature.empty:
        return ["S", EMPTY_SENTINEL]
    if v is True or v is False:
        return ["B", v]
    if isinstance(v, int):
        return ["I", v]
    if isinstance(v, str):
        return ["S", v]
    if isinstance(v, list):
        return ["L", [str(x) for x in v]]
    return ["S", "<%s %r>" % (type(v).__name__, v)]      # the reserved spelling of Common/SigTypes.v


KIND_NAMES = {str: "KStr", int: "KInt", bool: "KBool", list: "KList"}


def coq_aval(v):
    k = v[0]
    if k == "N":
        return "ANone"
    if k == "S":
        return "(AStr %s)" % ct.s(v[1])
    if k == "I":
        return "(AInt %s)" % ct.z(v[1])
    if k == "B":
        return "(ABool %s)" % ct.b(v[1])
    if k == "L":
        return "(AList %s)" % ct.strs(v[1])
    raise ValueError(v)


def coq_pdefault(d):
    k = d[0]
    if k == "E":
        return "DEmpty"
    if k == "N":
        return "DNone"
    if k == "S":
        return "(DStr %s)" % ct.s(d[1])
    if k == "I":
        return "(DInt %s)" % ct.z(d[1])
    if k == "B":
        return "(DBool %s)" % ct.b(d[1])
    if k == "L":
        return "(DList %s)" % ct.strs(d[1])
    if k == "O":
        return "(DOther %s %s)" % (ct.s(d[1]), ct.s(repr(eval(d[2]))))
    raise ValueError(d)


def mkcase(params, positional=None, optional=(), iterable=(), incrementable=(), auto=True):
    return {"params": [[n, d] for n, d in params], "positional": positional,
            "optional": list(optional), "iterable": list(iterable),
            "incrementable": list(incrementable), "auto": auto}


class C09(Prop):
    id = "C09"
    corr_module = "Corr.C09Corr"
    quick_n = 2400
    thorough_n = 12000
    shard_size = 300
    rule = ("real @task-style Task objects built with exec over a name vocabulary (shared prefixes, "
            "underscores, single letters, leading/trailing underscores, no_x forms) x default kinds "
            "(none, None, str, int, bool true/false, list) x decorator options (positional incl. reordered/"
            "foreign/duplicate names, optional, iterable, incrementable, auto_shortflags); random up to 6 "
            "parameters (quick) + exhaustive <=3 parameters over a 10-name vocabulary (thorough); "
            "non-trivial = at least two parameters or a non-default decorator option; distinct by the whole case")
    trusted_base = [
        "Coq 8.16.1 kernel + vm_compute (shard evaluation)",
        "hand-written models coq/Model/SigModel.v, SigCtxModel.v tied to invoke/tasks.py and "
        "invoke/parser/context.py, argument.py by differential execution (this run)",
        "harness/coqterm.py term printer; harness/props/c09.py generator and canonicaliser",
        "CPython 3.12 executing /repo; inspect.signature().bind as the binding oracle",
    ]
    assumptions = [
        "parameter names are ASCII identifiers [a-z0-9_]; defaults are None/str/int/bool/list of str",
        "inspect.Signature.empty as an Argument default is represented by a reserved string",
        "parameters without default that follow defaulted ones are declared keyword-only (Python syntax demands it)",
    ]
    not_modelled = [
        "help= texts and the unknown-help ValueError",
        "name=, aliases=, pre/post, default=, autoprint (no influence on the argument list)",
        "callable objects other than plain functions; *args/**kwargs parameters",
        "defaults of other types (float, tuple, custom classes): kind = type(default) is used as a factory",
        "values set by the parser (see C01/C07)",
    ]

    # ------------------------------------------------------------------ cases
    def _random_case(self, rng):
        k = rng.choice([1, 2, 2, 3, 3, 4, 5, 6])
        vocab = VOCAB10 if rng.random() < 0.3 else VOCAB
        # keep the all-underscore names rare so most cases lie outside F-C09b
        names = []
        while len(names) < k:
            n = rng.choice(vocab)
            if n in names:
                continue
            if dashed(n) == "" and rng.random() < 0.85:
                continue
            names.append(n)
        params = [[n, rng.choice(DEFAULTS)] for n in names]
        positional = None
        r = rng.random()
        if r < 0.12:
            positional = rng.sample(names, rng.randint(0, len(names)))
        elif r < 0.18:
            positional = [rng.choice(names + ["zz"]) for _ in range(rng.randint(1, 3))]
        pick = lambda p: [n for n in names if rng.random() < p]
        optional = pick(0.15) if rng.random() < 0.5 else []
        iterable = pick(0.15) if rng.random() < 0.5 else []
        incrementable = pick(0.12) if rng.random() < 0.4 else []
        auto = rng.random() < 0.85
        return mkcase(params, positional, optional, iterable, incrementable, auto)

    def generate(self, rng, tier, n):
        for _ in range(n):
            yield self._random_case(rng)

    def enumerate_small(self, tier):
        names = VOCAB10
        if tier == "quick":
            # second-stage search space: <=2 parameters x 3 kinds, default options
            yield mkcase([])
            for n1 in names:
                for d1 in KINDS3:
                    yield mkcase([[n1, d1]])
            for n1, n2 in itertools.permutations(names, 2):
                for d1, d2 in itertools.product(KINDS3, KINDS3):
                    yield mkcase([[n1, d1], [n2, d2]])
            return
        yield mkcase([])
        # one parameter: all kinds x every single decorator option
        for n1 in names:
            for d1 in DEFAULTS:
                for kw in self._deco_variants([n1]):
                    yield mkcase([[n1, d1]], **kw)
        # two parameters: all ordered name pairs x 7x7 kinds x decorator variants
        for n1, n2 in itertools.permutations(names, 2):
            for d1, d2 in itertools.product(KINDS7, KINDS7):
                for kw in self._deco_variants([n1, n2]):
                    yield mkcase([[n1, d1], [n2, d2]], **kw)
        # three parameters: all ordered name triples x 3^3 kinds x auto on/off
        for tri in itertools.permutations(names, 3):
            for ds in itertools.product(KINDS3, repeat=3):
                ps = [[n, d] for n, d in zip(tri, ds)]
                yield mkcase(ps)
                yield mkcase(ps, auto=False)

    @staticmethod
    def _deco_variants(ns):
        yield {}
        yield {"auto": False}
        yield {"positional": list(reversed(ns))}
        yield {"positional": []}
        yield {"optional": [ns[0]]}
        yield {"iterable": [ns[0]]}
        yield {"incrementable": [ns[-1]]}
        yield {"iterable": [ns[-1]], "incrementable": [ns[-1]], "optional": [ns[-1]]}

    # --------------------------------------------------------- implementation
    def run_impl(self, case):
        from invoke.tasks import Task
        from invoke.parser import ParserContext

        params = [(n, d) for n, d in case["params"]]
        body = body_of(params)
        try:
            t = Task(body, positional=case["positional"], optional=tuple(case["optional"]),
                     iterable=list(case["iterable"]), incrementable=list(case["incrementable"]),
                     auto_shortflags=case["auto"])
            args = t.get_arguments()
            ctx = ParserContext(name="t", args=args)
        except Exception as e:  # noqa
            return {"err": type(e).__name__}
        # the same task through the public route: @task(...) decorator, Collection, to_contexts()
        from invoke import task as task_deco, Collection, Context
        from invoke.executor import Executor
        try:
            deco_kwargs = dict(optional=tuple(case["optional"]), iterable=list(case["iterable"]),
                               incrementable=list(case["incrementable"]), auto_shortflags=case["auto"])
            if case["positional"] is not None:
                deco_kwargs["positional"] = case["positional"]
            t2 = task_deco(**deco_kwargs)(body_of(params)) if (deco_kwargs != dict(
                optional=(), iterable=[], incrementable=[], auto_shortflags=True)) else task_deco(body_of(params))
            coll = Collection()
            coll.add_task(t2, name="t")
            ctx2 = coll.to_contexts()[0]
        except Exception as e:  # noqa
            return {"err": "decorator-route:" + type(e).__name__}

        def table(c):
            return ([(a.names, a.kind, a.default, a.positional, a.optional, a.incrementable, a.attr_name)
                     for a in c.args.values()],
                    sorted((k, v.names[0]) for k, v in dict.items(c.flags)), sorted(c.flags.aliases.items()),
                    sorted(c.inverse_flags.items()), [a.names[0] for a in c.positional_args],
                    list(c.as_kwargs.items()))
        if table(ctx) != table(ctx2) or ctx2.name != "t":
            return {"err": "decorator-route-differs"}
        o = {}
        o["args"] = [{"names": list(a.names), "kind": KIND_NAMES.get(a.kind, "KStr"),
                      "kind_known": a.kind in KIND_NAMES, "kind_name": getattr(a.kind, "__name__", "?"),
                      "takes_value": bool(a.takes_value),
                      "default": canon_val(a.default), "positional": bool(a.positional),
                      "optional": bool(a.optional), "incrementable": bool(a.incrementable),
                      "attr_name": a.attr_name} for a in args]
        o["flags"] = [[k, v.names[0]] for k, v in dict.items(ctx.flags)]
        o["flag_aliases"] = [[k, v] for k, v in ctx.flags.aliases.items()]
        o["inverse"] = [[k, v] for k, v in ctx.inverse_flags.items()]
        o["positional"] = [a.names[0] for a in ctx.positional_args]
        kw = ctx.as_kwargs
        o["kwargs"] = [[k, canon_val(v)] for k, v in kw.items()]
        try:
            inspect.signature(body).bind(object(), **kw)
            o["binds"] = True
        except TypeError:
            o["binds"] = False
        # ... and the kwargs really reach the function through Executor.normalize + the Task call
        try:
            call = Executor(coll).normalize([ctx2])[0]
            got = call.task(Context(), *call.args, **call.kwargs)
            if list(got.items()) != [(n, kw[n]) for n, _ in params] or call.called_as != "t":
                o["binds"] = False
        except TypeError:
            o["binds"] = False
        return {"ok": o}

    def to_coq(self, case, obs):
        ps = ct.lst(["(mkParam %s %s)" % (ct.s(n), coq_pdefault(d)) for n, d in case["params"]])
        pos = ct.opt(None if case["positional"] is None else ct.strs(case["positional"]))
        deco = "(mkDeco %s %s %s %s %s)" % (pos, ct.strs(case["optional"]), ct.strs(case["iterable"]),
                                           ct.strs(case["incrementable"]), ct.b(case["auto"]))

        def ss(pairs):
            return ct.lst([ct.pair(ct.s(k), ct.s(v)) for k, v in pairs])

        def cli(o):
            args = ct.lst(["(mkArg %s %s %s %s %s %s %s)" % (
                ct.strs(a["names"]), a["kind"] if a["kind_known"] else "KStr", coq_aval(a["default"]),
                ct.b(a["positional"]), ct.b(a["optional"]), ct.b(a["incrementable"]),
                ct.opt(None if a["attr_name"] is None else ct.s(a["attr_name"]))) for a in o["args"]])
            kw = ct.lst([ct.pair(ct.s(k), coq_aval(v)) for k, v in o["kwargs"]])
            return "(mkCli %s %s %s %s %s %s %s %s %s)" % (
                args, ss(o["flags"]), ss(o["flag_aliases"]), ss(o["inverse"]),
                ct.strs(o["positional"]), kw, ct.b(o["binds"]),
                ct.strs([a["kind_name"] for a in o["args"]]),
                ct.lst([ct.b(a["takes_value"]) for a in o["args"]]))
        return "(mk (mkSig %s %s) %s)" % (ps, deco, ct.result(obs, cli))

    # ------------------------------------------------------------- reporting
    def nontrivial(self, case, obs):
        return len(case["params"]) >= 2 or case["positional"] is not None or bool(
            case["optional"] or case["iterable"] or case["incrementable"]) or not case["auto"]

    def classify(self, case, obs):
        n = len(case["params"])
        if "err" in obs:
            return "params=%d:err:%s" % (n, obs["err"])
        shorts = sum(1 for a in obs["ok"]["args"] if len(a["names"]) > 1)
        return "params=%d:shorts=%d:inv=%d" % (n, min(shorts, 3), min(len(obs["ok"]["inverse"]), 2))

    def finding_of(self, case, obs):
        names = [n for n, _ in case["params"]]
        ds = [dashed(n) for n in names]
        clash = len(set(ds)) < len(ds)
        if "err" in obs:
            return None          # F-C09c (refused although dashed names distinct) is fixed: d208a4d
        if clash:
            return None
        if any(d == "" for d in ds):
            return "F-C09b"
        for (p, d) in case["params"]:
            if d == ["B", True] and p not in case["optional"] and ("no-" + dashed(p)) in ds:
                return "F-C09d"
        return None

    def shrink_candidates(self, case):
        ps = case["params"]
        names = [n for n, _ in ps]
        for i in range(len(ps)):
            gone = ps[i][0]
            c = dict(case, params=ps[:i] + ps[i + 1:])
            for k in ("optional", "iterable", "incrementable"):
                c[k] = [x for x in case[k] if x != gone]
            if case["positional"] is not None:
                c["positional"] = [x for x in case["positional"] if x != gone]
            yield c
        if case["positional"] is not None:
            yield dict(case, positional=None)
        for k in ("optional", "iterable", "incrementable"):
            if case[k]:
                yield dict(case, **{k: []})
                for x in case[k]:
                    yield dict(case, **{k: [y for y in case[k] if y != x]})
        if not case["auto"]:
            yield dict(case, auto=True)
        for i, (n, d) in enumerate(ps):
            for d2 in (["E"], ["N"], ["B", False]):
                if d != d2 and d[0] not in ("E",) and len(d2) <= len(d):
                    yield dict(case, params=ps[:i] + [[n, d2]] + ps[i + 1:])
            for n2 in ("a", "b", "ab"):
                if n2 not in names and len(n2) < len(n):
                    c = dict(case, params=ps[:i] + [[n2, d]] + ps[i + 1:])
                    for k in ("optional", "iterable", "incrementable"):
                        c[k] = [n2 if x == n else x for x in case[k]]
                    if case["positional"] is not None:
                        c["positional"] = [n2 if x == n else x for x in case["positional"]]
                    yield c

    def mutate(self, case, rng):
        ps = case["params"]
        for _ in range(40):
            c = dict(case)
            r = rng.random()
            if r < 0.35 and ps:
                i = rng.randrange(len(ps))
                c["params"] = ps[:i] + [[ps[i][0], rng.choice(DEFAULTS)]] + ps[i + 1:]
            elif r < 0.6:
                n = rng.choice(VOCAB)
                if n not in [x for x, _ in ps]:
                    i = rng.randint(0, len(ps))
                    c["params"] = ps[:i] + [[n, rng.choice(DEFAULTS)]] + ps[i:]
            elif r < 0.7:
                c["auto"] = not case["auto"]
            elif r < 0.8 and ps:
                c["positional"] = rng.sample([n for n, _ in ps], rng.randint(0, len(ps)))
            elif ps:
                k = rng.choice(["optional", "iterable", "incrementable"])
                c[k] = [rng.choice(ps)[0]]
            yield c


PROP = C09()
