"""C18: core options mean the same anywhere; task tokens and the remainder stay intact."""
import random

from .. import coqterm as ct
from .. import parser_common as pc
from ..core import Prop


def run_program(sigs, argv):
    """Program.parse_core_args + Program.parse_tasks on a real Collection."""
    def go():
        from invoke import Program
        try:
            coll = pc.build_collection(sigs)
            p = Program()
            p.create_config()
            p.argv = ["inv"] + list(argv)
            p.parse_core_args()
            p.collection = coll
            p.parse_tasks()
        except pc._Timeout:
            raise
        except BaseException as e:  # noqa
            return {"err": type(e).__name__}
        return {"ok": {
            "core": [[k, pc.canon_val(a.value)] for k, a in p.args.items()],
            "unparsed": list(p.core.unparsed),
            "remainder": p.core.remainder,
            "tasks": [[c.name, [[k, pc.canon_val(v)] for k, v in c.as_kwargs.items()]] for c in p.tasks],
        }}
    return pc.with_timeout(go)


def gobs(o):
    tasks = ct.lst([ct.pair(ct.opt(None if n is None else ct.s(n)), pc.kwargs(kw)) for n, kw in o["tasks"]])
    return "(mkGObs %s %s %s %s)" % (pc.kwargs(o["core"]), ct.strs(o["unparsed"]), ct.s(o["remainder"]), tasks)


def flat(groups):
    return [t for g in groups for t in g]


def placed_argv(case):
    g, j = case["groups"], case["j"]
    argv = flat(g[:j]) + list(case["opt"]) + flat(g[j:])
    if case.get("rem") is not None:
        argv += ["--"] + list(case["rem"])
    return argv


def gen_one_option(rng, core_spec, allow_bare_optional=True):
    """(tokens, flag spellings used, form) for one core option occurrence"""
    args = list(core_spec["args"])
    a = rng.choice(args)
    is_help = (a["attr_name"] or a["names"][0]) == "help"
    k = rng.randrange(len(a["names"]))
    fl = pc.to_flag_py(a["names"][k])
    if not pc.takes_value(a):
        shorts = [b for b in args if not pc.takes_value(b) and pc.short_index(b) is not None]
        if rng.random() < 0.25 and len(shorts) >= 2:
            x, y = rng.sample(shorts, 2)
            fx = pc.to_flag_py(x["names"][pc.short_index(x)])
            fy = pc.to_flag_py(y["names"][pc.short_index(y)])
            return ["-" + fx[1] + fy[1]], [fx, fy], "cluster"
        return [fl], [fl], "bare"
    if a["optional"] and (is_help or (allow_bare_optional and rng.random() < 0.5)):
        # --help / -h / --list / -l without a value
        if not allow_bare_optional:
            return gen_one_option(rng, core_spec, allow_bare_optional)
        return [fl], [fl], "bareopt"
    if a["kind"] == "KInt":
        v = rng.choice(["5", "7", "12", "0"])
    else:
        v = rng.choice(["cv", "ns1", "a b", "x.yml", "", "my_app", "{0}"])
    forms = ["next", "eq"]
    sk = pc.short_index(a)
    if sk is not None:
        forms += ["glued", "shorteq"]
    f = rng.choice(forms)
    if f == "next":
        return [fl, v], [fl], f
    if f == "eq":
        return [fl + "=" + v], [fl], f
    sfl = pc.to_flag_py(a["names"][sk])
    if f == "glued" and v != "":
        return [sfl + v], [sfl], f
    return [sfl + "=" + v], [sfl], "eq"


def gen_core_option(rng, core_spec):
    """one core option, or (15%) two different ones moved together"""
    if rng.random() < 0.15:
        t1, f1, m1 = gen_one_option(rng, core_spec, allow_bare_optional=False)
        t2, f2, m2 = gen_one_option(rng, core_spec, allow_bare_optional=False)
        if not set(f1) & set(f2) and "glued" not in (m1, m2):
            return t1 + t2, f1 + f2, "two"
    return gen_one_option(rng, core_spec)


def starts_of(case, specs):
    """indices of the groups that are task names (recorded by the generator; older cases:
    every single-token group naming a task)"""
    if "starts" in case:
        return list(case["starts"])
    names = set()
    for c in specs:
        names.add(c["name"])
        names.update(c["aliases"])
    return [i for i, g in enumerate(case["groups"]) if len(g) == 1 and g[0] in names]


def group_starts(inv):
    out, i = [], 0
    for call in inv:
        out.append(i)
        i += 1 + len(call["occs"])
    return out


def active_spec(specs, groups, j, starts=None):
    cur = None
    start = 0
    for i, g in enumerate(groups[:j]):
        if starts is not None and i not in starts:
            continue
        if len(g) == 1:
            for c in specs:
                if g[0] == c["name"] or g[0] in c["aliases"]:
                    cur, start = c, i + 1
    return cur, start


def missing_positional_at(specs, groups, j, starts=None):
    c, start = active_spec(specs, groups, j, starts)
    if c is None:
        return False
    req = pc.required_positionals(c)
    given = set()
    for g in groups[start:j]:
        head = g[0]
        if not head.startswith("-"):
            for i in req:
                if i not in given:
                    given.add(i)
                    break
            continue
        key = head.partition("=")[0]
        a = pc.arg_of_flag(c, key) or pc.arg_of_flag(c, head[:2])
        if a is not None and (len(g) > 1 or "=" in head or len(head) > 2):
            given.add(c["args"].index(a))
    return any(i not in given for i in req)


# ----------------------------------------------------------------------
# the "--" family: "<core options...> <token that may still want a value> -- <remainder>"
# ----------------------------------------------------------------------
DD_FORMS = ("dd-core", "dd-core-val", "dd-task", "dd-req", "dd-first", "dd-multi")
REM_WORDS = ["foo", "echo", "hi", "--bar", "-x", "a b", "", "--list", "-l", "--help", "-h", "-e", "--echo",
             "--hide=out", "-T5", "--list-format=nested", "-F", "json", "-c", "--", "git", "checkout", "file"]


def optional_core_flags(core_spec):
    """every spelling of the optional-value core options (--list/-l, --help/-h)"""
    return [pc.to_flag_py(n) for a in core_spec["args"] if a["optional"] and pc.takes_value(a) for n in a["names"]]


def short_bool_letters(spec):
    return [pc.to_flag_py(a["names"][pc.short_index(a)])[1] for a in spec["args"]
            if not pc.takes_value(a) and not a["incrementable"] and pc.short_index(a) is not None]


def bare_optional_spelling(rng, core_spec):
    """--list | -l | --help | -h | a short-flag cluster ending in -l / -h (-wl, -eh, -wel)"""
    fl = rng.choice(optional_core_flags(core_spec))
    if not fl.startswith("--") and rng.random() < 0.45:
        letters = rng.sample(short_bool_letters(core_spec), rng.choice([1, 1, 2]))
        return "-" + "".join(letters) + fl[1]
    return fl


def task_words(specs):
    out = []
    for c in specs:
        out.append(c["name"])
        out.extend(c["aliases"])
    return out


def gen_rem(rng, specs):
    """remainder tokens: nothing, words, things that look like task names / whole task
    invocations / core flags (--list included) / further '--'"""
    r = rng.random()
    words = task_words(specs)
    if r < 0.08:
        return []
    if r < 0.38 and specs:
        # a complete, well-formed task invocation: would run if it leaked into task parsing
        return flat(pc.spell_groups(specs, pc.gen_invocation(rng, specs, max_calls=2)))
    if r < 0.58 and words:
        return [rng.choice(words)] + [rng.choice(REM_WORDS + words) for _ in range(rng.randint(0, 2))]
    return [rng.choice(REM_WORDS + words) for _ in range(rng.randint(1, 4))]


def core_prefix_options(rng, core_spec, n):
    """n core options in front (any spelling), none of them an optional-value option"""
    out = []
    used = set()
    for _ in range(n):
        for _ in range(8):
            toks, flags, form = gen_one_option(rng, core_spec, allow_bare_optional=False)
            a = pc.arg_of_flag(core_spec, flags[0])
            if a is None or a["optional"] or set(flags) & used:
                continue
            used.update(flags)
            out += toks
            break
    return out


def trailing_task_flag(rng, c, core_spec, want):
    """a last token for a call of task c: want = 'bare' (an optional-value flag without value:
    the task's own if it has one, else/also the core's --list/-l/--help/-h) or 'req' (a flag
    that requires a value)"""
    if want == "bare":
        own = [pc.to_flag_py(n) for a in c["args"] if a["optional"] and pc.takes_value(a)
               and a["kind"] != "KList" for n in a["names"]]
        if own and rng.random() < 0.7:
            fl = rng.choice(own)
            letters = short_bool_letters(c)
            if not fl.startswith("--") and letters and rng.random() < 0.3:
                return "-" + rng.choice(letters) + fl[1]
            return fl
        return bare_optional_spelling(rng, core_spec)
    own = [pc.to_flag_py(n) for a in c["args"] if pc.takes_value(a) and not a["optional"] for n in a["names"]]
    if own and rng.random() < 0.7:
        return rng.choice(own)
    return rng.choice(["--hide", "-f", "--config", "-T", "--command-timeout", "-c", "-D", "--list-format", "-F"])


def gen_ddash(rng, sigs, specs, core_spec):
    """one case of the '--' family.  Encoded like a free-form line (every body token its own
    group, no moved option) with the remainder in [rem]: the clauses judged are S1 (remainder
    verbatim), S2 (unparsed intact) and S4 (the line parses exactly like the line without
    '-- rem')."""
    r = rng.random()
    prefix = core_prefix_options(rng, core_spec, rng.choice([0, 0, 1, 1, 2]))
    if r < 0.40:
        form, body = "dd-core", prefix + [bare_optional_spelling(rng, core_spec)]
    elif r < 0.48:
        fl = rng.choice(optional_core_flags(core_spec))
        v = rng.choice(["cv", "ns1"] + task_words(specs))
        form, body = "dd-core-val", prefix + rng.choice([[fl, v], [fl + "=" + v]])
    elif r < 0.70:
        inv = pc.gen_invocation(rng, specs, max_calls=2)
        c = specs[inv[-1]["task"]]
        form = "dd-task"
        body = prefix + flat(pc.spell_groups(specs, inv)) + [trailing_task_flag(rng, c, core_spec, "bare")]
    elif r < 0.82:
        form = "dd-req"
        if rng.random() < 0.5:
            inv = pc.gen_invocation(rng, specs, max_calls=1)
            c = specs[inv[-1]["task"]]
            body = prefix + flat(pc.spell_groups(specs, inv)) + [trailing_task_flag(rng, c, core_spec, "req")]
        else:
            vals = [a for a in core_spec["args"] if pc.takes_value(a) and not a["optional"]]
            a = rng.choice(vals)
            body = prefix + [pc.to_flag_py(rng.choice(a["names"]))]
    elif r < 0.90:
        form, body = "dd-first", []
    else:
        form = "dd-multi"
        body = prefix + rng.choice([[bare_optional_spelling(rng, core_spec)], [], [rng.choice(task_words(specs))]])
    rem = gen_rem(rng, specs)
    if form == "dd-multi":
        k = rng.choice([1, 1, 2])
        for _ in range(k):
            rem.insert(rng.randint(0, len(rem)), "--")
        if rng.random() < 0.4:
            rem = ["--"] + rem
    return {"sigs": sigs, "groups": [[t] for t in body], "opt": [], "j": 0, "flags": [], "rem": rem, "form": form}


def norem_argv(case):
    g, j = case["groups"], case["j"]
    return flat(g[:j]) + list(case["opt"]) + flat(g[j:])


class C18(Prop):
    id = "C18"
    corr_module = "Corr.C18Corr"
    quick_n = 2600
    thorough_n = 25000
    shard_size = 60
    rule = ("metamorphic triples over the real Program two-pass parse: a well-formed task invocation "
            "(1-3 calls, every documented spelling of the tasks' own arguments, as groups) + one core "
            "option (every core argument except --help; long/short, '=', spaced, glued short value, "
            "cluster of two short booleans) inserted at every group boundary; optional '--' remainder; "
            "signatures with and without parameters shadowing core flags; plus 25% free-form command "
            "lines (alphabet/mutation/fuzz as C07) for unparsed/remainder; plus 22% the '--' family: "
            "[0-2 core options] + a last body token + '--' + remainder, where the last token is a bare "
            "optional-value core flag in every spelling (--list -l --help -h, last letter of a short cluster "
            "-wl -eh -wel) before the first task (dd-core), the same with its value given (dd-core-val), a "
            "bare optional-value task or core flag ending a task's argument list (dd-task), a flag that "
            "requires a value, core or task (dd-req: the documented error), nothing at all ('--' first, "
            "dd-first), or several '--' (dd-multi); remainders are empty, words, task names, complete "
            "well-formed task invocations, core flags incl. --list/-l/--help, further '--'; every case with a "
            "remainder is also run WITHOUT it (norem) and must parse identically (S4). non-trivial = option placed "
            "inside a task's argument list (j>=1) or a remainder present; distinct by (signatures, argv triple)")
    trusted_base = [
        "Coq 8.16.1 kernel + vm_compute",
        "hand-written models coq/Model/{ArgModel,CtxModel,ParserModel,CoreArgs}.v (parse_argv, program_parse) tied to "
        "invoke/parser/*.py and Program.parse_core_args/parse_tasks/_update_core_context by differential "
        "execution of the real Program on every case; CoreArgs.v compared with Program().initial_context by C07",
        "harness/coqterm.py, harness/parser_common.py, harness/props/c18.py (generators: groups are "
        "complete units of the invocation; canonicaliser; term printers)",
        "CPython 3.12 executing /repo",
    ]
    assumptions = [
        "ASCII tokens; int() restricted to [+-]?[0-9]+",
        "task-runner mode (namespace=None): initial context = core_args + task_args",
        "collection loading replaced by assigning Program.collection (loader is C20's subject)",
        "explicit don't-care region of the shadowing clause (Spec/C18Spec.v glued_cluster_reading): a core "
        "option written with its value glued to the short flag ('-fcv') inside a task that declares that very "
        "short flag as a flag taking NO value is, in that task's grammar, the cluster -f -c -v; what the "
        "further letters do is not judged (a change confined to that region shows up as a correspondence "
        "break without a failing specification input)",
        "second don't-care region of the shadowing clause (Spec/C18Spec.v bare_value_reading): a bare boolean core "
        "flag ('-p') moved into a task that declares that very flag as one taking a value is, in that task's "
        "grammar, '-p <next token>': the task receives the flag, what the re-pairing with the following token "
        "(possibly the next task's name) does to the rest of the line is not judged",
    ]
    not_modelled = ["update_config (core values -> config overrides; C15)", "kwargs as received by task bodies "
                    "(Executor; C04)", "Program.normalize_argv / binary name handling"]

    def generate(self, rng, tier, n):
        core_spec = pc.initial_spec("core")
        produced = 0
        while produced < n:
            sigs = pc.gen_sigs(rng, max_params=4)
            specs = pc.ctx_specs(sigs)
            alpha = pc.alphabet(specs, core_spec, rng)
            for _ in range(10):
                r = rng.random()
                if r < 0.22:
                    case = gen_ddash(rng, sigs, specs, core_spec)
                    if any(pc.has_digit_hazard(t) for t in placed_argv(case)):
                        continue
                elif r < 0.47:
                    # free-form line: S1/S2 only
                    if rng.random() < 0.5:
                        argv = pc.mutate_line(rng, pc.spell_line(rng, specs, core_spec), alpha)
                    else:
                        argv = [rng.choice(alpha) for _ in range(rng.randint(0, 5))]
                    if rng.random() < 0.3:
                        argv += ["--"] + [rng.choice(["foo", "--bar", "--", "a b", "", "-x"]) for _ in range(rng.randint(0, 3))]
                    if any(pc.has_digit_hazard(t) for t in argv):
                        continue
                    case = {"sigs": sigs, "groups": [[t] for t in argv], "opt": [], "j": 0, "flags": [],
                            "rem": None, "form": "free"}
                else:
                    inv = pc.gen_invocation(rng, specs, dash_values=rng.random() < 0.15)
                    groups = pc.spell_groups(specs, inv)
                    opt, flags, form = gen_core_option(rng, core_spec)
                    j = rng.randint(0, len(groups)) if rng.random() < 0.9 else 0
                    rem = None
                    if rng.random() < 0.25:
                        rem = [rng.choice(["foo", "--bar", "--", "a b", "", "-e", "build"]) for _ in range(rng.randint(0, 3))]
                    case = {"sigs": sigs, "groups": groups, "opt": opt, "j": j, "flags": flags,
                            "rem": rem, "form": form, "starts": group_starts(inv)}
                yield case
                produced += 1
                if produced >= n:
                    break

    def enumerate_small(self, tier):
        """every core option x spelling x boundary for one fixed two-call invocation"""
        from .c07 import SMALL_SIGS
        sigs = SMALL_SIGS
        groups = [["t"], ["--name", "x"], ["-f"], ["p"], ["v"], ["--no-yes"]]
        core_spec = pc.initial_spec("core")
        for a in core_spec["args"]:
            if a["names"][0] == "help":
                continue
            for k in range(len(a["names"])):
                fl = pc.to_flag_py(a["names"][k])
                if not pc.takes_value(a):
                    opts = [([fl], "bare")]
                else:
                    v = "5" if a["kind"] == "KInt" else "cv"
                    opts = [([fl, v], "next"), ([fl + "=" + v], "eq")]
                    if not fl.startswith("--"):
                        opts.append(([fl + v], "glued"))
                for opt, form in opts:
                    for j in range(len(groups) + 1):
                        yield {"sigs": sigs, "groups": groups, "opt": opt, "j": j, "flags": [fl],
                               "rem": None, "form": form}
        yield from self.enumerate_ddash(sigs)

    def enumerate_ddash(self, sigs):
        """the '--' family on SMALL_SIGS (t: --opt/-o optional value, -f boolean, --name; p/q: one
        positional): every spelling of the optional-value core flags x core prefixes, bare
        optional-value flags ending a task's arguments, value-requiring flags, '--' first, the
        option with its value -- each x 12 remainders (empty, task names, task invocations, core
        flags, '--')"""
        bodies = []
        for fl in ["--list", "-l", "--help", "-h", "-wl", "-el", "-eh", "-weh"]:
            for pre in ([], ["-e"], ["-F", "json"], ["--hide=out"]):
                bodies.append(("dd-core", pre + [fl]))
        for b in (["t", "--opt"], ["t", "-o"], ["t", "--name", "x", "--opt"], ["t", "-fo"], ["t", "-l"],
                  ["t", "--list"], ["t", "-h"], ["p", "v", "--help"], ["-e", "t", "--opt"], ["t", "-wl"]):
            bodies.append(("dd-task", b))
        for b in (["--hide"], ["-f"], ["-T"], ["-c"], ["t", "--name"], ["t", "-n"], ["t", "--hide"]):
            bodies.append(("dd-req", b))
        bodies.append(("dd-first", []))
        for b in (["--list", "t"], ["--list=t"], ["-l", "x"], ["-lx"]):
            bodies.append(("dd-core-val", b))
        rems = [[], ["t"], ["t", "--opt"], ["--list"], ["-l", "t"], ["--"], ["--", "t"], ["foo"],
                ["p", "v", "--no-yes"], ["-e"], ["echo", "hi"], [""]]
        for form, body in bodies:
            for rem in rems:
                f = "dd-multi" if "--" in rem else form
                yield {"sigs": sigs, "groups": [[t] for t in body], "opt": [], "j": 0, "flags": [],
                       "rem": list(rem), "form": f}

    def run_impl(self, case):
        sigs = case["sigs"]
        placed = run_program(sigs, placed_argv(case))
        # the same line without the trailing "-- remainder"
        norem = placed if case.get("rem") is None else run_program(sigs, norem_argv(case))
        if not case["opt"]:
            # no moved option: base = front = the line without the remainder
            return {"base": norem, "front": norem, "norem": norem, "placed": placed}
        base = run_program(sigs, flat(case["groups"]))
        front = run_program(sigs, list(case["opt"]) + flat(case["groups"]))
        return {"base": base, "front": front, "norem": norem, "placed": placed}

    def to_coq(self, case, obs):
        specs = pc.ctx_specs(case["sigs"])
        rem = "None" if case.get("rem") is None else "(Some %s)" % ct.strs(case["rem"])
        return "(mk %s %s %s %s %s %s %s %s %s %s %s)" % (
            ct.lst([pc.ctxspec(c, flat(case["groups"]) + list(case["opt"]) + list(case.get("rem") or []))
                    for c in specs]),
            ct.lst([ct.strs(g) for g in case["groups"]]), ct.lst([ct.n(i) for i in starts_of(case, specs)]),
            ct.strs(case["opt"]), ct.n(case["j"]),
            ct.strs(case["flags"]), rem,
            ct.result(obs["base"], gobs), ct.result(obs["front"], gobs),
            ct.result(obs.get("norem", obs["placed"]), gobs), ct.result(obs["placed"], gobs))

    def nontrivial(self, case, obs):
        return (bool(case["opt"]) and case["j"] >= 1) or case.get("rem") is not None or \
            (case["form"] == "free" and "--" in flat(case["groups"]))

    def classify(self, case, obs):
        o = obs["placed"]
        return "%s:%s" % (case["form"], "err:" + o["err"] if "err" in o else "ok")

    def _region(self, case):
        """the catalogued placement regions (mechanism), from the case alone"""
        if not case["opt"]:
            return None
        specs = pc.ctx_specs(case["sigs"])
        starts = starts_of(case, specs)
        c, start = active_spec(specs, case["groups"], case["j"], starts)
        if c is None:
            return None
        if missing_positional_at(specs, case["groups"], case["j"], starts):
            return "F-C18b"
        if case["j"] >= 1:
            prev = case["groups"][case["j"] - 1]
            if len(prev) == 1 and prev[0].startswith("-"):
                a = pc.arg_of_flag(c, prev[0])
                if a is not None and a["optional"] and pc.takes_value(a):
                    return "F-C18c"
        # (F-C18a -- glued short value of a core option torn apart inside a task context -- was
        #  repaired in /repo by dd95c66: no longer attributable; the witness stays in
        #  corpus/C18/witnesses.json, so a revert is reported as a VIOLATION)
        return None

    def finding_of(self, case, obs):
        # attributable only when the clause that fails is the *placement* clause: base and front
        # parse, and the placed line differs from them in core values or task calls
        b, f, p = obs["base"], obs["front"], obs["placed"]
        if "ok" not in b or ("ok" not in f and case["form"] != "bareopt"):
            return None
        if "ok" in p and case["form"] != "bareopt":
            same_core = p["ok"]["core"] == f["ok"]["core"]
            same_tasks = p["ok"]["tasks"] == b["ok"]["tasks"]
            if same_core and same_tasks:
                return None
        return self._region(case)

    def shrink_candidates(self, case):
        if case.get("rem") is not None:
            yield dict(case, rem=None)
            rem = list(case["rem"])
            if rem:
                yield dict(case, rem=[])
            for i in range(len(rem) - 1, -1, -1):
                yield dict(case, rem=rem[:i] + rem[i + 1:])
        g, j = case["groups"], case["j"]

        def drop(i, newj):
            c2 = dict(case, groups=g[:i] + g[i + 1:], j=newj)
            if "starts" in case:
                c2["starts"] = [x - 1 if x > i else x for x in case["starts"] if x != i]
            return c2
        # drop whole calls after the placement, then single groups
        for i in range(len(g) - 1, -1, -1):
            if i >= j:
                yield drop(i, j)
            elif i > 0 or (len(g) > 1 and len(g[1]) == 1 and not g[1][0].startswith("-")):
                yield drop(i, j - 1)

        # drop tasks the command line never names
        words = set(flat(g))
        tasks = case["sigs"]["tasks"]
        keep = [t for t in tasks if not t.get("coll") and
                (t["name"].replace("_", "-") in words or any(a.replace("_", "-") in words for a in t["aliases"]))]
        if keep and len(keep) < len(tasks):
            s2 = {"tasks": keep}
            try:
                pc.ctx_specs(s2)
                yield dict(case, sigs=s2)
            except Exception:
                pc._cache.pop(pc.sig_key(s2), None)

    # ------------------------------------------------------------------
    EFFECT_OPTIONS = [
        # (flag spellings, value or None, setting observed by the task body, expected value)
        (["--echo", "-e"], None, "echo", True),
        (["--warn-only", "-w"], None, "warn", True),
        (["--pty", "-p"], None, "pty", True),
        (["--dry", "-R"], None, "dry", True),
        (["--hide"], "both", "hide", "both"),
        (["--hide"], "out", "hide", "out"),
        (["--command-timeout", "-T"], "7", "timeout", 7),
        (["--command-timeout", "-T"], "12", "timeout", 12),
        (["--no-dedupe"], None, "dedupe", False),
        # the runtime configuration file: a key only that file defines, read by the task body
        (["--config", "-f"], "@runtime-file", "marker", "from-runtime-file"),
        # getpass is patched (parser_common.run_effects); the body reads sudo.password
        (["--prompt-for-sudo-password"], None, "sudo_password", pc.SUDO_PASSWORD),
    ]

    def extra_checks(self, tier, seed):
        """EFFECTS (a test on the real Program.run, not modelled in Coq): task bodies record the
        settings they see (run.echo/warn/hide/pty/dry, tasks.dedupe, timeouts.command, a key of the
        runtime configuration file given with -f/--config, sudo.password after
        --prompt-for-sudo-password) and the kwargs they receive; the listing options through what
        --list prints; a core option must have the same effect first or inside a task's
        argument list; the remainder must arrive verbatim."""
        rng = random.Random(seed + 18)
        n = 120 if tier == "quick" else 1500
        failures, evaluations = [], 0

        def expected_after_dedupe(exp, dedupe):
            out = []
            for e in exp:
                if dedupe and e in out:
                    continue
                out.append(e)
            return out

        def strip_list_defaults(specs, inv, calls):
            # F-C01a (list-typed defaults) is C01's finding: not judged here
            return calls

        for _ in range(n):
            sigs = pc.gen_sigs(rng, max_params=4)
            specs = pc.ctx_specs(sigs)
            if any(a["kind"] == "KList" and a["default"] not in ([], None) for c in specs for a in c["args"]):
                continue
            if any(pn == "self" for t in sigs["tasks"] for pn, _ in t["params"]):
                continue      # a parameter named 'self' cannot be delivered at all: F-C09e (C09's finding)
            if any(a["positional"] and a["default"] is None and a["incrementable"]
                   for c in specs for a in c["args"]):
                continue      # a required positional that is a counter can never be supplied (C01Spec
                              # positional_fillable; its flag is F-C07e): no intended invocation exists
            inv = pc.gen_invocation(rng, specs, dash_values=False)
            if any(o["form"] == "glued" and "=" in o["val"].get("s", "")
                   for c in inv for o in pc.flat_occs(c["occs"])):
                continue            # F-C01b (glued value containing '=') is C01's finding
            if any("cluster" not in o and o["form"] == "pos"
                   and specs[c["task"]]["args"][o["arg"]]["default"] is not None
                   for c in inv for o in c["occs"]):
                continue            # F-C01c (positional with a default given by position) is C01's finding
            groups = pc.spell_groups(specs, inv)
            spell, val, field, want = rng.choice(self.EFFECT_OPTIONS)
            if val == "@runtime-file":
                val = pc.runtime_marker_file()
            fl = rng.choice(spell)
            if val is None:
                opt, form = [fl], "bare"
            else:
                form = rng.choice(["next", "eq"] + ([] if fl.startswith("--") else ["glued"]))
                opt = [fl, val] if form == "next" else [fl + "=" + val] if form == "eq" else [fl + val]
            j = rng.randint(0, len(groups))
            rem = [rng.choice(["foo", "--bar", "", "a b", "-e"]) for _ in range(rng.randint(1, 3))] \
                if rng.random() < 0.3 else None
            tail = (["--"] + rem) if rem is not None else []
            base = flat(groups) + tail
            front = opt + flat(groups) + tail
            placed = flat(groups[:j]) + opt + flat(groups[j:]) + tail
            case = {"sigs": sigs, "groups": groups, "opt": opt, "j": j, "flags": [fl], "rem": rem, "form": form,
                    "starts": group_starts(inv)}
            rb, rf, rp = pc.run_effects(sigs, base), pc.run_effects(sigs, front), pc.run_effects(sigs, placed)
            evaluations += 1
            exp = [[nm, kw] for nm, kw in pc.expected_calls(specs, inv)]
            what = None
            exp = [[nm, sorted(kw, key=lambda x: x[0])] for nm, kw in exp]    # bodies record in parameter order
            names_kw = lambda r: [[c[0], sorted(c[1], key=lambda x: x[0])] for c in r["calls"]]
            # kwargs delivered to the bodies (base line): exactly the intended calls
            if rb["exc"] is not None or names_kw(rb) != expected_after_dedupe(exp, True):
                what = "task bodies did not receive the intended kwargs: %r" % (rb,)
            elif rem is not None and rb["remainder"] != " ".join(rem):
                what = "remainder not verbatim: %r" % (rb["remainder"],)
            # the option in front: the setting is seen by every task
            elif rf["exc"] is not None or any(c[2][field] != want for c in rf["calls"]) or \
                    names_kw(rf) != expected_after_dedupe(exp, field != "dedupe"):
                what = "core option in front has not the documented effect: %r" % (rf,)
            else:
                c_act, _ = active_spec(specs, groups, j, group_starts(inv))
                shadow = c_act is not None and (pc.arg_of_flag(c_act, fl) is not None or any(
                    a["kind"] == "KBool" and a["default"] is True and pc.to_flag_py("no-" + a["names"][0]) == fl
                    for a in c_act["args"]))
                if not shadow and (rp["exc"] != rf["exc"] or rp["calls"] != rf["calls"]
                                   or rp["remainder"] != rf["remainder"]):
                    what = "core option has a different effect inside the task's argument list: front %r placed %r" % (rf, rp)
            if what:
                f = {"case": case, "what": what}
                reg = self._region(case)
                if reg and what.startswith("core option has a different effect"):
                    f["finding"] = reg       # provisional: confirmed against the model below
                failures.append(f)
        # An effects failure inside a catalogued region is attributed only if the PARSE-LEVEL
        # judgement of the very same command lines agrees: the model reproduces invoke's parse
        # results (corr), the specification rejects them (spec false) and the clause-specific
        # finding_of names the same region.  Otherwise it is an unattributed failure.
        provisional = [f for f in failures if f.get("finding")]
        if provisional:
            from ..core import eval_shards
            obss = [self.run_impl(f["case"]) for f in provisional]
            terms = [self.to_coq(f["case"], o) for f, o in zip(provisional, obss)]
            verdicts = eval_shards(self, terms, tag="fx")
            for f, o, v in zip(provisional, obss, verdicts):
                if not (v.get("corr") and not v.get("spec") and self.finding_of(f["case"], o) == f["finding"]):
                    f["what"] += " [region %s NOT confirmed by the parse-level model: verdict %r]" % (f["finding"], v)
                    del f["finding"]
        # F-C18d: options that Program acts upon before task parsing
        sig1 = {"tasks": [{"name": "t", "aliases": [], "coll": None, "default": False, "params": [],
                           "positional": None, "optional": [], "iterable": [], "incrementable": [],
                           "auto_shortflags": True}]}
        rf, rp = pc.run_effects(sig1, ["--version", "t"]), pc.run_effects(sig1, ["t", "--version"])
        evaluations += 1
        if (rf["version_printed"], len(rf["calls"])) != (rp["version_printed"], len(rp["calls"])):
            failures.append({"case": {"sigs": sig1, "argv_front": ["--version", "t"], "argv_placed": ["t", "--version"]},
                             "what": "--version first prints the version and runs nothing; after a task name "
                                     "it is parsed (version=True) but the task runs and nothing is printed",
                             "finding": "F-C18d"})
        # the listing options (--list-format/-F, --list-depth/-D) only show in what --list prints:
        # same listing whether they are written first or after the task name
        sig2 = {"tasks": [dict(sig1["tasks"][0]),
                          dict(sig1["tasks"][0], name="u", coll="sub")]}
        for optl in (["-F", "json"], ["--list-format=json"], ["-D", "1"], ["--list-depth=1"], ["-D1"]):
            rb = pc.run_effects(sig2, ["t", "--list"])
            rf = pc.run_effects(sig2, optl + ["t", "--list"])
            rp = pc.run_effects(sig2, ["t"] + optl + ["--list"])
            evaluations += 1
            if rf["stdout"] == rb["stdout"] or not rf["stdout"].strip():
                failures.append({"case": {"sigs": sig2, "argv_front": optl + ["t", "--list"]},
                                 "what": "listing option in front has no visible effect: %r" % (rf,)})
            elif (rp["stdout"], rp["exc"], len(rp["calls"])) != (rf["stdout"], rf["exc"], len(rf["calls"])):
                failures.append({"case": {"sigs": sig2, "argv_front": optl + ["t", "--list"],
                                          "argv_placed": ["t"] + optl + ["--list"]},
                                 "what": "listing option has a different effect after the task name: "
                                         "front %r placed %r" % (rf, rp)})
        # known regions first so that an unknown failure is the one reported
        failures.sort(key=lambda f: 0 if f.get("finding") else 1)
        failures = [f for f in failures if f.get("finding")] + [f for f in failures if not f.get("finding")][:1]
        return [{"name": "effects", "evaluations": evaluations, "failures": failures,
                 "note": "real Program.run in task-runner mode with recording task bodies; base/front/placed "
                         "command lines compared on delivered kwargs, settings seen, remainder"},
                self.single_pass_remainder(tier, seed)]

    def single_pass_remainder(self, tier, seed):
        """REMAINDER, one level down (a test on the real Parser, the way library users drive it:
        ONE pass, task contexts + core context as initial, unknown tokens rejected): the '--'
        family -- here a bare optional-value TASK flag right before '--' is seen by the very pass
        that splits the remainder off.  body ++ ['--'] ++ rem must give the contexts of body
        alone (or the same class of error) and remainder = ' '.join(rem)."""
        rng = random.Random(seed + 1805)
        n = 150 if tier == "quick" else 2000
        core_spec = pc.initial_spec("core")
        failures, evaluations = [], 0
        from .c07 import SMALL_SIGS
        cases = list(self.enumerate_ddash(SMALL_SIGS))
        cases = rng.sample(cases, min(len(cases), n // 3))
        while len(cases) < n:
            sigs = pc.gen_sigs(rng, max_params=4)
            specs = pc.ctx_specs(sigs)
            for _ in range(6):
                cases.append(gen_ddash(rng, sigs, specs, core_spec))
        for case in cases:
            body, rem = flat(case["groups"]), list(case["rem"])
            without = pc.run_parse(case["sigs"], body, "core", False, purity=False)
            with_ = pc.run_parse(case["sigs"], body + ["--"] + rem, "core", False, purity=False)
            evaluations += 1
            want = " ".join(rem)
            what = None
            if ("ok" in without) != ("ok" in with_) or ("err" in without and without != with_):
                what = "the remainder changes the outcome: without %r, with %r" % (without, with_)
            elif "ok" in with_:
                if with_["ok"]["remainder"] != want or without["ok"]["remainder"] != "":
                    what = "remainder not verbatim: %r, expected %r" % (with_["ok"]["remainder"], want)
                elif (with_["ok"]["ctxs"], with_["ok"]["unparsed"]) != (without["ok"]["ctxs"], without["ok"]["unparsed"]):
                    what = "the remainder changes the parse: without %r, with %r" % (without, with_)
            if what:
                failures.append({"case": case, "what": what})
        return {"name": "remainder-single-pass", "evaluations": evaluations, "failures": failures[:1],
                "note": "real Parser(contexts, initial=core).parse_argv, single pass: body+['--']+rem vs body"}

    def mutate(self, case, rng):
        g = case["groups"]
        for j in range(len(g) + 1):
            if j != case["j"]:
                yield dict(case, j=j)
        core_spec = pc.initial_spec("core")
        for _ in range(20):
            opt, flags, form = gen_core_option(rng, core_spec)
            yield dict(case, opt=opt, flags=flags, form=form if case["form"] != "free" else form,
                       j=rng.randint(0, len(g)))
        # the '--' family around this case: its own line with a remainder (if it has none),
        # other remainders, and the bare optional-value core flags right before '--'
        specs = pc.ctx_specs(case["sigs"])
        words = task_words(specs)
        rems = [[], ["foo"], ["--list"], ["--", "x"]] + [[w] for w in words[:2]]
        body = [t for t in norem_argv(case)]
        if "--" in body:
            body = body[:body.index("--")]
        for rem in rems:
            if rem != case.get("rem"):
                yield dict(case, rem=list(rem))
        for fl in optional_core_flags(core_spec) + ["-wl", "-eh"]:
            for pre in ([], body):
                for rem in rems:
                    yield {"sigs": case["sigs"], "groups": [[t] for t in pre + [fl]], "opt": [], "j": 0,
                           "flags": [], "rem": list(rem), "form": "dd-core" if not pre else "dd-task"}
        for _ in range(10):
            yield gen_ddash(rng, case["sigs"], specs, core_spec)


PROP = C18()
