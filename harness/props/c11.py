"""C11: clones are faithful and independent; supplied data is never mutated."""
import copy
import random

from .. import config_common as cc
from .. import coqterm as ct
from .. import gen_tree as gt
from ..core import Prop
from .c06 import Gen

LEVEL_ATTRS = ["_defaults", "_collection", "_system", "_user", "_project", "_env", "_runtime",
               "_overrides", "_modifications", "_deletions"]


def obj_ids(x, dicts, lists):
    """ids of the dict objects and of the list objects (mutable leaves) below x;
    descends into lists and tuples too"""
    if isinstance(x, dict):
        dicts.add(id(x))
        for v in x.values():
            obj_ids(v, dicts, lists)
    elif isinstance(x, (list, tuple)):
        if isinstance(x, list):
            lists.add(id(x))
        for v in x:
            obj_ids(v, dicts, lists)
    elif isinstance(x, (set, bytearray)):
        lists.add(id(x))          # mutable non-list leaves count like lists
    return dicts, lists


def level_nodes(cfg, attrs=None):
    dicts, lists = set(), set()
    for a in (attrs or LEVEL_ATTRS + ["_config"]):
        obj_ids(getattr(cfg, a), dicts, lists)
    return dicts, lists


# --------------------------------------------------------------------------
# object-graph cases: real merge_dicts / copy_dict / Config.clone on dicts that
# deliberately share sub-dict objects; the sharing relation afterwards is
# compared with the heap model (coq/Model/HeapMerge.v)
# --------------------------------------------------------------------------
def gen_heap_case(rng):
    sch = cc.schema(rng, depth=rng.choice([2, 3, 3]), width=rng.choice([2, 3]), p_section=0.55)
    nodes, spath = [], []

    def alloc(inst, sp, p_empty):
        a = len(nodes)
        nodes.append([])
        spath.append(sp)
        items = []
        for k, v in inst.items():
            if isinstance(v, dict):
                sub = {} if rng.random() < p_empty else v
                items.append([k, {"ref": alloc(sub, sp + (k,), p_empty)}])
            else:
                items.append([k, {"leaf": cc.jsonable(v)}])
        nodes[a] = items
        return a

    def reach(a, seen=None):
        seen = set() if seen is None else seen
        if a in seen:
            return seen
        seen.add(a)
        for _, v in nodes[a]:
            if "ref" in v:
                reach(v["ref"], seen)
        return seen
    kind = rng.choices(["merge", "copy", "clone"], [6, 2, 2])[0]
    nroots = {"merge": 2, "copy": 1, "clone": 3}[kind]
    roots = [alloc(cc.instance(rng, sch, rng.choice([0.6, 0.9])), (), rng.choice([0.0, 0.3, 0.5]) if i == 0 else 0.05)
             for i in range(nroots)]
    # sharing: redirect some references to another node (same schema position mostly)
    for _ in range(rng.choice([0, 1, 2, 2, 3, 4])):
        edges = [(a, i) for a, n in enumerate(nodes) for i, (_, v) in enumerate(n) if "ref" in v]
        if not edges:
            break
        a, i = rng.choice(edges)
        old = nodes[a][i][1]["ref"]
        same = [y for y in range(len(nodes)) if y != old and spath[y] == spath[old]]
        cands = same if ((same and rng.random() < 0.8) or kind == "clone") else \
            [y for y in range(len(nodes)) if y != old]
        if not cands:
            continue
        y = rng.choice(cands)
        if a in reach(y):          # would close a cycle
            continue
        nodes[a][i][1] = {"ref": y}
    if kind == "merge":
        op = ["merge", roots[0], roots[1]]
        if rng.random() < 0.05:
            op = ["merge", roots[0], roots[0]]
    elif kind == "copy":
        op = ["copy", roots[0]]
    else:
        op = ["clone", roots]
    return {"kind": "heap", "h0": nodes, "op": op}


def run_heap(case):
    from invoke.config import merge_dicts, copy_dict
    h0 = case["h0"]
    objs = [dict() for _ in h0]
    for i, node in enumerate(h0):
        for k, v in node:
            objs[i][k] = objs[v["ref"]] if "ref" in v else cc.unjson(v["leaf"])
    op = case["op"]
    res = []
    sess = None
    try:
        if op[0] == "merge":
            merge_dicts(objs[op[1]], objs[op[2]])
        elif op[0] == "copy":
            res = [copy_dict(objs[op[1]])]
        else:
            sess = cc.Session({"fs": [], "init": {}, "ops": []})
            import os
            kw = {"system_prefix": os.path.join(sess.root, "sys") + os.sep,
                  "user_prefix": os.path.join(sess.root, "usr") + os.sep + ".", "lazy": True,
                  "defaults": objs[op[1][0]], "overrides": objs[op[1][2]]}
            cfg = cc.make_class()(**kw)
            cfg.load_collection(objs[op[1][1]], merge=False)
            cl = cfg.clone()
            res = [cl._defaults, cl._collection, cl._overrides]
    except Exception as e:
        return {"err": type(e).__name__}
    finally:
        if sess is not None:
            sess.close()
    # the graph afterwards: old objects keep their address, new ones are numbered on discovery
    index = {id(o): i for i, o in enumerate(objs)}
    all_objs = list(objs)

    def visit(o):
        for v in list(o.values()):
            if isinstance(v, dict):
                if id(v) not in index:
                    index[id(v)] = len(all_objs)
                    all_objs.append(v)
                    visit(v)
    for o in list(objs):
        visit(o)
    for r in res:
        if id(r) not in index:
            index[id(r)] = len(all_objs)
            all_objs.append(r)
        visit(r)
    h1 = [[[k, {"ref": index[id(v)]} if isinstance(v, dict) else {"leaf": cc.jsonable(v)}]
           for k, v in o.items()] for o in all_objs]
    return {"h1": h1, "res": [index[id(r)] for r in res]}


def c_heap(h):
    return ct.lst([ct.lst([ct.pair(ct.s(k), "(HRef %s)" % ct.n(v["ref"]) if "ref" in v
                                    else "(HLeaf %s)" % ct.value(cc.unjson(v["leaf"]))) for k, v in node])
                   for node in h])


def c_hop(op):
    if op[0] == "merge":
        return "(HMerge %s %s)" % (ct.n(op[1]), ct.n(op[2]))
    if op[0] == "copy":
        return "(HCopy %s)" % ct.n(op[1])
    return "(HClone %s)" % ct.lst([ct.n(r) for r in op[1]])


def heap_shared(h):
    indeg = {}
    for node in h:
        for _, v in node:
            if "ref" in v:
                indeg[v["ref"]] = indeg.get(v["ref"], 0) + 1
    return any(c > 1 for c in indeg.values())


# --------------------------------------------------------------------------
# pop(key, default) where the default IS the object stored: the merged cache's own
# value fetched through the public get() (a DataProxy proxies get to its dict, so
# lists and sub-dicts come out as the very objects held); for None / bools / small
# ints / one-character strings the literal written in the case is that object anyway
# --------------------------------------------------------------------------
IDENTICAL = {"n": [None], "b": [True, False], "i": [0, 1, 7], "s": ["", "v"]}


def unwrap(op):
    return op[2] if op[0] == "via" else op


class Sess11(cc.Session):
    """cc.Session plus ``["pop", fl, kp, k, {"d": fallback, "same": 1}]``: the default handed
    to pop() is the object currently stored under the key (the fallback when the key is
    absent).  For the code under test the default is irrelevant when the key exists, so the
    model's term is the plain ``Pop fl kp k (Some fallback)``; what the flag adds is the
    object IDENTITY between the default and the stored value.  ``last_pop`` says what the
    last pop-with-default met (for the input distribution)."""
    last_pop = None

    def run_op(self, cfg, op, rng=None, base=None):
        if op[0] == "pop" and isinstance(op[4], dict):
            obj = self.nav(cfg if base is None else base, op[1], op[2], rng)
            present = hasattr(obj, "keys") and hasattr(obj, "pop") and op[3] in obj
            stored = obj.get(op[3]) if present else None
            dflt = stored if (present and op[4].get("same")) else cc._uj(op[4]["d"])
            self.last_pop = ("missing" if not present else
                             "default-is-stored-object" if dflt is stored else
                             "default-equal" if _same_value(dflt, stored) else "default-differs")
            v = obj.pop(op[3], dflt)
            return cfg, {"val": cc._rec(v)}
        return super().run_op(cfg, op, rng, base)


def _same_value(a, b):
    try:
        return type(a) is type(b) and bool(a == b)
    except Exception:
        return False


def tail_label(case, last_pop):
    """what stands right before the clone (input distribution)"""
    if not case["pre"]:
        return None
    top = case["pre"][-1]
    op = unwrap(top)
    where = "@held" if top[0] == "via" else \
        ("@nested" if (len(op) > 2 and isinstance(op[2], list) and op[2]) else "@top")
    if op[0] == "pop":
        if op[4] is None:
            return "pop(k)" + where
        return "pop(k,d):" + (last_pop or "not-reached") + where
    if op[0] in ("setdefault", "popitem", "clear", "del"):
        return op[0] + where
    return None


class C11(Prop):
    id = "C11"
    corr_module = "Corr.C11Corr"
    quick_n = 1000
    thorough_n = 15000
    shard_size = 100
    rule = ("a C06-style history (all mutators, held proxies, reloads; type-consistent by schema) builds the "
            "state, then clone() -- 35% into a subclass whose global defaults overlap the original's -- then "
            "0-10 operations on either object (held proxies of the original stay usable); in 42% of these "
            "cases the history ENDS, right before the clone (nothing in between re-merges the original), in a "
            "removal or default-taking call -- pop(key, default) whose default is the very object stored (the "
            "cache's own value fetched through get(): None, bools, ints, strings, list leaves, whole sections), "
            "an equal literal (after a write of None/True/0/''/'v'), another value, a missing key; pop(key), "
            "setdefault, popitem, clear -- at top level, in nested sections or through a proxy held since just "
            "before, and both objects are read back at that place right after the clone; observed: the ten "
            "levels and both deep views at the clone, both deep views after every later step, and a snapshot "
            "[every third case instead: an object graph (dicts deliberately sharing sub-dict objects, empty "
            "placeholder sections), one call of the real merge_dicts / copy_dict / Config.clone, and the object "
            "graph afterwards, compared with the heap model up to the numbering of new objects] "
            "comparison of every caller-held source dict plus a walk proving original and clone share no "
            "dict object.  Non-trivial = the history before the clone contains a deletion or a nested "
            "write and at least one operation follows the clone")
    trusted_base = [
        "Coq 8.16.1 kernel + vm_compute (shard evaluation)",
        "hand-written model coq/Model/ConfigModel.v tied to invoke/config.py by differential execution (this run)",
        "independence / non-mutation: PROVED on the explicit-heap model coq/Model/HeapMerge.v (merge_dicts writes only "
        "base-reachable objects, adopts nothing, copy_dict/clone levels are fresh and pairwise disjoint; the heap "
        "model refines the pure merge_dicts) and that model is tied to the real merge_dicts/copy_dict/Config.clone "
        "by comparing the sharing relation observed with id() on object graphs with deliberate sharing (every "
        "third case); for the rest of Config (proxies, _modifications, reloads) independence is a SNAPSHOT TEST "
        "(deep equality of every caller-held source and of the untouched object's view after every operation, "
        "object-identity walk over both objects' levels)",
        "harness/coqterm.py, harness/config_common.py, harness/props/c11.py, harness/props/c06.py (generator)",
        "CPython 3.12 executing the repository under test",
    ]
    assumptions = [
        "type-consistent values; leaves None/bool/int/str/list/tuple (shallow-copied leaves that are themselves "
        "mutable containers of containers are documented as shared by clone() and not generated)",
        "dict values written through __setitem__ are stored by reference in the modifications level (as a plain "
        "dict would store them) and are not counted as 'supplied data'",
    ]
    not_modelled = [
        "object identity outside merge_dicts/copy_dict/clone's level copies (heap model covers these three; "
        "DataProxy writes into _modifications by reference are tested by snapshots only)",
        "cyclic dict graphs (the heap model runs on fuel; generated graphs are acyclic)",
        "Collection.configuration(): exercised by a separate snapshot test (extra check), its merge is C17",
    ]

    def teardown(self):
        cc.cleanup()

    # -- generation ----------------------------------------------------------
    def gen_one(self, rng, i):
        # leaf kinds: also sets and bytearrays (mutable, not lists) in a third of the cases
        kinds = rng.choice([None, None, "nbisleB", "leBs"])
        g = Gen(rng, long=(i % 2 == 0), kinds=kinds)
        case = g.case()
        pre = [o for o in case["ops"] if o[0] != "clone"]
        probe_n = [0]

        def probe():
            probe_n[0] += 1
            return "z%02d" % probe_n[0]     # distinct, sorts after every generated element
        lazy = rng.random() < 0.12
        if lazy:
            case["init"]["lazy"] = True
            r = rng.random()
            if r < 0.4:
                pre = [["load_system"], ["load_user"]] + pre
            elif r < 0.6:
                pre = [["load_user"]] + pre
        into = None
        if rng.random() < 0.35:
            into = g.inst(rng.choice([0.3, 0.6]))
            # mostly agree with the defaults in force where both define a leaf (a
            # disagreement is the known finding F-C11b)
            cur = case["init"]["defaults"] or {}
            for o in pre:
                if o[0] == "load_defaults":
                    cur = o[1]

            def agree(a, b):
                for k in list(a):
                    if k in b:
                        if isinstance(a[k], dict) and isinstance(b[k], dict) and not cc.is_enc_leaf(a[k]):
                            agree(a[k], b[k])
                        elif not isinstance(a[k], dict) and not isinstance(b[k], dict) and rng.random() < 0.85:
                            a[k] = b[k]
            agree(into, cur)
            extra = rng.choice(["zz", "new", "extra"])
            if rng.random() < 0.7:
                into[extra] = rng.choice([1, "v", {"data": "ohai"}])
        def list_leaves():
            return [(p[:-1], p[-1]) for p, sec in cc.schema_paths(g.sch)
                    if not sec and g.node(p[:-1])[p[-1]] in ("l", "e", "B")]
        # in-place edits of list leaves (not a config operation: a probe for shared leaf objects)
        for _ in range(rng.choice([0, 0, 1, 2])):
            ll = list_leaves()
            if ll:
                kp, k = rng.choice(ll)
                pre.insert(rng.randint(0, len(pre)), ["leafappend", rng.choice(["item", "attr"]), list(kp), k, probe()])
        if rng.random() < 0.3:
            case["fs"].append(["projB", rng.choice(cc.SUFFIXES), {"data": g.inst(kinds="nbisl")}])
        seen_files, uniq = set(), []
        for e in case["fs"]:
            if (e[0], e[1]) not in seen_files:
                seen_files.add((e[0], e[1]))
                uniq.append(e)
        case["fs"] = uniq
        # untracked local edits (raw dict / list leaf) live in the cache only: re-merge before cloning,
        # "the moment of cloning" is about what the levels hold
        # the same for merge=False loads / re-pointings left unmerged (the guard of the clone theorems:
        # cache = merge of the levels; see Properties/C11.v)
        if any((o[2] if o[0] == "via" else o)[0] in ("rawset", "leafappend") for o in pre) or \
                any(o[0].endswith("_d") or o[0].startswith("set_") for o in pre):
            pre.append(["merge"])
        # right before the clone (nothing in between re-merges the original): a removal or a
        # default-taking call -- pop(key, default) with the default being the very object stored,
        # an equal literal, another value, a missing key; setdefault, popitem, clear, pop(key) --
        # at top level, in nested sections and through a proxy held since just before;
        # then both objects are read back at the place touched
        post = []
        if rng.random() < 0.42:
            cur = case["init"].get("defaults") or {}
            for o in pre:
                if o[0] in ("load_defaults", "load_defaults_d"):
                    cur = o[1]
            tail, reads = self.gen_tail(g, rng, cur)
            pre.extend(tail)
            post.extend(reads)
        handles = {False: dict(g.handles), True: {}}
        for _ in range(rng.randint(0, 10 if not post else 7)):
            side = rng.random() < 0.5
            g.handles = handles[side]
            r = rng.random()
            secs = [p for p in g.sections() if p]
            r2 = rng.random()
            if r2 < 0.12:
                op = rng.choice([["load_project"], ["load_runtime"], ["merge"],
                                 ["set_project_location", rng.choice(["projB", "projA", None])],
                                 ["load_system"], ["load_user"]])
                handles[side] = g.handles
                post.append([side, op])
                continue
            if r2 < 0.16:
                handles[side] = {}
                post.append([side, ["clone", None]])
                continue
            if r2 < 0.24 and list_leaves():
                kp, k = rng.choice(list_leaves())
                post.append([side, ["leafappend", rng.choice(["item", "attr"]), list(kp), k, probe()]])
                continue
            if r < 0.1 and secs and len(g.handles) < 3:
                p = rng.choice(secs)
                h = g.next_h
                g.next_h += 1
                g.handles[h] = tuple(p)
                op = ["hold", h, rng.choice(["item", "attr"]), list(p)]
            elif r < 0.22:
                for op in g.reload():
                    post.append([side, op])
                handles[side] = g.handles
                continue
            elif g.handles and rng.random() < 0.4:
                h = rng.choice(list(g.handles))
                op = ["via", h, g.path_op(base=g.handles[h])]
            else:
                op = g.path_op()
            handles[side] = g.handles
            post.append([side, op])
        return {"fs": case["fs"], "init": case["init"], "pre": pre, "into": into, "post": post,
                "into_const": into is not None and rng.random() < 0.5}

    def gen_tail(self, g, rng, defaults):
        """(operations that end the history before the clone, read-backs after it)"""
        ops, reads = [], []
        for _ in range(rng.choice([1, 1, 1, 2])):
            nested = [p for p in g.sections() if p and not any(tuple(p[:j]) in g.deleted
                                                               for j in range(1, len(p) + 1))]
            abs_kp = tuple(rng.choice(nested)) if (nested and rng.random() < 0.55) else ()
            node = g.node(abs_kp)
            sub = defaults
            for k in abs_kp:
                sub = sub.get(k) if isinstance(sub, dict) and not cc.is_enc_leaf(sub) else None
            sub = sub if isinstance(sub, dict) and not cc.is_enc_leaf(sub) else {}
            likely = [k for k in node if k in sub and tuple(abs_kp) + (k,) not in g.deleted] or list(node)
            fl = rng.choice(["item", "attr"])
            kind = rng.choices(["pop-same", "pop-equal", "set-pop-equal", "pop-other", "pop-missing",
                                "setdefault", "popitem", "clear", "pop"],
                               [38, 12, 10, 9, 8, 8, 6, 4, 5])[0]
            if not likely and kind in ("pop-same", "pop-equal", "pop-other", "pop"):
                kind = "pop-missing"
            held = bool(abs_kp) and rng.random() < 0.2
            kp = [] if held else list(abs_kp)
            seq, k = [], None
            if kind == "pop-same":
                k = rng.choice(likely)            # a leaf, a list leaf or a whole section
                seq.append(["pop", fl, kp, k, {"d": rng.choice([None, 1, "v"]), "same": 1}])
            elif kind == "pop-equal":
                k = rng.choice(likely)
                v = sub.get(k)
                if isinstance(v, dict) and not cc.is_enc_leaf(v):
                    seq.append(["pop", fl, kp, k, {"d": None, "same": 1}])
                else:                             # the literal the defaults level holds
                    seq.append(["pop", fl, kp, k, {"d": copy.deepcopy(v)}])
            elif kind == "set-pop-equal":
                leaves = [x for x in node if not isinstance(node[x], dict) and node[x] in IDENTICAL]
                if leaves and rng.random() < 0.8:
                    k = rng.choice(leaves)
                else:
                    k = rng.choice([x for x in g.keys + ["z", "w"] if x not in node] or ["zz"])
                    if k not in node:
                        node[k] = rng.choice("nbis")
                if isinstance(node[k], dict) or node[k] not in IDENTICAL:
                    k, node["zq"] = "zq", "i"
                v = rng.choice(IDENTICAL[node[k]])
                seq.append(["set", rng.choice(["item", "attr"]), kp, k, v])
                seq.append(["pop", fl, kp, k, {"d": v}])
            elif kind == "pop-other":
                k = rng.choice(likely)
                seq.append(["pop", fl, kp, k, {"d": cc.leaf(rng, "isn")}])
            elif kind == "pop-missing":
                k = rng.choice([x for x in g.keys + ["z", "w"] if x not in node] or ["zz"])
                if k not in node:
                    node[k] = rng.choice("is")
                d = {"d": rng.choice([None, 1, "v", 0, ""])}
                if rng.random() < 0.5:
                    d["same"] = 1
                seq.append(["pop", fl, kp, k, d])
            elif kind == "pop":
                k = rng.choice(likely)
                seq.append(["pop", fl, kp, k, None])
            elif kind == "setdefault":
                k = g.pick_key(abs_kp, want_leaf=True, p_fresh=0.5)
                v, isd = g.value_for(abs_kp, k)
                if isd:
                    g.kill(abs_kp + (k,), True)
                seq.append(["setdefault", fl, kp, k, {"d": v}])
            elif kind == "popitem":
                seq.append(["popitem", fl, kp])
            else:
                seq.append(["clear", fl, kp])
            if held:
                h = 80 + g.next_h
                g.next_h += 1
                ops.append(["hold", h, rng.choice(["item", "attr"]), list(abs_kp)])
                seq = [["via", h, o] for o in seq]
            ops.extend(seq)
            if kind in ("popitem", "clear"):
                for x in list(node):
                    g.kill(abs_kp + (x,))
            elif kind != "setdefault":
                g.kill(abs_kp + (k,))
            if held:
                g.handles[h] = tuple(abs_kp)      # still in scope: its own section was not removed
            # read both objects back where the call acted
            rfl = rng.choice(["item", "attr"])
            rd = rng.choice([["contains", rfl, list(abs_kp), k], ["getm", rfl, list(abs_kp), k, {"d": "dflt"}],
                             ["get", rfl, list(abs_kp), k]] if k is not None else
                            [["keys", rfl, list(abs_kp), "keys"], ["len", rfl, list(abs_kp)]])
            first = rng.random() < 0.5
            reads.append([first, copy.deepcopy(rd)])
            reads.append([not first, copy.deepcopy(rd)])
        return ops, reads

    def generate(self, rng, tier, n):
        for i in range(n):
            if i % 3 == 2:
                yield gen_heap_case(rng)
            else:
                yield self.gen_one(rng, i)

    def enumerate_small(self, tier):
        init = {"defaults": {"a": {"x": 0, "y": 0}, "k": 1}, "overrides": {"o": {"p": 1}}, "proj": None,
                "rt": None, "lazy": False}
        pres = [[], [["del", "item", [], "k"]], [["del", "item", ["a"], "x"]], [["set", "item", ["a"], "z", 5]],
                [["set", "item", [], "n", {"m": 1}]], [["pop", "attr", ["o"], "p", None]],
                [["hold", 0, "item", ["a"]], ["set", "item", [], "k", 2]],
                # removals / default-taking calls right before the clone: the default is the literal
                # stored (1 is 1, 0 is 0, None is None), the stored object itself (a leaf, a whole
                # section), another value, a missing key; through a held proxy; setdefault, popitem, clear
                [["pop", "item", [], "k", {"d": 1}]], [["pop", "attr", ["a"], "x", {"d": 0}]],
                [["set", "item", ["a"], "z", None], ["pop", "item", ["a"], "z", {"d": None}]],
                [["set", "attr", [], "t", True], ["pop", "attr", [], "t", {"d": True}]],
                [["set", "item", [], "s", "v"], ["pop", "item", [], "s", {"d": "v"}]],
                [["pop", "item", ["o"], "p", {"d": None, "same": 1}]], [["pop", "item", [], "a", {"d": None, "same": 1}]],
                [["pop", "item", [], "k", {"d": 2}]], [["pop", "item", [], "zz", {"d": None}]],
                [["pop", "item", ["a"], "zz", {"d": 1, "same": 1}]],
                [["hold", 0, "item", ["a"]], ["via", 0, ["pop", "item", [], "y", {"d": 0}]]],
                [["setdefault", "item", ["a"], "x", {"d": 0}]], [["setdefault", "item", ["a"], "w", {"d": 1}]],
                [["setdefault", "attr", [], "nn", None]],
                [["popitem", "item", []]], [["popitem", "item", ["a"]]], [["clear", "item", []]],
                [["clear", "attr", ["a"]]]]
        posts = [[], [[True, ["set", "item", ["a"], "x", 9]]], [[False, ["set", "item", ["a"], "x", 9]]],
                 [[True, ["del", "item", [], "a"]]], [[False, ["del", "item", ["o"], "p"]]],
                 [[True, ["set", "item", ["o"], "p", 7]]], [[False, ["load_overrides", {"o": {"p": 3}}]]],
                 [[False, ["via", 0, ["set", "item", [], "w", 1]]]], [[True, ["clear", "item", ["a"]]]]]
        L = lambda v: {"leaf": v}
        R = lambda a: {"ref": a}
        # base {s: {}(placeholder), t: T}, updates {s: U1, t: U1 (shared)}, ...
        for basenode in ([["s", R(2)], ["t", R(3)]], [["s", R(2)]], []):
            for s_node in ([], [["x", L(1)]]):
                for shared in (True, False):
                    h0 = [basenode, [["s", R(4)], ["t", R(4 if shared else 5)]], s_node, [["y", L(2)]],
                          [["x", L(7)], ["z", L(8)]], [["x", L(9)]]]
                    yield {"kind": "heap", "h0": h0, "op": ["merge", 0, 1]}
                    yield {"kind": "heap", "h0": h0, "op": ["copy", 1]}
                    yield {"kind": "heap", "h0": h0, "op": ["clone", [0, 1, 3]]}
        intos = [None, {"new": 1}, {"k": 5, "a": {"q": 1}}]
        for pre in pres:
            for into in intos:
                for p1 in posts:
                    for p2 in (posts if tier == "thorough" else [[]]):
                        yield {"fs": [], "init": init, "pre": pre, "into": into,
                               "post": copy.deepcopy(p1 + p2)}

    # -- implementation --------------------------------------------------------
    @staticmethod
    def _as_c11(case):
        """a C06-shaped case (a witness of a finding registered for both properties):
        its history, then clone()"""
        if "pre" in case or case.get("kind") == "heap":
            return case
        return {"fs": case.get("fs", []), "init": case["init"], "pre": list(case.get("ops", [])),
                "into": None, "post": [], "into_const": False}

    def run_impl(self, case):
        case = self._as_c11(case)
        if case.get("kind") == "heap":
            return run_heap(case)
        rng = random.Random(1)
        s = Sess11({"fs": case["fs"], "init": case["init"], "ops": []}, keep_sources=True)
        try:
            try:
                cfg = s.construct()
            except Exception as e:
                return {"noobject": type(e).__name__}
            for n, op in enumerate(case["pre"]):
                s.last_pop = None
                cfg, out = s.try_op(cfg, op, rng)
                if cc.abnormal(out):
                    return {"aborted": n}
            tail = tail_label(case, s.last_pop)
            try:
                if case["into"] is None:
                    cl = cfg.clone()
                else:
                    cl = cfg.clone(into=cc.make_class(s.supply("into.global_defaults", case["into"]),
                                                      constant=bool(case.get("into_const"))))
            except Exception as e:
                return {"cloneerr": type(e).__name__}
            why = []

            def intact():
                ok = True
                for label, obj, snap in s.sources:
                    if label != "written" and obj != snap:
                        ok = False
                        why.append("source %s changed: %r -> %r" % (label, snap, obj))
                a, b = objs[False], objs[True]
                (da, la), (db, lb) = level_nodes(a), level_nodes(b)
                if da & db:
                    ok = False
                    why.append("original and clone share %d dict object(s)" % len(da & db))
                if la & lb:
                    ok = False
                    why.append("original and clone share %d list object(s) (leaves not copied)" % len(la & lb))
                for who, x in (("original", a), ("clone", b)):
                    _, cache_lists = level_nodes(x, ["_config"])
                    _, level_lists = level_nodes(x, LEVEL_ATTRS)
                    if cache_lists & level_lists:
                        ok = False
                        why.append("%s: the merged cache holds a level's own list object (leaf not copied)" % who)
                return ok
            objs = {False: cfg, True: cl}
            obs = {"lo": [cc.level_view(getattr(cfg, a)) for a in LEVEL_ATTRS],
                   "lc": [cc.level_view(getattr(cl, a)) for a in LEVEL_ATTRS],
                   "vo": cc.view_of(cfg), "vc": cc.view_of(cl), "intact": intact(), "post": []}
            handles = {False: s.handles, True: {}}
            for side, op in case["post"]:
                s.handles = handles[side]
                objs[side], out = s.try_op(objs[side], op, rng)      # a second clone replaces that side
                handles[side] = s.handles
                obs["post"].append({"out": out, "vo": cc.view_of(objs[False]), "vc": cc.view_of(objs[True]),
                                    "intact": intact()})
                if cc.abnormal(out):
                    break
            if why:
                obs["why"] = why[:3]
            if tail:
                obs["tail"] = tail
            return obs
        finally:
            s.close()

    def to_coq(self, case, obs):
        case = self._as_c11(case)
        if case.get("kind") == "heap":
            o = "(HErr %s)" % ct.err(obs["err"]) if "err" in obs else \
                "(HOk %s %s)" % (c_heap(obs["h1"]), ct.lst([ct.n(r) for r in obs["res"]]))
            return "(mkh %s %s %s)" % (c_heap(case["h0"]), c_hop(case["op"]), o)
        if "noobject" in obs:
            o = "(ONoObject %s)" % ct.err(obs["noobject"])
        elif "aborted" in obs:
            o = "(OAborted %s)" % ct.n(obs["aborted"])
        elif "cloneerr" in obs:
            o = "(OCloneErr %s)" % ct.err(obs["cloneerr"])
        else:
            post = ct.lst(["(%s, %s, %s, %s)" % (cc.c_outcome(p["out"]), cc.c_tree(p["vo"]),
                                                  cc.c_tree(p["vc"]), ct.b(p["intact"]))
                           for p in obs["post"]])
            o = "(OCloned %s %s %s %s %s %s)" % (
                ct.lst([cc.c_tree(t) for t in obs["lo"]]), ct.lst([cc.c_tree(t) for t in obs["lc"]]),
                cc.c_tree(obs["vo"]), cc.c_tree(obs["vc"]), ct.b(obs["intact"]), post)
        into = ct.opt(None if case["into"] is None else cc.c_tree(case["into"]))
        post_ops = ct.lst(["(%s, %s)" % (ct.b(side), cc.c_sop(op)) for side, op in case["post"]])
        return "(mk %s %s %s %s %s %s)" % (cc.c_fs(case["fs"]), cc.c_init(case["init"]),
                                           cc.c_sops(case["pre"]), into, post_ops, o)

    # -- statistics / findings ---------------------------------------------------
    def nontrivial(self, case, obs):
        if case.get("kind") == "heap":
            return "h1" in obs and (heap_shared(case["h0"]) or any(not n for n in case["h0"]))
        names = [(o[2] if o[0] == "via" else o)[0] for o in case["pre"]]
        nested = any((o[2] if o[0] == "via" else o)[0] in ("set", "update", "setdefault")
                     and ((o[2] if o[0] == "via" else o)[2] or o[0] == "via") for o in case["pre"])
        return bool(case["post"]) and "vo" in obs and \
            (nested or any(n in ("del", "pop", "popitem", "clear") for n in names))

    def classify(self, case, obs):
        if case.get("kind") == "heap":
            return "heap:%s%s%s" % (case["op"][0], "+shared" if heap_shared(case["h0"]) else "",
                                    "+err:" + obs["err"] if "err" in obs else "")
        if "vo" not in obs:
            return next(iter(obs))
        if obs.get("tail"):       # what stands right before the clone
            return "clone%s right after %s" % ("-into" if case["into"] is not None else "", obs["tail"])
        return "clone%s post:%s" % ("-into" if case["into"] is not None else "",
                                    "0" if not case["post"] else ("1-4" if len(case["post"]) <= 4 else "5+"))

    def finding_of(self, case, obs):
        if case.get("kind") == "heap" or "vo" not in obs:
            return None
        # known findings concern what the clone READS; sources must be intact and nothing shared throughout
        if not obs["intact"] or not all(p["intact"] for p in obs["post"]):
            return None
        # ... and later operations must stay independent (the untouched side unchanged)
        vo, vc = obs["vo"], obs["vc"]
        for (side, _), p in zip(case["post"], obs["post"]):
            if (side and p["vo"] != vo) or (not side and p["vc"] != vc):
                return None
            vo, vc = p["vo"], p["vc"]
        from .c06 import overlay
        differ = [i for i in range(len(LEVEL_ATTRS)) if obs["lo"][i] != obs["lc"][i]
                  and (obs["lo"][i] or obs["lc"][i])]
        d_o = cc.unjson(obs["lo"][0]) or {}
        g = cc.unjson(case["into"]) if case["into"] is not None else None
        into_overrides = False
        if 0 in differ and g is not None:
            d_c = cc.unjson(obs["lc"][0])
            if d_c == overlay(g, d_o):
                differ.remove(0)              # the union, ours winning: as specified
            elif d_c == overlay(d_o, g):
                differ.remove(0)              # the subclass' defaults on top: F-C11b
                into_overrides = True
        # F-C11c: the original was lazy and never loaded a base conf level whose file holds data:
        # only the system/user levels differ
        lazy_loaded = False
        if case["init"].get("lazy") and differ and set(differ) <= {2, 3}:
            names = [o[0] for o in case["pre"]]
            for loc, opname, idx in (("sys", "load_system", 2), ("usr", "load_user", 3)):
                has_data = any(l == loc and e.get("data") for l, _, e in case["fs"])
                if idx in differ and not (has_data and opname not in names and not obs["lo"][idx]):
                    return None
            lazy_loaded = True
            differ = []
        if differ:
            return None
        if lazy_loaded:
            return "F-C11c"
        if into_overrides:
            return "F-C11b"
        return None

    def shrink_candidates(self, case):
        if case.get("kind") == "heap":
            h = case["h0"]
            for a, node in enumerate(h):
                for i in range(len(node)):
                    yield dict(case, h0=h[:a] + [node[:i] + node[i + 1:]] + h[a + 1:])
            return
        # big cuts first (each round costs one shard evaluation)
        if case["post"]:
            yield dict(case, post=[])
        n = len(case["pre"])
        for cut in (n - 1, n - 2, (3 * n) // 4, n // 2, n // 4):
            if 0 < cut < n:
                yield dict(case, pre=case["pre"][cut:])
        if case["fs"]:
            yield dict(case, fs=[])
        for key in ("pre", "post"):          # blocks (halves, quarters, eighths) before single operations
            ops = case[key]
            for size in (len(ops) // 2, len(ops) // 4, len(ops) // 8):
                if size >= 2:
                    for a in range(0, len(ops), size):
                        yield dict(case, **{key: ops[:a] + ops[a + size:]})
        for key in ("post", "pre"):
            ops = case[key]
            for i in range(len(ops)):
                yield dict(case, **{key: ops[:i] + ops[i + 1:]})
        if case["into"] is not None:
            yield dict(case, into=None)
            for t in cc.shrink_tree(case["into"]):
                yield dict(case, into=t)
        for c in cc.shrink_common(dict(case, ops=[])):
            c = dict(c)
            c.pop("ops", None)
            yield c

    def mutate(self, case, rng):
        if case.get("kind") == "heap":
            for _ in range(20):
                yield gen_heap_case(rng)
            return
        paths = [p for p, _ in gt.leaf_paths(cc.unjson(case["init"].get("defaults") or {})) if p]
        for p in [q[:n] for q in paths for n in range(1, len(q) + 1)][:12]:
            c = copy.deepcopy(case)          # a removal right before the clone, default = the stored object
            c["pre"].append(["pop", rng.choice(["item", "attr"]), list(p[:-1]), p[-1], {"d": None, "same": 1}])
            c["post"] = [[False, ["contains", "item", list(p[:-1]), p[-1]]],
                         [True, ["contains", "item", list(p[:-1]), p[-1]]]] + c["post"]
            yield c
        for _ in range(20):
            c = copy.deepcopy(case)
            if c["pre"] and rng.random() < 0.5:
                i = rng.randrange(len(c["pre"]))
                c["post"].append([rng.random() < 0.5, c["pre"][i]])
            elif c["post"]:
                i = rng.randrange(len(c["post"]))
                c["post"][i][0] = not c["post"][i][0]
            else:
                c["post"].append([True, ["set", "item", [], "k", 1]])
            yield c

    # -- Collection.configuration(): handed-out mappings --------------------------
    def extra_checks(self, tier, seed):
        return [self.check_collection(seed, 150 if tier == "quick" else 2000)]

    def check_collection(self, seed, n):
        from invoke.collection import Collection
        from invoke.tasks import Task
        rng = random.Random(seed + 11)
        res = {"name": "collection-configuration-snapshots", "evaluations": 0, "failures": [],
               "note": "snapshot test: mappings handed out by Collection.configuration() vs operations on the "
                       "Config they were loaded into, and mutation of the handed-out mapping vs the collection"}

        def body(c):
            pass
        for _ in range(n):
            sch = cc.schema(rng, depth=rng.choice([2, 3, 4]), width=3,
                            kinds=rng.choice(["nbislt", "nbislt", "nbisleB"]))
            # root -> sub -> deep, each with its own configuration; default tasks so that the
            # collection names themselves ("sub", "sub.deep") are task paths too
            root, sub, deep = Collection("root"), Collection("sub"), Collection("deep")
            deep.add_task(Task(body, name="t"), default=True)
            sub.add_task(Task(body, name="t"), default=True)
            sub.add_collection(deep)
            root.add_task(Task(body, name="top"))
            root.add_collection(sub)
            handed_in = {}
            for name, coll in (("root", root), ("sub", sub), ("deep", deep)):
                data = cc.unjson(cc.instance(rng, sch, 0.7))     # sets / bytearrays as real objects
                handed_in[name] = (data, copy.deepcopy(data))
                coll.configure(data)              # the caller keeps ``data``
            path = rng.choice([None, "top", "sub.t", "sub", "sub.deep.t", "sub.deep"])
            before = copy.deepcopy(root.configuration(path))
            handed = root.configuration(path)
            snap = copy.deepcopy(handed)
            case = {"fs": [], "init": {"defaults": cc.jsonable(cc.instance(rng, sch, 0.5)), "lazy": False},
                    "ops": []}
            s = cc.Session(case)
            try:
                cfg = s.construct()
                cfg.load_collection(handed)
                g = Gen(rng)
                g.sch = sch
                # path operations interleaved with reloads, load_shell_env and clones; after a
                # clone both objects are operated on (the handed-out mapping must survive all)
                ops, cfgs = [], [cfg]
                for _ in range(rng.randint(1, 10)):
                    r = rng.random()
                    if r < 0.2:
                        ops.extend(g.reload())
                    elif r < 0.3:
                        ops.append(["clone", None if rng.random() < 0.7 else g.inst(0.3)])
                    elif r < 0.36:
                        ops.append(["load_collection", None])      # the handed-out mapping again
                    else:
                        ops.append(g.path_op())
                ops = [o for o in ops if o[0] not in ("update_proxy",)]
                for op in ops:
                    if op[0] == "clone":
                        new, _ = s.try_op(cfgs[-1], op, rng)
                        cfgs.append(new)
                        continue
                    if op[0] == "load_collection" and op[1] is None:
                        try:
                            rng.choice(cfgs).load_collection(handed)
                        except Exception:
                            pass
                        continue
                    i = rng.randrange(len(cfgs))
                    cfgs[i], _ = s.try_op(cfgs[i], op, rng)
                # in-place edits of mutable leaves read through the configs
                for cfg in cfgs:
                    for pth, v in list(gt.leaf_paths(gt.deep_view(cfg))):
                        if isinstance(v, (list, set, bytearray)) and rng.random() < 0.5:
                            cur = cfg
                            for k in pth[:-1]:
                                cur = cur[k]
                            x = cur[pth[-1]]
                            if isinstance(x, list):
                                x.append("SCRIBBLE")
                            elif isinstance(x, set):
                                x.add("SCRIBBLE")
                            else:
                                x.extend(b"SCRIBBLE")
                res["evaluations"] += 1
                what = None
                if handed != snap:
                    what = "mapping handed out by configuration(%r) changed by Config operations: %r -> %r" \
                        % (path, snap, handed)
                for name, (data, dsnap) in handed_in.items():
                    if data != dsnap:
                        what = "data handed to Collection(%s).configure() changed: %r -> %r" % (name, dsnap, data)
                if root.configuration(path) != before:
                    what = "collection configuration changed by Config operations"
                if what:
                    res["failures"].append({"case": {"path": path, "ops": repr(ops)}, "what": what})
                    break

                # mutate what was handed out / handed in, re-read the collection
                def scribble(d):
                    for k in list(d):
                        if isinstance(d[k], dict):
                            scribble(d[k])
                        elif isinstance(d[k], list):
                            d[k].append("SCRIBBLE")
                        elif isinstance(d[k], set):
                            d[k].add("SCRIBBLE")
                        elif isinstance(d[k], bytearray):
                            d[k].extend(b"SCRIBBLE")
                        else:
                            d[k] = "SCRIBBLE"
                    d["__new__"] = 1
                scribble(handed)
                for data, _ in handed_in.values():
                    scribble(data)
                again = root.configuration(path)
                if again != before:
                    res["failures"].append({"case": {"path": path},
                                            "what": "mutating the mapping returned by configuration(%r) (or the data "
                                                    "given to configure()) changed the collection: %r -> %r"
                                                    % (path, before, again)})
                    break
            finally:
                s.close()
        return res


PROP = C11()
