"""C19: each task sees its own namespace settings; session edits persist safely."""
import itertools
import time
import os
import random

from .. import config_common as cc
from .. import coqterm as ct
from .. import gen_tree as gt
from .. import ns
from ..core import Prop


class _Abort(Exception):
    """a body met an error the config model does not continue after"""

    def __init__(self, cls):
        Exception.__init__(self, cls)
        self.cls = cls


# --------------------------------------------------------------------------
# helpers over the JSON case
# --------------------------------------------------------------------------
def task_infos(spec, out=None):
    out = {} if out is None else out
    for it in spec.get("items", []):
        if "task" in it:
            out[it["task"]["id"]] = it["task"]
        else:
            task_infos(it["coll"], out)
    return out


def homes(d, path=(), out=None):
    """task id -> list of the configurations from the root to where it is bound"""
    out = {} if out is None else out
    here = path + (d["config"],)
    for _, t in d["tasks"]:
        out.setdefault(t["id"], here)
    for _, s in d["subs"]:
        homes(s, here, out)
    return out


def primary_names(d, prefix="", out=None):
    """task id -> one dotted primary name"""
    out = {} if out is None else out
    for k, t in d["tasks"]:
        out.setdefault(t["id"], prefix + k)
    for k, s_ in d["subs"]:
        primary_names(s_, prefix + k + ".", out)
    return out


def _all_paths(t, pre=()):
    for k, v in t.items():
        yield pre + (k,), isinstance(v, dict)
        if isinstance(v, dict):
            yield from _all_paths(v, pre + (k,))


def session_calls(case, req_tids, dflt_tid):
    """mirror of the executor's expansion (only to classify): [(tid, called_as)]"""
    hooks = case["hooks"]

    def expand(tid, called_as, out):
        h = hooks.get(str(tid), {})
        for p in h.get("pre", []):
            expand(p, None, out)
        out.append((tid, called_as))
        for p in h.get("post", []):
            expand(p, None, out)
    def one_execute(pairs):
        out = []
        if pairs:
            for nm, tid in pairs:
                expand(tid, nm, out)
        elif dflt_tid is not None:
            expand(dflt_tid, None, out)
        if case["dedupe"]:
            kept, seen = [], set()
            for c in out:
                if c[0] not in seen:
                    seen.add(c[0])
                    kept.append(c)
            out = kept
        return out
    pairs = list(zip(case["requests"], req_tids))
    k = case.get("split") or 0
    if k:      # two execute() calls on one Executor
        return one_execute(pairs[:k]) + one_execute(pairs[k:])
    return one_execute(pairs)


def _convertible_env(case):
    """"environment values are convertible" also for the settings bodies create: no environment variable
    names a NEW key containing an underscore, unless its value is "1" (fine for every leaf type)"""
    made = set("INVOKE_" + "_".join(list(op[2]) + [op[3]]).upper()
               for ops in case["bodies"].values() for op in ops
               if op[0] in ("set", "setdefault", "pop") and isinstance(op[3], str) and "_" in op[3])
    if not made:
        return case
    return dict(case, envs=[dict((k, x) for k, x in e.items() if k not in made or x == "1") for e in case["envs"]])


def _dict_write(op):
    return (op[0] == "set" and isinstance(op[4], dict)) or \
        (op[0] == "update" and any(isinstance(v, dict) for _, v in op[3])) or \
        (op[0] == "setdefault" and op[4] is not None and isinstance(op[4]["d"], dict))


class C19(Prop):
    id = "C19"
    corr_module = "Corr.C19Corr"
    preds = ("corr", "spec", "adj_fc19", "adj_fc06a", "adj_both", "adj_fc19c", "adj_fc19c_all")
    quick_n = 700
    thorough_n = 12000
    shard_size = 60
    rule = ("random namespace trees (depth<=3, one configuration per collection drawn from a per-case settings schema, so "
            "levels are type-consistent; default tasks / default sub-collections) x Config(defaults, overrides) x "
            "pre/post hooks between tasks of different sub-collections x per-task bodies of 0-3 edits (leaf writes to "
            "existing and new settings, deletions of settings and of whole sections, pops, reads; item and attribute "
            "syntax; new settings whose variable name an existing setting has) x 0-3 requests by name/alias/shortcut (or none: default task), 20% of the multi-request sessions as two execute() calls on one Executor x dedupe on/off x a different "
            "environment for every executed call; observed: deep view on entry and on exit of every body; non-trivial = "
            ">=2 bodies executed, from >=2 different collections, and >=1 successful edit before the last body")
    trusted_base = [
        "Coq 8.16.1 kernel + vm_compute (shard evaluation)",
        "hand-written models coq/Model/SessionModel.v (executor loop), CollModel.v, ConfigModel.v (+Merge/Env) tied to "
        "invoke/executor.py, collection.py, config.py by differential execution of real Executor sessions (this run)",
        "harness/coqterm.py, harness/ns.py, harness/config_common.py (op driver, printers), harness/props/c19.py",
        "CPython 3.12 executing /repo; os.environ swapped by the harness between bodies",
    ]
    assumptions = [
        "tasks take no arguments; each task is bound in exactly one collection (its namespace path is unique)",
        "bodies edit settings with leaf values only (dict-valued writes: C06, F-C06a) and navigate from the root",
        "environment values are convertible; no two settings of the LEVELS (defaults, overrides, collection "
        "configurations) share a variable name (C16's subject: the load is documented to refuse) -- bodies do "
        "create such pairs by writing new settings (db_host next to db.host), that is inside the statement",
        "no configuration files (system/user/project/runtime levels empty)",
        "sessions of two execute() calls keep the default tasks.dedupe (every execute() re-reads it from the "
        "configuration as edited so far; the dedupe switch of a case is fixed per session in the model)",
        "setting keys of the levels are lower-case identifiers without underscores; keys written by bodies may "
        "contain underscores",
    ]
    not_modelled = ["Context objects other than their .config",
                    "configuration files during a session (system/user/project/runtime levels stay empty; their "
                    "precedence is C03's subject)",
                    "proxies of sections held in a variable across tasks (C06's held-proxy statements cover one Config; "
                    "after the executor's reloads a held proxy is stale -- not specified here)",
                    "Call subclasses"]

    # ---- generation --------------------------------------------------------
    def _leaf_paths(self, sch, pre=()):
        for k, v in sch.items():
            if isinstance(v, dict):
                yield from self._leaf_paths(v, pre + (k,))
            else:
                yield pre + (k,), v

    def _gen_op(self, rng, sch):
        fl = rng.choice(["item", "item", "attr"])
        leaves = list(self._leaf_paths(sch))
        secs = [p for p, sec in cc.schema_paths(sch) if sec]
        def newkey():
            return rng.choice(["newkey", "zz", "fresh", "new_key"])

        deep = [p for p, _ in leaves if len(p) >= 2]
        if deep and rng.random() < 0.06:
            # a NEW setting whose environment-variable name an existing setting already has:
            # db_host next to db.host (written in the section holding the rest of the path)
            p = rng.choice(deep)
            cut = rng.randrange(0, len(p) - 1)
            return ["set", fl, list(p[:cut]), "_".join(p[cut:]), gt.jsonable(gt.leaf(rng, "is"))]
        r = rng.random()
        if r < 0.30 and leaves:
            p, kind = rng.choice(leaves)
            return ["set", fl, list(p[:-1]), p[-1], gt.jsonable(gt.leaf(rng, kind))]
        if r < 0.38:
            kp = list(rng.choice(secs)) if secs and rng.random() < 0.5 else []
            return ["set", fl, kp, newkey(), gt.jsonable(gt.leaf(rng, "bis"))]
        if r < 0.50 and leaves:
            p, _ = rng.choice(leaves)
            return [rng.choice(["del", "del", "pop"]), fl, list(p[:-1]), p[-1]]
        if r < 0.56 and secs:
            p = rng.choice(secs)
            return ["del", fl, list(p[:-1]), p[-1]]
        if r < 0.66:
            # update: a few settings of one section at once, in one of the three call styles
            kp = list(rng.choice(secs)) if secs and rng.random() < 0.6 else []
            sub = sch
            for k in kp:
                sub = sub[k]
            kvs = [[k, gt.jsonable(gt.leaf(rng, v))] for k, v in sub.items() if not isinstance(v, dict) and rng.random() < 0.6]
            if rng.random() < 0.4:
                kvs.append([newkey(), gt.jsonable(gt.leaf(rng, "is"))])
            return ["update", fl, kp, kvs, rng.choice(["dict", "kwargs", "pairs"])]
        if r < 0.74 and leaves:
            p, kind = rng.choice(leaves)
            k = p[-1] if rng.random() < 0.6 else newkey()
            return ["setdefault", fl, list(p[:-1]), k, {"d": gt.jsonable(gt.leaf(rng, kind))} if rng.random() < 0.8 else None]
        if r < 0.79 and secs:
            return ["clear", fl, list(rng.choice(secs))]
        if r < 0.84:
            return ["popitem", fl, list(rng.choice(secs)) if secs and rng.random() < 0.7 else []]
        if r < 0.88 and leaves:
            p, kind = rng.choice(leaves)
            return ["pop", fl, list(p[:-1]), p[-1] if rng.random() < 0.6 else newkey(), {"d": gt.jsonable(gt.leaf(rng, kind))}]
        if r < 0.93:
            # a dict-valued write: a whole (new or existing) section at once
            if secs and rng.random() < 0.6:
                p = rng.choice(secs)
                sub = sch
                for k in p:
                    sub = sub[k]
                return ["set", fl, list(p[:-1]), p[-1], gt.jsonable(cc.instance(rng, sub, p_keep=0.6, same_kind=1.0))]
            return ["set", fl, [], newkey() + "sec", {"q": gt.jsonable(gt.leaf(rng, "is"))}]
        if leaves:
            p, _ = rng.choice(leaves)
            return ["get", fl, list(p[:-1]), p[-1]]
        return ["get", fl, [], "nothing"]

    def _fix_ops(self, ops):
        out = []
        for o in ops:
            if o[0] == "pop" and len(o) == 4:
                o = o + [None]
            out.append(o)
        return out

    def _gen(self, rng):
        sch = cc.schema(rng, depth=rng.choice([2, 3]), width=3, kinds="nbis", p_section=0.5)
        ids = ns.Ids()
        spec = ns.gen_coll(rng, rng.choice([2, 2, 3]), ids, name=None, clean=True, p_extra=0.0, p_rename=0.2,
                           p_subdefault=0.3, p_default=0.8)

        def reconfig(sp):
            sp["config"] = gt.jsonable(cc.instance(rng, sch, p_keep=rng.choice([0.3, 0.6]), same_kind=1.0))
            for it in sp["items"]:
                if "coll" in it:
                    reconfig(it["coll"])
        reconfig(spec)
        infos = task_infos(spec)
        tids = sorted(infos)
        hooks = {}
        for i, t in enumerate(tids):
            later = tids[i + 1:]
            h = {"pre": [], "post": []}
            for kind in ("pre", "post"):
                for _ in range(rng.choice([0, 0, 1, 1, 2])):
                    if later:
                        h[kind].append(rng.choice(later))
            if h["pre"] or h["post"]:
                hooks[str(t)] = h
        bodies = {}
        for t in tids:
            ops = [self._gen_op(rng, sch) for _ in range(rng.choice([0, 1, 1, 2, 3]))]
            if ops:
                bodies[str(t)] = self._fix_ops(ops)
        _, st = ns.build_and_dump(spec)
        names = ns.resolvable_names(st["ok"]) if "ok" in st else []
        reqs = [rng.choice(names) for _ in range(rng.choice([0, 1, 2, 2, 3]))] if names else []
        dedupe = rng.random() < 0.75
        overrides = gt.jsonable(cc.instance(rng, sch, p_keep=0.25, same_kind=1.0))
        if not dedupe:
            overrides = dict(overrides, tasks={"dedupe": False})
        envs = [cc.env_for(rng, sch, p_set=rng.choice([0.2, 0.5]), p_bad=0.0) for _ in range(rng.randint(1, 4))]
        # "environment values are convertible" also for the settings bodies create: no environment
        # variable names a NEW key containing an underscore (the directed clash cases set one, convertibly)
        made = set("INVOKE_" + "_".join(list(op[2]) + [op[3]]).upper()
                   for ops in bodies.values() for op in ops
                   if op[0] in ("set", "setdefault", "pop") and isinstance(op[3], str) and "_" in op[3])
        if made:
            envs = [dict((k, x) for k, x in e.items() if k not in made) for e in envs]
        if any(_dict_write(op) for ops in bodies.values() for op in ops):
            # dict-valued writes are merged instead of replacing (F-C06a, known): which of the merged-in
            # settings then carry an environment override depends on load timing -- such sessions run
            # without environment overrides so that the adjusted judgement stays exact
            envs = [{}]
        return {"script": spec, "hooks": hooks, "bodies": bodies, "requests": reqs, "dedupe": dedupe,
                "via_ctx": rng.random() < 0.5, "req_form": rng.choice(["str", "pair", "ctx", "ctx"]),
                "init": {"defaults": gt.jsonable(cc.instance(rng, sch, p_keep=0.6, same_kind=1.0)),
                         "overrides": overrides},
                "envs": envs}

    def _directed(self, rng, case):
        """write-then-delete of a setting that only *another* collection defines, then a task of that
        collection (and the symmetric delete-then-write): the edit must survive the swap of the
        collection level"""
        _, st = ns.build_and_dump(case["script"])
        if "ok" not in st:
            return case
        d = st["ok"]
        hm = homes(d)
        names = primary_names(d)
        tids = [t for t in hm if t in names]
        rng.shuffle(tids)
        base = [case["init"]["defaults"], case["init"]["overrides"]]
        for ta, tb in itertools.permutations(tids, 2):
            if hm[ta] == hm[tb]:
                continue
            here = set()
            secs = {()}
            for lvl in base + list(hm[ta]):
                t = gt.unjson(lvl)
                here.update(p for p, _ in gt.leaf_paths(t))
                secs.update(tuple(p) for p, sec in _all_paths(t) if sec)
            cands = []
            for lvl in hm[tb]:
                for p, v in gt.leaf_paths(gt.unjson(lvl)):
                    if p not in here and p[:-1] in secs and not isinstance(v, (list, tuple)):
                        cands.append((p, v))
            if not cands:
                continue
            p, v = rng.choice(cands)
            fl = rng.choice(["item", "attr"])
            w = ["set", fl, list(p[:-1]), p[-1], gt.jsonable(v if rng.random() < 0.5 else gt.leaf(rng, "is"))]
            dl = [rng.choice(["del", "pop"]), fl, list(p[:-1]), p[-1]]
            ops = [w, dl] if rng.random() < 0.7 else [w, dl, w]
            bodies = dict(case["bodies"])
            bodies[str(ta)] = self._fix_ops(ops + (bodies.get(str(ta), []) if rng.random() < 0.3 else []))
            bodies.pop(str(tb), None)
            var = "INVOKE_" + "_".join(p).upper()
            envs = [dict((k, x) for k, x in e.items() if k != var) for e in case["envs"]]
            return dict(case, bodies=bodies, requests=[names[ta], names[tb]], envs=envs, hooks={})
        return case

    def _directed_env(self, rng, case):
        """an environment variable naming a setting that only the *first* task's collection defines stays
        set while a task of another collection runs (the former F-C19b: stale environment level)"""
        _, st = ns.build_and_dump(case["script"])
        if "ok" not in st:
            return case
        d = st["ok"]
        hm = homes(d)
        names = primary_names(d)
        tids = [t for t in hm if t in names]
        rng.shuffle(tids)
        base = [case["init"]["defaults"], case["init"]["overrides"]]
        for ta, tb in itertools.permutations(tids, 2):
            if hm[ta] == hm[tb]:
                continue
            there = set()
            for lvl in base + list(hm[tb]):
                there.update(p for p, _ in gt.leaf_paths(gt.unjson(lvl)))
            cands = [(p, v) for lvl in hm[ta] for p, v in gt.leaf_paths(gt.unjson(lvl))
                     if p not in there and not isinstance(v, (list, tuple))]
            if not cands:
                continue
            p, v = rng.choice(cands)
            val = rng.choice(["0", "1", "5"]) if isinstance(v, int) and not isinstance(v, bool) else rng.choice(["1", "", "abc"])
            env = {"INVOKE_" + "_".join(p).upper(): val}
            reqs = [names[ta], names[tb]] + ([names[ta]] if rng.random() < 0.3 else [])
            return dict(case, requests=reqs, envs=[env] if rng.random() < 0.6 else [env, env, {}], hooks={})
        return case

    def _directed_clash(self, rng, case):
        """the first requested task writes a new setting whose variable name an existing setting has
        (db_host while db.host exists), another task follows; the environment may or may not set it"""
        _, st = ns.build_and_dump(case["script"])
        if "ok" not in st:
            return case
        d = st["ok"]
        names = primary_names(d)
        tids = sorted(names)
        if len(tids) < 2:
            return case
        ta, tb = rng.sample(tids, 2)
        paths = set()
        for lvl in [case["init"]["defaults"], case["init"]["overrides"], d["config"]]:
            paths.update(p for p, v in gt.leaf_paths(gt.unjson(lvl)) if len(p) >= 2)
        if not paths:
            return case
        p = rng.choice(sorted(paths))
        cut = rng.randrange(0, len(p) - 1)
        w = ["set", rng.choice(["item", "attr"]), list(p[:cut]), "_".join(p[cut:]), rng.choice([1, "x", True])]
        bodies = dict(case["bodies"])
        bodies[str(ta)] = self._fix_ops([w] + (bodies.get(str(ta), []) if rng.random() < 0.3 else []))
        var = "INVOKE_" + "_".join(p).upper()
        envs = [dict((k, x) for k, x in e.items() if k != var) for e in case["envs"]]
        if rng.random() < 0.2:
            envs = [dict(e, **{var: "1"}) for e in envs]        # ... and the variable IS set: C16's refusal
        return dict(case, bodies=bodies, requests=[names[ta], names[tb]], envs=envs, hooks={})

    def generate(self, rng, tier, n):
        for _ in range(n):
            case = self._gen(rng)
            r = rng.random()
            if r < 0.25:
                case = self._directed(rng, case)
            elif r < 0.4:
                case = self._directed_env(rng, case)
            elif r < 0.47:
                case = self._directed_clash(rng, case)
            case = _convertible_env(case)
            if any(_dict_write(op) for ops in case["bodies"].values() for op in ops) and case["envs"] != [{}]:
                case = dict(case, envs=[{}])      # (see _gen: dict-valued writes run without environment overrides)
            if len(case["requests"]) >= 2 and case["dedupe"] and rng.random() < 0.25:
                # the requests handed to ONE Executor in two execute() calls: the session goes on
                case = dict(case, split=rng.randint(1, len(case["requests"]) - 1))
            yield case

    def enumerate_small(self, tier):
        """root{k:{x:R,top:1}} > a{k:{x:A,a:1}} > t1 ; b{k:{x:B}} > t2 ; every hook relation between t1, t2 and a
        root task t0, every single edit of k.x / k in the first body, every request pair, two environments"""
        t = lambda i, nm: {"id": i, "name": nm, "aliases": [], "default": False}
        sub = lambda nm, cfg, task, dflt: {"coll": {"name": nm, "auto_dash": True, "config": cfg,
                                                    "items": [{"task": task, "bind": None, "aliases": [], "default": dflt}]},
                                           "bind": None, "default": False}
        spec = {"name": None, "auto_dash": True, "config": {"k": {"x": 0, "top": 1}},
                "items": [{"task": t(0, "t0"), "bind": None, "aliases": [], "default": True},
                          sub("a", {"k": {"x": 1, "a": 1}}, t(1, "t1"), True),
                          sub("b", {"k": {"x": 2}}, t(2, "t2"), None)]}
        edits = [[], [["set", "item", ["k"], "x", 9]], [["del", "item", ["k"], "x"]], [["del", "attr", [], "k"]],
                 [["set", "item", ["k"], "n", 5], ["del", "item", ["k"], "top"]]]
        hookings = [{}, {"0": {"pre": [1], "post": [2]}}, {"1": {"pre": [2], "post": []}},
                    {"0": {"pre": [], "post": [1]}, "1": {"pre": [], "post": [2]}}]
        reqsets = [[], ["t0"], ["a.t1", "b.t2"], ["b.t2", "a"], ["a", "t0"]]
        for ed, hk, rq in itertools.product(edits, hookings, reqsets):
            first = {"[]": "0"}.get(str(rq), None)
            for who in ("0", "1", "2"):
                yield {"script": spec, "hooks": hk, "bodies": {who: ed} if ed else {}, "requests": rq,
                       "dedupe": True, "init": {"defaults": {"k": {"x": -1, "d": 0}}, "overrides": {}},
                       "envs": [{}, {"INVOKE_K_X": "7"}]}
                if not ed:
                    break

    # ---- implementation ------------------------------------------------------
    def run_impl(self, case):
        from invoke import Executor, Task
        infos = task_infos(case["script"])
        records = []
        state = {"k": 0}
        sess = cc.Session({"fs": [], "init": dict(case["init"], proj=None, rt=None, lazy=False)})
        envs = case["envs"] or [{}]
        saved = dict(os.environ)

        def set_env(k):
            os.environ.clear()
            os.environ.update(envs[min(k, len(envs) - 1)])

        def on_call(tid, ctx, args, kwargs):
            cfg = ctx.config
            target = ctx if case.get("via_ctx") else cfg      # edits through the Context proxy or its .config
            v0 = cc.view_of(cfg)
            outs = []
            rec = [tid, v0, outs, None]
            records.append(rec)
            for op in case["bodies"].get(str(tid), []):
                _, out = sess.try_op(target, op)
                outs.append(out)
                if cc.abnormal(out):
                    rec[3] = cc.view_of(cfg)
                    raise _Abort(out["err"])
            rec[3] = cc.view_of(cfg)
            state["k"] += 1
            set_env(state["k"])
            return None

        b = ns.Builder(on_call=on_call, sigs=_NoArgs())
        try:
            # task objects, highest id first, so that hooks can refer to them
            for tid in sorted(infos, reverse=True):
                h = case["hooks"].get(str(tid), {})
                b.task_kwargs[tid] = {"pre": [b.tasks[p] for p in h.get("pre", [])],
                                      "post": [b.tasks[p] for p in h.get("post", [])]}
                b.task(infos[tid])
            coll, st = ns.build_and_dump(case["script"], b)
            obs = {"state": st, "req_tids": None, "dflt_tid": None}
            if coll is None:
                return obs
            try:
                obs["req_tids"] = [ns.task_id(coll[nm]) for nm in case["requests"]]
                obs["dflt_tid"] = ns.task_id(coll[coll.default]) if coll.default else None
            except Exception as e:  # a request that does not resolve: not a C19 case
                obs["req_tids"] = None
                obs["bad_request"] = type(e).__name__
                return obs
            try:
                cfg = sess.construct()
            except Exception as e:  # noqa
                obs["err"] = type(e).__name__
                return obs
            set_env(0)
            escaped = None
            form = case.get("req_form", "str")
            reqs = list(case["requests"])
            names = list(case["requests"])
            if form == "pair":
                reqs = [(nm, {}) for nm in names]
            elif form == "ctx" and names:
                # the whole request list as ONE command line
                try:
                    from invoke.parser import Parser
                    parsed = Parser(contexts=coll.to_contexts()).parse_argv(list(names))
                    if len(parsed) == len(names):
                        reqs = list(parsed)
                        names = [p.name for p in parsed]      # what the executor will call them as
                except Exception:   # a name the command line does not accept (C10): plain strings
                    pass
            obs["req_names"] = names
            try:
                ex = Executor(coll, config=cfg)
                k = case.get("split") or 0
                if k:
                    ex.execute(*reqs[:k])
                    ex.execute(*reqs[k:])
                else:
                    ex.execute(*reqs)
            except _Abort as e:
                escaped = e.cls
            except RecursionError:
                escaped = "RecursionError"
            except Exception as e:  # noqa
                escaped = type(e).__name__
            obs["ok"] = {"records": records, "escaped": escaped}
            return obs
        finally:
            os.environ.clear()
            os.environ.update(saved)
            sess.close()

    # ---- Coq terms -------------------------------------------------------------
    def _scall(self, case, tid):
        h = case["hooks"].get(str(tid), {})
        return "(SCall %s %s %s)" % (ct.n(tid), ct.lst([self._scall(case, p) for p in h.get("pre", [])]),
                                     ct.lst([self._scall(case, p) for p in h.get("post", [])]))

    def to_coq(self, case, obs):
        init = cc.c_init(dict(case["init"], proj=None, rt=None, lazy=False))
        bodies = ct.lst([ct.pair(ct.n(int(t)), cc.c_ops(ops)) for t, ops in case["bodies"].items()])
        envs = ct.lst([cc.c_env(e) for e in (case["envs"] or [{}])])
        st = ct.result(obs["state"], ns.state)
        if obs.get("req_tids") is None:
            # build error or unusable request: compare the build only
            return "(mk %s %s %s [] None %s %s %s (Ok ([], None)) 0)" % (
                ns.sub(case["script"]), init, bodies, ct.b(case["dedupe"]), envs, st)
        reqs = ct.lst([ct.pair(ct.s(nm), self._scall(case, tid))
                       for nm, tid in zip(obs.get("req_names") or case["requests"], obs["req_tids"])])
        dflt = ct.opt(self._scall(case, obs["dflt_tid"]) if obs["dflt_tid"] is not None else None)
        if "ok" in obs:
            recs = ct.lst(["(%s, %s, %s, %s)" % (ct.n(r[0]), cc.c_tree(r[1]), ct.lst([cc.c_outcome(o) for o in r[2]]),
                                                 cc.c_tree(r[3] if r[3] is not None else {}))
                           for r in obs["ok"]["records"]])
            esc = obs["ok"]["escaped"]
            o = "(Ok (%s, %s))" % (recs, ct.opt(ct.err(esc) if esc is not None else None))
        else:
            o = "(Err %s)" % ct.err(obs.get("err", "Exception"))
        return "(mk %s %s %s %s %s %s %s %s %s %s)" % (
            ns.sub(case["script"]), init, bodies, reqs, dflt, ct.b(case["dedupe"]), envs, st, o,
            ct.n(case.get("split") or 0))

    # ---- classification ----------------------------------------------------------
    def _calls(self, case, obs):
        if obs.get("req_tids") is None:
            return []
        return session_calls(case, obs["req_tids"], obs["dflt_tid"])

    def nontrivial(self, case, obs):
        if "ok" not in obs or "ok" not in obs["state"]:
            return False
        recs = obs["ok"]["records"]
        if len(recs) < 2:
            return False
        hm = homes(obs["state"]["ok"])
        places = set(len(hm.get(r[0], ())) * 100 + id(hm.get(r[0], ((),))[-1]) % 97 for r in recs)
        edited = any(("err" not in o) and op[0] in ("set", "del", "pop", "update", "setdefault", "clear", "popitem")
                     for r in recs[:-1] for op, o in zip(case["bodies"].get(str(r[0]), []), r[2]))
        return len(set(str(hm.get(r[0])) for r in recs)) >= 2 and edited

    def classify(self, case, obs):
        if "err" in obs["state"]:
            return "build-err"
        if obs.get("req_tids") is None:
            return "bad-request"
        if "ok" not in obs:
            return "init-err"
        kinds = ["escaped" if obs["ok"]["escaped"] else "n=%d" % min(len(obs["ok"]["records"]), 4)]
        calls = self._calls(case, obs)
        if any(ca is None for _, ca in calls):
            kinds.append("hooks" if case["requests"] else "default")
        return ":".join(kinds)

    def finding_of(self, case, obs, verdict=None):
        """Signatures (which mechanism is present) are read off the case; the judgement is made in Coq:
        the finding is named only if the specification with that finding's expectation substituted
        accepts the observation.
        F-C19: an executed pre/post task or implicitly chosen default task lives below the root, in a place
        whose path carries collection-level settings -> judged against the root configuration.
        F-C06a (C06's finding): a successful dict-valued write -> judged as a merge."""
        if "ok" not in obs or "ok" not in obs["state"]:
            return None
        dictwrite = False
        for r in obs["ok"]["records"]:
            for op, o in zip(case["bodies"].get(str(r[0]), []), r[2]):
                if "err" in o:
                    continue
                if (op[0] == "set" and isinstance(op[4], dict)) or \
                   (op[0] == "update" and any(isinstance(v, dict) for _, v in op[3])) or \
                   (op[0] == "setdefault" and op[4] is not None and isinstance(op[4]["d"], dict)):
                    dictwrite = True
        unnamed = False
        hm = homes(obs["state"]["ok"])
        ran = set(r[0] for r in obs["ok"]["records"])
        for tid, called_as in self._calls(case, obs):
            if called_as is None and tid in ran:
                path = hm.get(tid, ())
                if len(path) > 1 and any(cfg for cfg in path[1:]):
                    unnamed = True
        v = verdict or {}
        if obs["ok"]["escaped"] == "AmbiguousEnvVar":
            # F-C19c: that error escaped at a reload, the model agrees (corr), every body that ran is as
            # specified and two settings of the last view / the tree's configurations share a variable
            # name (judged in Coq: adj_fc19c); with another finding's mechanism present, its lenient form
            if not v.get("corr"):
                return None
            if v.get("adj_fc19c"):
                return "F-C19c"
            if (unnamed or dictwrite) and v.get("adj_fc19c_all"):
                return "F-C19c"
            return None
        if unnamed and v.get("adj_fc19"):
            return "F-C19"
        if dictwrite and v.get("adj_fc06a"):
            return "F-C06a"
        if unnamed and dictwrite and v.get("adj_both"):
            return "F-C19"
        return None

    _shrink_t0 = None

    def shrink_candidates(self, case):
        # sessions are expensive to re-run: a bounded number of candidates per round, 75 s in all
        if self._shrink_t0 is None:
            self._shrink_t0 = time.time()
        if time.time() - self._shrink_t0 > 75:
            return iter(())
        return itertools.islice(self._shrink_all(case), 40)

    def _shrink_all(self, case):
        for i in range(len(case["requests"])):
            yield dict(case, requests=case["requests"][:i] + case["requests"][i + 1:])
        for t, ops in case["bodies"].items():
            for i in range(len(ops)):
                b2 = dict(case["bodies"])
                b2[t] = ops[:i] + ops[i + 1:]
                if not b2[t]:
                    del b2[t]
                yield dict(case, bodies=b2)
        for t, h in case["hooks"].items():
            for kind in ("pre", "post"):
                for i in range(len(h[kind])):
                    h2 = dict(h)
                    h2[kind] = h[kind][:i] + h[kind][i + 1:]
                    hk = dict(case["hooks"])
                    hk[t] = h2
                    yield dict(case, hooks=hk)
        if len(case["envs"]) > 1:
            yield dict(case, envs=case["envs"][:1])
        for i, e in enumerate(case["envs"]):
            for k in e:
                e2 = dict(e)
                del e2[k]
                yield dict(case, envs=case["envs"][:i] + [e2] + case["envs"][i + 1:])
        for key in ("defaults", "overrides"):
            for t2 in cc.shrink_tree(case["init"][key]):
                yield dict(case, init=dict(case["init"], **{key: t2}))
        used = set(int(t) for t in case["bodies"]) | set(int(t) for t in case["hooks"]) | \
            set(p for h in case["hooks"].values() for p in h["pre"] + h["post"])
        for sp in ns.shrink_spec(case["script"]):
            if used <= set(task_infos(sp)):
                yield dict(case, script=sp)

    def mutate(self, case, rng):
        _, st = ns.build_and_dump(case["script"])
        names = ns.resolvable_names(st["ok"]) if "ok" in st else []
        for _ in range(25):
            if names:
                yield dict(case, requests=[rng.choice(names) for _ in range(rng.randint(1, 3))])


class _NoArgs(dict):
    def get(self, k, default=None):
        return ""


PROP = C19()
