"""C19: each task sees its own namespace settings; session edits persist safely."""
import itertools
import json
import time
import os
import random

from .. import config_common as cc
from .. import coqterm as ct
from .. import gen_tree as gt
from .. import ns
from ..core import Prop


class _Abort(Exception):
    """a body met an error the config model does not continue after"""

    def __init__(self, cls):
        Exception.__init__(self, cls)
        self.cls = cls


# --------------------------------------------------------------------------
# helpers over the JSON case
# --------------------------------------------------------------------------
def task_infos(spec, out=None):
    out = {} if out is None else out
    for it in spec.get("items", []):
        if "task" in it:
            out[it["task"]["id"]] = it["task"]
        else:
            task_infos(it["coll"], out)
    return out


def homes(d, path=(), out=None):
    """task id -> list of the configurations from the root to where it is bound"""
    out = {} if out is None else out
    here = path + (d["config"],)
    for _, t in d["tasks"]:
        out.setdefault(t["id"], here)
    for _, s in d["subs"]:
        homes(s, here, out)
    return out


def primary_names(d, prefix="", out=None):
    """task id -> one dotted primary name"""
    out = {} if out is None else out
    for k, t in d["tasks"]:
        out.setdefault(t["id"], prefix + k)
    for k, s_ in d["subs"]:
        primary_names(s_, prefix + k + ".", out)
    return out


def _all_paths(t, pre=()):
    for k, v in t.items():
        yield pre + (k,), isinstance(v, dict)
        if isinstance(v, dict):
            yield from _all_paths(v, pre + (k,))


def session_calls(case, req_tids, dflt_tid):
    """mirror of the executor's expansion (only to classify): [(tid, called_as)]"""
    hooks = case["hooks"]

    def expand(tid, called_as, out):
        h = hooks.get(str(tid), {})
        for p in h.get("pre", []):
            expand(p, None, out)
        out.append((tid, called_as))
        for p in h.get("post", []):
            expand(p, None, out)
    def one_execute(pairs):
        out = []
        if pairs:
            for nm, tid in pairs:
                expand(tid, nm, out)
        elif dflt_tid is not None:
            expand(dflt_tid, None, out)
        if case["dedupe"]:
            kept, seen = [], set()
            for c in out:
                if c[0] not in seen:
                    seen.add(c[0])
                    kept.append(c)
            out = kept
        return out
    pairs = list(zip(case["requests"], req_tids))
    k = case.get("split") or 0
    if k:      # two execute() calls on one Executor
        return one_execute(pairs[:k]) + one_execute(pairs[k:])
    return one_execute(pairs)


def _convertible_env(case):
    """"environment values are convertible" also for the settings bodies create: no environment variable
    names a NEW key containing an underscore, unless its value is "1" (fine for every leaf type)"""
    made = set("INVOKE_" + "_".join(list(op[2]) + [op[3]]).upper()
               for ops in case["bodies"].values() for op in ops
               if op[0] in ("set", "setdefault", "pop") and isinstance(op[3], str) and "_" in op[3])
    if not made:
        return case
    return dict(case, envs=[dict((k, x) for k, x in e.items() if k not in made or x == "1") for e in case["envs"]])


def _dict_write(op):
    return (op[0] == "set" and isinstance(op[4], dict)) or \
        (op[0] == "update" and any(isinstance(v, dict) for _, v in op[3])) or \
        (op[0] == "setdefault" and op[4] is not None and isinstance(op[4]["d"], dict))


def _has_at(tree, p):
    for k in p:
        if not isinstance(tree, dict) or k not in tree:
            return False
        tree = tree[k]
    return True


def _strip_at(tree, p):
    """a copy of the level without whatever it has at p"""
    if not p or not isinstance(tree, dict) or p[0] not in tree:
        return tree
    out = dict(tree)
    if len(p) == 1:
        del out[p[0]]
    else:
        out[p[0]] = _strip_at(tree[p[0]], p[1:])
    return out


def _put_at(tree, p, v):
    """a copy of the level with v at p (sections above created)"""
    out = dict(tree)
    if len(p) == 1:
        out[p[0]] = v
    else:
        sub = tree.get(p[0])
        out[p[0]] = _put_at(sub if isinstance(sub, dict) else {}, p[1:], v)
    return out


def home_keys(d, path=(), out=None):
    """task id -> the names of the sub-collections from the root to where it is bound"""
    out = {} if out is None else out
    for _, t in d["tasks"]:
        out.setdefault(t["id"], path)
    for k, s in d["subs"]:
        home_keys(s, path + (k,), out)
    return out


def names_by_task(coll, d):
    """task id -> the dotted names (primaries, aliases, default shortcuts) that resolve to it"""
    out = {}
    for nm in ns.resolvable_names(d):
        try:
            out.setdefault(ns.task_id(coll[nm]), []).append(nm)
        except Exception:  # a collection without a default task
            pass
    return out


DELETING = ("del", "pop", "popitem", "clear")


class C19(Prop):
    id = "C19"
    corr_module = "Corr.C19Corr"
    preds = ("corr", "spec", "adj_fc19", "adj_fc06a", "adj_both", "adj_fc19c", "adj_fc19c_all")
    quick_n = 700
    thorough_n = 12000
    shard_size = 60
    rule = ("random namespace trees (depth<=3, one configuration per collection drawn from a per-case settings schema, so "
            "levels are type-consistent; default tasks / default sub-collections) x Config(defaults, overrides) x "
            "pre/post hooks between tasks of different sub-collections x per-task bodies of 0-3 edits (leaf writes to "
            "existing and new settings, deletions of settings and of whole sections, pops, reads; item and attribute "
            "syntax; new settings whose variable name an existing setting has) x 0-3 requests by name/alias/shortcut (or none: default task), 20% of the multi-request sessions as two execute() calls on one Executor x dedupe on/off x a different "
            "environment for every executed call; + the there-and-back family (a systematic block first in every run, 10% of the "
            "random cases, 8% directed over random trees): a body deletes (del / pop / pop with default / popitem / clear; a leaf, "
            "a setting inside a section, a whole section) what only ONE place supplies (its own collection, an outer collection of its "
            "path, the root collection, the defaults), tasks of other namespaces run whose settings lack the key (direct requests, "
            "default shortcuts, as post- or pre-task, root tasks), then the first namespace again (a sibling task, the same task "
            "with dedupe off or in a second execute()), optionally writing the key again and going round once more; "
            "+ the shared-group family (a systematic block in every run, 10% of the random cases): ONE collection object "
            "added to two or three parents with different settings (siblings, root and sub, a group holding the collection, "
            "different depths; a random sub-collection of a random tree added to a second parent), a setting only one parent "
            "has (leaf, top-level, section; optionally named by the environment), tasks requested through both mount points "
            "in both orders, the same task twice (dedupe off / two execute()), there and back, default shortcuts, and "
            "single-path sessions after plain lookups (configuration / task_with_config / []) through the other mount; "
            "observed: deep view on entry and on exit of every body; non-trivial = "
            ">=2 bodies executed, from >=2 different collections, and >=1 successful edit before the last body")
    trusted_base = [
        "Coq 8.16.1 kernel + vm_compute (shard evaluation)",
        "hand-written models coq/Model/SessionModel.v (executor loop), CollModel.v, ConfigModel.v (+Merge/Env) tied to "
        "invoke/executor.py, collection.py, config.py by differential execution of real Executor sessions (this run)",
        "harness/coqterm.py, harness/ns.py, harness/config_common.py (op driver, printers), harness/props/c19.py",
        "CPython 3.12 executing /repo; os.environ swapped by the harness between bodies",
    ]
    assumptions = [
        "tasks take no arguments; a task is bound in one collection -- that collection object (or a group holding "
        "it) may be mounted under several parents, the namespace path of a call is then the one its name goes through",
        "bodies edit settings with leaf values only (dict-valued writes: C06, F-C06a) and navigate from the root",
        "environment values are convertible; no two settings of the LEVELS (defaults, overrides, collection "
        "configurations) share a variable name (C16's subject: the load is documented to refuse) -- bodies do "
        "create such pairs by writing new settings (db_host next to db.host), that is inside the statement",
        "no configuration files (system/user/project/runtime levels empty)",
        "sessions of two execute() calls keep the default tasks.dedupe (every execute() re-reads it from the "
        "configuration as edited so far; the dedupe switch of a case is fixed per session in the model)",
        "setting keys of the levels are lower-case identifiers without underscores; keys written by bodies may "
        "contain underscores",
    ]
    not_modelled = ["Context objects other than their .config",
                    "configuration files during a session (system/user/project/runtime levels stay empty; their "
                    "precedence is C03's subject)",
                    "proxies of sections held in a variable across tasks (C06's held-proxy statements cover one Config; "
                    "after the executor's reloads a held proxy is stale -- not specified here)",
                    "Call subclasses"]

    # ---- generation --------------------------------------------------------
    def _leaf_paths(self, sch, pre=()):
        for k, v in sch.items():
            if isinstance(v, dict):
                yield from self._leaf_paths(v, pre + (k,))
            else:
                yield pre + (k,), v

    def _gen_op(self, rng, sch):
        fl = rng.choice(["item", "item", "attr"])
        leaves = list(self._leaf_paths(sch))
        secs = [p for p, sec in cc.schema_paths(sch) if sec]
        def newkey():
            return rng.choice(["newkey", "zz", "fresh", "new_key"])

        deep = [p for p, _ in leaves if len(p) >= 2]
        if deep and rng.random() < 0.06:
            # a NEW setting whose environment-variable name an existing setting already has:
            # db_host next to db.host (written in the section holding the rest of the path)
            p = rng.choice(deep)
            cut = rng.randrange(0, len(p) - 1)
            return ["set", fl, list(p[:cut]), "_".join(p[cut:]), gt.jsonable(gt.leaf(rng, "is"))]
        r = rng.random()
        if r < 0.30 and leaves:
            p, kind = rng.choice(leaves)
            return ["set", fl, list(p[:-1]), p[-1], gt.jsonable(gt.leaf(rng, kind))]
        if r < 0.38:
            kp = list(rng.choice(secs)) if secs and rng.random() < 0.5 else []
            return ["set", fl, kp, newkey(), gt.jsonable(gt.leaf(rng, "bis"))]
        if r < 0.50 and leaves:
            p, _ = rng.choice(leaves)
            return [rng.choice(["del", "del", "pop"]), fl, list(p[:-1]), p[-1]]
        if r < 0.56 and secs:
            p = rng.choice(secs)
            return ["del", fl, list(p[:-1]), p[-1]]
        if r < 0.66:
            # update: a few settings of one section at once, in one of the three call styles
            kp = list(rng.choice(secs)) if secs and rng.random() < 0.6 else []
            sub = sch
            for k in kp:
                sub = sub[k]
            kvs = [[k, gt.jsonable(gt.leaf(rng, v))] for k, v in sub.items() if not isinstance(v, dict) and rng.random() < 0.6]
            if rng.random() < 0.4:
                kvs.append([newkey(), gt.jsonable(gt.leaf(rng, "is"))])
            return ["update", fl, kp, kvs, rng.choice(["dict", "kwargs", "pairs"])]
        if r < 0.74 and leaves:
            p, kind = rng.choice(leaves)
            k = p[-1] if rng.random() < 0.6 else newkey()
            return ["setdefault", fl, list(p[:-1]), k, {"d": gt.jsonable(gt.leaf(rng, kind))} if rng.random() < 0.8 else None]
        if r < 0.79 and secs:
            return ["clear", fl, list(rng.choice(secs))]
        if r < 0.84:
            return ["popitem", fl, list(rng.choice(secs)) if secs and rng.random() < 0.7 else []]
        if r < 0.88 and leaves:
            p, kind = rng.choice(leaves)
            return ["pop", fl, list(p[:-1]), p[-1] if rng.random() < 0.6 else newkey(), {"d": gt.jsonable(gt.leaf(rng, kind))}]
        if r < 0.93:
            # a dict-valued write: a whole (new or existing) section at once
            if secs and rng.random() < 0.6:
                p = rng.choice(secs)
                sub = sch
                for k in p:
                    sub = sub[k]
                return ["set", fl, list(p[:-1]), p[-1], gt.jsonable(cc.instance(rng, sub, p_keep=0.6, same_kind=1.0))]
            return ["set", fl, [], newkey() + "sec", {"q": gt.jsonable(gt.leaf(rng, "is"))}]
        if leaves:
            p, _ = rng.choice(leaves)
            return ["get", fl, list(p[:-1]), p[-1]]
        return ["get", fl, [], "nothing"]

    def _fix_ops(self, ops):
        out = []
        for o in ops:
            if o[0] == "pop" and len(o) == 4:
                o = o + [None]
            out.append(o)
        return out

    def _gen(self, rng):
        sch = cc.schema(rng, depth=rng.choice([2, 3]), width=3, kinds="nbis", p_section=0.5)
        ids = ns.Ids()
        spec = ns.gen_coll(rng, rng.choice([2, 2, 3]), ids, name=None, clean=True, p_extra=0.0, p_rename=0.2,
                           p_subdefault=0.3, p_default=0.8)

        def reconfig(sp):
            sp["config"] = gt.jsonable(cc.instance(rng, sch, p_keep=rng.choice([0.3, 0.6]), same_kind=1.0))
            for it in sp["items"]:
                if "coll" in it:
                    reconfig(it["coll"])
        reconfig(spec)
        infos = task_infos(spec)
        tids = sorted(infos)
        hooks = {}
        for i, t in enumerate(tids):
            later = tids[i + 1:]
            h = {"pre": [], "post": []}
            for kind in ("pre", "post"):
                for _ in range(rng.choice([0, 0, 1, 1, 2])):
                    if later:
                        h[kind].append(rng.choice(later))
            if h["pre"] or h["post"]:
                hooks[str(t)] = h
        bodies = {}
        for t in tids:
            ops = [self._gen_op(rng, sch) for _ in range(rng.choice([0, 1, 1, 2, 3]))]
            if ops:
                bodies[str(t)] = self._fix_ops(ops)
        _, st = ns.build_and_dump(spec)
        names = ns.resolvable_names(st["ok"]) if "ok" in st else []
        reqs = [rng.choice(names) for _ in range(rng.choice([0, 1, 2, 2, 3]))] if names else []
        dedupe = rng.random() < 0.75
        overrides = gt.jsonable(cc.instance(rng, sch, p_keep=0.25, same_kind=1.0))
        if not dedupe:
            overrides = dict(overrides, tasks={"dedupe": False})
        envs = [cc.env_for(rng, sch, p_set=rng.choice([0.2, 0.5]), p_bad=0.0) for _ in range(rng.randint(1, 4))]
        # "environment values are convertible" also for the settings bodies create: no environment
        # variable names a NEW key containing an underscore (the directed clash cases set one, convertibly)
        made = set("INVOKE_" + "_".join(list(op[2]) + [op[3]]).upper()
                   for ops in bodies.values() for op in ops
                   if op[0] in ("set", "setdefault", "pop") and isinstance(op[3], str) and "_" in op[3])
        if made:
            envs = [dict((k, x) for k, x in e.items() if k not in made) for e in envs]
        if any(_dict_write(op) for ops in bodies.values() for op in ops):
            # dict-valued writes are merged instead of replacing (F-C06a, known): which of the merged-in
            # settings then carry an environment override depends on load timing -- such sessions run
            # without environment overrides so that the adjusted judgement stays exact
            envs = [{}]
        return {"script": spec, "hooks": hooks, "bodies": bodies, "requests": reqs, "dedupe": dedupe,
                "via_ctx": rng.random() < 0.5, "req_form": rng.choice(["str", "pair", "ctx", "ctx"]),
                "init": {"defaults": gt.jsonable(cc.instance(rng, sch, p_keep=0.6, same_kind=1.0)),
                         "overrides": overrides},
                "envs": envs}

    def _directed(self, rng, case):
        """write-then-delete of a setting that only *another* collection defines, then a task of that
        collection (and the symmetric delete-then-write): the edit must survive the swap of the
        collection level"""
        _, st = ns.build_and_dump(case["script"])
        if "ok" not in st:
            return case
        d = st["ok"]
        hm = homes(d)
        names = primary_names(d)
        tids = [t for t in hm if t in names]
        rng.shuffle(tids)
        base = [case["init"]["defaults"], case["init"]["overrides"]]
        for ta, tb in itertools.permutations(tids, 2):
            if hm[ta] == hm[tb]:
                continue
            here = set()
            secs = {()}
            for lvl in base + list(hm[ta]):
                t = gt.unjson(lvl)
                here.update(p for p, _ in gt.leaf_paths(t))
                secs.update(tuple(p) for p, sec in _all_paths(t) if sec)
            cands = []
            for lvl in hm[tb]:
                for p, v in gt.leaf_paths(gt.unjson(lvl)):
                    if p not in here and p[:-1] in secs and not isinstance(v, (list, tuple)):
                        cands.append((p, v))
            if not cands:
                continue
            p, v = rng.choice(cands)
            fl = rng.choice(["item", "attr"])
            w = ["set", fl, list(p[:-1]), p[-1], gt.jsonable(v if rng.random() < 0.5 else gt.leaf(rng, "is"))]
            dl = [rng.choice(["del", "pop"]), fl, list(p[:-1]), p[-1]]
            ops = [w, dl] if rng.random() < 0.7 else [w, dl, w]
            bodies = dict(case["bodies"])
            bodies[str(ta)] = self._fix_ops(ops + (bodies.get(str(ta), []) if rng.random() < 0.3 else []))
            bodies.pop(str(tb), None)
            var = "INVOKE_" + "_".join(p).upper()
            envs = [dict((k, x) for k, x in e.items() if k != var) for e in case["envs"]]
            return dict(case, bodies=bodies, requests=[names[ta], names[tb]], envs=envs, hooks={})
        return case

    def _directed_env(self, rng, case):
        """an environment variable naming a setting that only the *first* task's collection defines stays
        set while a task of another collection runs (the former F-C19b: stale environment level)"""
        _, st = ns.build_and_dump(case["script"])
        if "ok" not in st:
            return case
        d = st["ok"]
        hm = homes(d)
        names = primary_names(d)
        tids = [t for t in hm if t in names]
        rng.shuffle(tids)
        base = [case["init"]["defaults"], case["init"]["overrides"]]
        for ta, tb in itertools.permutations(tids, 2):
            if hm[ta] == hm[tb]:
                continue
            there = set()
            for lvl in base + list(hm[tb]):
                there.update(p for p, _ in gt.leaf_paths(gt.unjson(lvl)))
            cands = [(p, v) for lvl in hm[ta] for p, v in gt.leaf_paths(gt.unjson(lvl))
                     if p not in there and not isinstance(v, (list, tuple))]
            if not cands:
                continue
            p, v = rng.choice(cands)
            val = rng.choice(["0", "1", "5"]) if isinstance(v, int) and not isinstance(v, bool) else rng.choice(["1", "", "abc"])
            env = {"INVOKE_" + "_".join(p).upper(): val}
            reqs = [names[ta], names[tb]] + ([names[ta]] if rng.random() < 0.3 else [])
            return dict(case, requests=reqs, envs=[env] if rng.random() < 0.6 else [env, env, {}], hooks={})
        return case

    def _directed_clash(self, rng, case):
        """the first requested task writes a new setting whose variable name an existing setting has
        (db_host while db.host exists), another task follows; the environment may or may not set it"""
        _, st = ns.build_and_dump(case["script"])
        if "ok" not in st:
            return case
        d = st["ok"]
        names = primary_names(d)
        tids = sorted(names)
        if len(tids) < 2:
            return case
        ta, tb = rng.sample(tids, 2)
        paths = set()
        for lvl in [case["init"]["defaults"], case["init"]["overrides"], d["config"]]:
            paths.update(p for p, v in gt.leaf_paths(gt.unjson(lvl)) if len(p) >= 2)
        if not paths:
            return case
        p = rng.choice(sorted(paths))
        cut = rng.randrange(0, len(p) - 1)
        w = ["set", rng.choice(["item", "attr"]), list(p[:cut]), "_".join(p[cut:]), rng.choice([1, "x", True])]
        bodies = dict(case["bodies"])
        bodies[str(ta)] = self._fix_ops([w] + (bodies.get(str(ta), []) if rng.random() < 0.3 else []))
        var = "INVOKE_" + "_".join(p).upper()
        envs = [dict((k, x) for k, x in e.items() if k != var) for e in case["envs"]]
        if rng.random() < 0.2:
            envs = [dict(e, **{var: "1"}) for e in envs]        # ... and the variable IS set: C16's refusal
        return dict(case, bodies=bodies, requests=[names[ta], names[tb]], envs=envs, hooks={})

    # ---- there and back ----------------------------------------------------------
    # A task deletes a setting that only ONE place supplies (its own collection, an outer collection
    # of its path, the root collection, the defaults), tasks of OTHER namespaces run (their
    # settings lack the deleted key: the re-merge finds nothing to hide), then the first
    # namespace is executed again: the deletion must still be in force.
    BACK_SHAPES = ("direct", "repeat", "split", "post", "pre", "shortcut", "rewrite")
    BACK_VICTIMS = ("leaf", "top", "section")
    BACK_HOWS = ("del", "pop", "popd", "popitem", "clear")
    BACK_SUPPLIERS = ("own", "own", "outer", "root", "defaults")

    def _safe_op(self, rng, sch):
        for _ in range(20):
            op = self._gen_op(rng, sch)
            if not _dict_write(op) and not (len(op) > 3 and isinstance(op[3], str) and "_" in op[3]):
                return op
        return ["get", "item", [], "nothing"]

    def _deletion(self, rng, sch, how, fl, p, val):
        """the edit that removes the victim p (a leaf or a section, as instantiated by val)"""
        kp, k = list(p[:-1]), p[-1]
        if isinstance(val, dict):
            leaves = [q for q, _ in gt.leaf_paths(gt.unjson(val))]
            if how in ("popitem", "clear"):
                return [how, fl, list(p)]
            if leaves and rng.random() < 0.4:
                # a setting INSIDE the section only this place supplies
                q = rng.choice(leaves)
                kp, k = list(p) + list(q[:-1]), q[-1]
        elif how in ("popitem", "clear"):
            if not kp:
                how = "del"
            else:
                return [how, fl, kp]
        if how == "popd":
            return ["pop", fl, kp, k, {"d": gt.jsonable(gt.leaf(rng, "is"))}]
        return [how if how in ("del", "pop") else "del", fl, kp, k]

    def _back_case(self, rng, shape=None, victim=None, how=None, supplier=None):
        shape = shape or rng.choice(self.BACK_SHAPES)
        victim = victim or rng.choice(self.BACK_VICTIMS)
        how = how or rng.choice(self.BACK_HOWS)
        supplier = supplier or rng.choice(self.BACK_SUPPLIERS)
        sch = cc.schema(rng, depth=rng.choice([2, 3]), width=3, kinds="nbis", p_section=0.5)
        free = [k for k in cc.SAFE_KEYS if k not in sch]
        rng.shuffle(free)
        if not any(isinstance(v, dict) for v in sch.values()):
            sch[free.pop()] = {free.pop(): rng.choice("bis"), free.pop(): rng.choice("nbis")}
        if all(isinstance(v, dict) for v in sch.values()):
            sch[free.pop()] = rng.choice("bis")
        paths = list(cc.schema_paths(sch))
        if victim == "leaf":
            cands = [q for q, sec in paths if not sec and len(q) >= 2]
        elif victim == "top":
            cands = [q for q, sec in paths if not sec and len(q) == 1]
        else:
            cands = [q for q, sec in paths if sec]
        p = rng.choice(cands)
        sub = cc.sch_kind(sch, p)
        if isinstance(sub, dict):
            val = gt.jsonable(cc.instance(rng, sub, p_keep=1.0, same_kind=1.0))
            for k in list(val):
                if len(val) > 1 and rng.random() < 0.25:
                    del val[k]
        else:
            val = gt.jsonable(gt.leaf(rng, sub))
        nested = supplier == "outer" or rng.random() < 0.3
        inst = lambda keep: gt.jsonable(cc.instance(rng, sch, p_keep=keep, same_kind=1.0))
        lv = {"R": inst(0.5), "A": inst(0.6), "AI": inst(0.5), "B": inst(0.6), "C": inst(0.5),
              "D": inst(0.6), "O": inst(0.25)}
        sup = {"own": "AI" if nested else "A", "outer": "A", "root": "R", "defaults": "D"}[supplier]
        for k in lv:
            lv[k] = _put_at(lv[k], p, val) if k == sup else _strip_at(lv[k], p)
        # ---- the tree: root{t0, a{[inner{]ta, ta2[}]}, b{tb}, [c{tc}]} -------------------
        with_c = rng.random() < 0.4
        roles = ["t0", "ta", "ta2", "tb"] + (["tc"] if with_c else [])
        rng.shuffle(roles)
        hook_to = rng.choice(["tb", "t0"] + (["tc"] if with_c else []))
        src = {"post": "ta", "pre": "ta2"}.get(shape)
        if src is not None and roles.index(src) > roles.index(hook_to):
            i, j = roles.index(src), roles.index(hook_to)
            roles[i], roles[j] = roles[j], roles[i]
        tid = dict((r, i) for i, r in enumerate(roles))
        tn = rng.sample(ns.TASK_NAMES, 5)
        cn = rng.sample(ns.COLL_NAMES, 4)

        def item(role, nm, default=None):
            al = rng.sample(ns.ALIASES, 1) if rng.random() < 0.2 else []
            return {"task": {"id": tid[role], "name": nm, "aliases": [], "default": False},
                    "bind": None, "aliases": al, "default": default}

        def coll(nm, cfg, items, default=False):
            return {"coll": {"name": nm, "auto_dash": True, "config": cfg, "items": items},
                    "bind": None, "default": default}
        ta_default = True if (shape == "shortcut" or rng.random() < 0.5) else None
        ta2_outer = nested and supplier == "outer" and rng.random() < 0.4
        mine = [item("ta", tn[1], ta_default)] + ([] if ta2_outer else [item("ta2", tn[2])])
        rng.shuffle(mine)
        if nested:
            a_items = [coll(cn[3], lv["AI"], mine, default=(shape == "shortcut" or rng.random() < 0.5))]
            if ta2_outer:
                a_items.append(item("ta2", tn[2]))
            rng.shuffle(a_items)
        else:
            a_items = mine
        tops = [item("t0", tn[0], True if rng.random() < 0.5 else None),
                coll(cn[0], lv["A"], a_items),
                coll(cn[1], lv["B"], [item("tb", tn[3], True if rng.random() < 0.5 else None)])]
        if with_c:
            tops.append(coll(cn[2], lv["C"], [item("tc", tn[4])]))
        rng.shuffle(tops)
        spec = {"name": None, "auto_dash": True, "config": lv["R"], "items": tops}
        built, st = ns.build_and_dump(spec)
        if built is None:
            return None
        d = st["ok"]
        byt = names_by_task(built, d)
        prim = primary_names(d)
        shortcuts = set()

        def walk(dd, pre):
            for k, s_ in dd["subs"]:
                shortcuts.add(pre + k)
                walk(s_, pre + k + ".")
        walk(d, "")

        def name_of(role, shortcut=False):
            names = byt.get(tid[role]) or [prim[tid[role]]]
            sc = [x for x in names if x in shortcuts]
            if shortcut and sc:
                return rng.choice(sc)
            plain = [x for x in names if x not in shortcuts] or names
            return rng.choice(plain) if rng.random() < 0.8 else rng.choice(names)
        fl = rng.choice(["item", "item", "attr"])
        dl = self._deletion(rng, sch, how, fl, p, val)
        gone = tuple(dl[2]) + ((dl[3],) if len(dl) > 3 else ())
        dedupe, split, hooks = True, 0, {}
        seq = ["ta", "tb", "ta2"]
        bodies = {}
        if shape == "repeat":
            seq, dedupe = ["ta", rng.choice(["tb", "t0"]), "ta"], False
        elif shape == "split":
            seq, split = ["ta", "tb", "ta"], rng.choice([1, 2])
        elif shape in ("post", "pre"):
            seq = ["ta", "ta2"]
            hooks = {str(tid[src]): {"pre": [tid[hook_to]] if shape == "pre" else [],
                                     "post": [tid[hook_to]] if shape == "post" else []}}
        elif shape == "rewrite" and dl[0] in ("del", "pop") and not isinstance(cc.sch_kind(sch, gone), dict):
            seq, dedupe = ["ta", "tb", "ta2", rng.choice(["tb", "t0"]), "ta"], False
            bodies[str(tid["ta2"])] = [["set", fl, list(gone[:-1]), gone[-1],
                                        gt.jsonable(gt.leaf(rng, cc.sch_kind(sch, gone)))]]
        if not dedupe and rng.random() < 0.3:
            seq = seq + [rng.choice(["tb", "t0"]), "ta2"]
        reqs = [name_of(r, shortcut=(shape == "shortcut" and r != "ta2")) for r in seq]
        mine_ops = [dl]
        if rng.random() < 0.3:
            mine_ops.insert(0, self._safe_op(rng, sch))
        if rng.random() < 0.3:
            mine_ops.append(self._safe_op(rng, sch))
        bodies[str(tid["ta"])] = mine_ops
        if str(tid["ta2"]) not in bodies and len(gone) >= 1 and len(dl) > 3 and rng.random() < 0.4:
            bodies[str(tid["ta2"])] = [["get", fl, list(gone[:-1]), gone[-1]]]
        if rng.random() < 0.3:
            bodies[str(tid["tb"])] = [self._safe_op(rng, sch)]
        bodies = dict((t, self._fix_ops(ops)) for t, ops in bodies.items())
        overrides = lv["O"]
        if not dedupe:
            overrides = dict(overrides, tasks={"dedupe": False})
        envs = [cc.env_for(rng, sch, p_set=rng.choice([0.0, 0.2, 0.5]), p_bad=0.0) for _ in range(rng.randint(1, 4))]
        case = {"script": spec, "hooks": hooks, "bodies": bodies, "requests": reqs, "dedupe": dedupe,
                "via_ctx": rng.random() < 0.5, "req_form": rng.choice(["str", "pair", "ctx", "ctx"]),
                "init": {"defaults": lv["D"], "overrides": overrides}, "envs": envs}
        if split:
            case["split"] = split
        return case

    def _back_block(self, rng, per_shape=1):
        """the systematic part: every shape x every kind of victim, the way of deleting and the
        supplier rotating through all values"""
        k = rng.randrange(1000)
        for rep in range(per_shape):
            for shape in self.BACK_SHAPES:
                for victim in self.BACK_VICTIMS:
                    k += 1
                    how = self.BACK_HOWS[k % len(self.BACK_HOWS)]
                    supplier = ("own", "own", "outer", "own", "root", "own", "defaults")[(k // 2) % 7]
                    case = self._back_case(rng, shape, victim, how, supplier)
                    if case is not None:
                        yield case

    def _directed_back(self, rng, case):
        """over the random tree of the case: a task deletes a setting (or a whole section) that only
        collections of ITS path supply -- not the defaults, the overrides, or any collection on the path of
        a second task; the second task runs; then the first namespace again (another task of the
        same collection, or the same task with dedupe off / in a second execute())"""
        built, st = ns.build_and_dump(case["script"])
        if built is None:
            return case
        d = st["ok"]
        hm, hk = homes(d), home_keys(d)
        byt = names_by_task(built, d)
        tids = [t for t in hm if byt.get(t)]
        rng.shuffle(tids)
        for ta, tb in itertools.permutations(tids, 2):
            if hk[ta] == hk[tb]:
                continue
            there = [gt.unjson(lvl) for lvl in hm[tb]]
            cands = []
            for lvl in hm[ta]:
                for q, sec in _all_paths(gt.unjson(lvl)):
                    if not any(_has_at(t, q) for t in there):
                        cands.append((q, sec))
            if not cands:
                continue
            secs = [c for c in cands if c[1]]
            p, sec = rng.choice(secs) if secs and rng.random() < 0.4 else rng.choice(cands)
            fl = rng.choice(["item", "attr"])
            if sec and rng.random() < 0.4:
                dl = [rng.choice(["clear", "popitem"]), fl, list(p)]
            else:
                dl = [rng.choice(["del", "del", "pop"]), fl, list(p[:-1]), p[-1]]
            init = {"defaults": _strip_at(case["init"]["defaults"], p),
                    "overrides": _strip_at(case["init"]["overrides"], p)}
            twins = [t for t in tids if t != ta and hk[t] == hk[ta]]
            bodies = dict(case["bodies"])
            bodies[str(ta)] = self._fix_ops((bodies.get(str(ta), [])[:1] if rng.random() < 0.3 else []) + [dl])
            bodies.pop(str(tb), None)
            out = dict(case, hooks={}, init=init)
            out.pop("split", None)
            last = ta
            if twins and rng.random() < 0.6:
                last = rng.choice(twins)
                bodies.pop(str(last), None)
            r = rng.random()
            if last != ta and r < 0.25 and tb > ta:
                # the other namespace as a post-task of the deleting task
                out["hooks"] = {str(ta): {"pre": [], "post": [tb]}}
                reqs = [ta, last]
            elif last != ta and r < 0.4 and tb > last:
                out["hooks"] = {str(last): {"pre": [tb], "post": []}}
                reqs = [ta, last]
            else:
                reqs = [ta, tb, last]
            dedupe = case["dedupe"]
            if last == ta:
                if rng.random() < 0.5:
                    dedupe = True
                    out["split"] = rng.choice([1, 2])
                else:
                    dedupe = False
            if not dedupe:
                init["overrides"] = dict(init["overrides"], tasks={"dedupe": False})
            elif "tasks" in init["overrides"]:
                init["overrides"] = dict((k, v) for k, v in init["overrides"].items() if k != "tasks")
            out.update(bodies=bodies, dedupe=dedupe, requests=[rng.choice(byt[t]) for t in reqs])
            return out
        return case

    # ---- one collection object under several parents ---------------------------------
    # A reusable task group (ONE Collection object) is added to several parents whose settings
    # differ; tasks are requested through the different mount points.  Looking a task up must not
    # leave anything behind in the tree: whichever paths were looked up before (in the same
    # execute() -- every requested name is looked up before the first body runs --, in an earlier
    # execute(), or before the session), a task called through one mount point sees the settings of
    # THAT path only.
    SHARED_MOUNTS = ("siblings", "siblings", "rootsub", "deep", "uneven", "three")
    SHARED_TRIPS = ("ab", "ba", "same", "split", "split2", "back", "away", "shortcut", "warm", "warm2")
    SHARED_VICTIMS = ("leaf", "top", "section")

    def _shared_case(self, rng, mount=None, trip=None, victim=None, whose=None):
        mount = mount or rng.choice(self.SHARED_MOUNTS)
        trip = trip or rng.choice(self.SHARED_TRIPS)
        victim = victim or rng.choice(self.SHARED_VICTIMS)
        whose = whose if whose is not None else rng.randrange(2)     # which mount's parent alone has the victim
        sch = cc.schema(rng, depth=rng.choice([2, 3]), width=3, kinds="nbis", p_section=0.5)
        free = [k for k in cc.SAFE_KEYS if k not in sch]
        rng.shuffle(free)
        if not any(isinstance(v, dict) for v in sch.values()):
            sch[free.pop()] = {free.pop(): rng.choice("bis"), free.pop(): rng.choice("nbis")}
        if all(isinstance(v, dict) for v in sch.values()):
            sch[free.pop()] = rng.choice("bis")
        paths = list(cc.schema_paths(sch))
        if victim == "leaf":
            cands = [q for q, sec in paths if not sec and len(q) >= 2]
        elif victim == "top":
            cands = [q for q, sec in paths if not sec and len(q) == 1]
        else:
            cands = [q for q, sec in paths if sec]
        p = rng.choice(cands)
        sub = cc.sch_kind(sch, p)
        if isinstance(sub, dict):
            val = gt.jsonable(cc.instance(rng, sub, p_keep=1.0, same_kind=1.0))
        else:
            val = gt.jsonable(gt.leaf(rng, sub))
        inst = lambda keep: gt.jsonable(cc.instance(rng, sch, p_keep=keep, same_kind=1.0))
        lv = {"R": inst(0.4), "P": inst(0.6), "S": inst(0.6), "T": inst(0.6), "Q": inst(0.4), "M": inst(0.5),
              "DB": inst(0.5), "B": inst(0.5), "D": inst(0.5), "O": inst(0.2)}
        sup = ("P", "S")[whose]
        for k in lv:
            lv[k] = _put_at(lv[k], p, val) if k == sup else _strip_at(lv[k], p)
        if rng.random() < 0.3:
            lv["DB"] = {}                    # the shared group has no settings of its own
        roles = ["t0", "ta", "ta2", "tb"]
        rng.shuffle(roles)
        tid = dict((r, i) for i, r in enumerate(roles))
        plain = [n for n in ns.TASK_NAMES if n.isalnum() and n.islower()]
        tn = rng.sample(plain, 4)
        cplain = [n for n in ns.COLL_NAMES if n.isalnum() and n.islower()]
        cn = rng.sample(cplain + ["prod", "staging", "db", "ops"], 6)

        def item(role, nm, default=None):
            return {"task": {"id": tid[role], "name": nm, "aliases": [], "default": False},
                    "bind": None, "aliases": [], "default": default}

        def coll(nm, cfg, items, default=False, share=None, bind=None):
            c = {"name": nm, "auto_dash": True, "config": cfg, "items": items}
            if share is not None:
                c["share"] = share
            return {"coll": c, "bind": bind, "default": default}
        mine = [item("ta", tn[1], True if (trip == "shortcut" or rng.random() < 0.5) else None), item("ta2", tn[2])]
        rng.shuffle(mine)
        db = lambda **kw: coll(cn[0], lv["DB"], mine, share="g", **kw)
        dflt_sub = trip == "shortcut" or rng.random() < 0.3
        if mount == "deep":
            # the shared object is a group that itself holds the collection of the tasks
            grp = lambda **kw: coll(cn[0], lv["M"], [coll(cn[5], lv["DB"], mine, default=dflt_sub)], share="g", **kw)
            tops = [coll(cn[1], lv["P"], [grp(default=dflt_sub)]), coll(cn[2], lv["S"], [grp(default=dflt_sub)])]
            via = [cn[1] + "." + cn[0] + "." + cn[5], cn[2] + "." + cn[0] + "." + cn[5]]
            short = [cn[1], cn[2]] if dflt_sub else [via[0], via[1]]
        elif mount == "rootsub":
            # mounted at the root and below a parent (which alone has the victim)
            tops = [db(), coll(cn[1], lv[sup], [db(default=dflt_sub)])]
            via = [cn[1] + "." + cn[0], cn[0]]
            short = [cn[1] if dflt_sub else via[0], via[1]]
        elif mount == "uneven":
            tops = [coll(cn[1], lv["P"], [coll(cn[4], lv["Q"], [db(default=dflt_sub)], default=dflt_sub)]),
                    coll(cn[2], lv["S"], [db(default=dflt_sub)])]
            via = [cn[1] + "." + cn[4] + "." + cn[0], cn[2] + "." + cn[0]]
            short = [cn[1], cn[2]] if dflt_sub else list(via)
        else:
            tops = [coll(cn[1], lv["P"], [db(default=dflt_sub)]), coll(cn[2], lv["S"], [db(default=dflt_sub)])]
            via = [cn[1] + "." + cn[0], cn[2] + "." + cn[0]]
            short = [cn[1], cn[2]] if dflt_sub else list(via)
            if mount == "three":
                tops.append(coll(cn[4], lv["T"], [db()]))
                via.append(cn[4] + "." + cn[0])
                short.append(via[2])
        tops.append(item("t0", tn[0], True if rng.random() < 0.4 else None))
        tops.append(coll(cn[3], lv["B"], [item("tb", tn[3])]))
        rng.shuffle(tops)
        spec = {"name": None, "auto_dash": True, "config": lv["R"], "items": tops}
        built, st = ns.build_and_dump(spec)
        if built is None:
            return None
        # a, b: the two mount points used (the one whose parent has the victim first or second)
        ia, ib = (0, 1) if rng.random() < 0.5 else (1, 0)
        if len(via) > 2 and rng.random() < 0.5:
            ib = 2
        nm = lambda i, role: via[i] + "." + tn[{"ta": 1, "ta2": 2}[role]]
        other = rng.choice([cn[3] + "." + tn[3], tn[0]])
        dedupe, split, warm = True, 0, []
        if trip == "ab":
            reqs = [nm(ia, "ta"), nm(ib, "ta2")]
        elif trip == "ba":
            reqs = [nm(ib, "ta2"), nm(ia, "ta")]
        elif trip == "same":
            reqs, dedupe = [nm(ia, "ta"), nm(ib, "ta")], False
        elif trip == "split":
            reqs, split = [nm(ia, "ta"), nm(ib, "ta")], 1
        elif trip == "split2":
            reqs, split = [nm(ia, "ta"), other, nm(ib, "ta2")], rng.choice([1, 2])
        elif trip == "back":
            reqs, dedupe = [nm(ia, "ta"), nm(ib, "ta"), nm(ia, "ta")] + ([nm(ib, "ta2")] if rng.random() < 0.4 else []), False
        elif trip == "away":
            reqs = [nm(ia, "ta"), other, nm(ib, "ta2")]
        elif trip == "shortcut":
            reqs = [short[ia], nm(ib, "ta2")] if rng.random() < 0.5 else [nm(ib, "ta2"), short[ia]]
        elif trip == "warm":
            # a single-path session after lookups through the other mount point
            warm = [[rng.choice(["config", "config", "twc"]), nm(ib, rng.choice(["ta", "ta2"]))]]
            reqs = [nm(ia, "ta")] + ([other] if rng.random() < 0.4 else [])
        else:
            warm = [[rng.choice(["config", "twc", "getitem"]), nm(i, "ta2")] for i in (ib, ia, ib)]
            reqs = [other, nm(ia, "ta"), nm(ia, "ta2")]
        fl = rng.choice(["item", "item", "attr"])
        bodies = {}
        if rng.random() < 0.4:
            bodies[str(tid["ta"])] = [self._safe_op(rng, sch)]
        if rng.random() < 0.3:
            bodies[str(tid["ta2"])] = [["get", fl, list(p[:-1]), p[-1]]]
        elif rng.random() < 0.3:
            bodies[str(tid["ta2"])] = [self._safe_op(rng, sch)]
        if rng.random() < 0.2:
            bodies[str(tid["tb"])] = [self._safe_op(rng, sch)]
        bodies = dict((t, self._fix_ops(ops)) for t, ops in bodies.items())
        overrides = lv["O"]
        if not dedupe:
            overrides = dict(overrides, tasks={"dedupe": False})
        envs = [cc.env_for(rng, sch, p_set=rng.choice([0.0, 0.2, 0.5]), p_bad=0.0) for _ in range(rng.randint(1, 3))]
        if not isinstance(val, dict) and not isinstance(val, (list, tuple)) and rng.random() < 0.4:
            # the environment names the setting only ONE path knows
            var = "INVOKE_" + "_".join(p).upper()
            v = rng.choice(["0", "1", "5"]) if isinstance(val, int) and not isinstance(val, bool) else "1"
            envs = [dict(e, **{var: v}) for e in envs]
        case = {"script": spec, "hooks": {}, "bodies": bodies, "requests": reqs, "dedupe": dedupe,
                "via_ctx": rng.random() < 0.5, "req_form": rng.choice(["str", "pair", "ctx", "ctx"]),
                "init": {"defaults": lv["D"], "overrides": overrides}, "envs": envs}
        if split:
            case["split"] = split
        if warm:
            case["warm"] = warm
        return case

    def _shared_block(self, rng, reps=1):
        """the systematic part: every itinerary x every way of mounting, the kind of setting only one
        parent has and which parent has it rotating"""
        k = rng.randrange(1000)
        mounts = ("siblings", "rootsub", "deep", "uneven", "three")
        for rep in range(reps):
            for trip in self.SHARED_TRIPS:
                for mount in mounts:
                    k += 1
                    case = self._shared_case(rng, mount, trip, self.SHARED_VICTIMS[k % 3], (k // 3) % 2)
                    if case is not None:
                        yield case

    def _share_again(self, rng, case):
        """over the random tree of the case: one of its sub-collections is ALSO added to another
        collection of the tree (same object), and its tasks are requested through both mount points"""
        spec = case["script"]
        if shared_labels(spec):
            return case
        # candidates: (index path to a sub-collection item)
        subs = []

        def walk(sp, at):
            for i, it in enumerate(sp.get("items", [])):
                if "coll" in it and "module" not in it["coll"] and not it["coll"].get("plain_module"):
                    subs.append(at + (i,))
                    walk(it["coll"], at + (i,))
        walk(spec, ())
        rng.shuffle(subs)

        def at_(sp, ix):
            for i in ix:
                sp = sp["items"][i]["coll"]
            return sp

        def put(sp, ix, f):
            if not ix:
                return f(sp)
            items = list(sp["items"])
            items[ix[0]] = dict(items[ix[0]], coll=put(items[ix[0]]["coll"], ix[1:], f))
            return dict(sp, items=items)
        for ix in subs:
            grp = at_(spec, ix)
            if not task_infos(grp):
                continue
            # a new parent: any collection that is not the group, not inside it, not its present parent
            parents = [q for q in [()] + subs if q[:len(ix)] != ix and q != ix[:-1]]
            if not parents:
                continue
            par = rng.choice(parents)
            mark = dict(grp, share="g")
            bind = rng.choice(["again", "mnt", "g2"])
            sp2 = put(spec, ix, lambda _: mark)
            sp2 = put(sp2, par, lambda c: dict(c, items=list(c["items"]) + [{"coll": mark, "bind": bind, "default": False}]))
            built, st = ns.build_and_dump(sp2)
            if built is None:
                continue
            d = st["ok"]
            names = ns.resolvable_names(d)
            ids_in = set(task_infos(grp))
            by = {}
            for nmx in names:
                try:
                    t = ns.task_id(built[nmx])
                except Exception:
                    continue
                if t in ids_in:
                    by.setdefault(t, []).append(nmx)
            two = [t for t, l in by.items() if len(l) >= 2]
            if not two:
                continue
            t1 = rng.choice(two)
            t2 = rng.choice(two)
            # two names of t1/t2 that go through different mount points: different first segments or lengths
            n1 = rng.choice(by[t1])
            rest = [x for x in by[t2] if (bind in x.split(".")) != (bind in n1.split("."))]
            if not rest:
                continue
            n2 = rng.choice(rest)
            out = dict(case, script=sp2, hooks={})
            out.pop("split", None)
            init = dict(case["init"])
            dedupe = case["dedupe"]
            r = rng.random()
            if t1 == t2:
                if r < 0.5:
                    dedupe = True
                    out["split"] = 1
                else:
                    dedupe = False
            if r < 0.2 and t1 != t2:
                out["warm"] = [["config", n2]]
                reqs = [n1]
            else:
                reqs = [n1, n2] + ([n1] if (not dedupe and rng.random() < 0.4) else [])
            if not dedupe:
                init["overrides"] = dict(init["overrides"], tasks={"dedupe": False})
            elif "tasks" in init["overrides"]:
                init["overrides"] = dict((k, v) for k, v in init["overrides"].items() if k != "tasks")
            keep = set(str(t) for t in (t1, t2))
            bodies = dict((t, ops) for t, ops in case["bodies"].items() if t in keep)
            out.update(requests=reqs, dedupe=dedupe, init=init, bodies=bodies)
            return out
        return case

    def _finish(self, rng, case):
        case = _convertible_env(case)
        if any(_dict_write(op) for ops in case["bodies"].values() for op in ops) and case["envs"] != [{}]:
            case = dict(case, envs=[{}])      # (see _gen: dict-valued writes run without environment overrides)
        if len(case["requests"]) >= 2 and case["dedupe"] and "split" not in case and rng.random() < 0.25:
            # the requests handed to ONE Executor in two execute() calls: the session goes on
            case = dict(case, split=rng.randint(1, len(case["requests"]) - 1))
        return case

    def generate(self, rng, tier, n):
        # the systematic there-and-back sessions come first (every shape x every kind of victim)
        for case in self._back_block(rng, per_shape=2 if tier == "quick" else 12):
            yield self._finish(rng, case)
        # ... then the systematic shared-group sessions (every itinerary x every way of mounting)
        for case in self._shared_block(rng, reps=1 if tier == "quick" else 8):
            yield self._finish(rng, case)
        for _ in range(n):
            r = rng.random()
            if r >= 0.90:
                case = (self._shared_case(rng) if r < 0.95 else None) or self._share_again(rng, self._gen(rng))
                yield self._finish(rng, case)
                continue
            if r < 0.10:
                case = self._back_case(rng) or self._gen(rng)
                yield self._finish(rng, case)
                continue
            case = self._gen(rng)
            if r < 0.18:
                case = self._directed_back(rng, case)
            elif r < 0.40:
                case = self._directed(rng, case)
            elif r < 0.53:
                case = self._directed_env(rng, case)
            elif r < 0.60:
                case = self._directed_clash(rng, case)
            yield self._finish(rng, case)

    def enumerate_small(self, tier):
        """root{k:{x:R,top:1}} > a{k:{x:A,a:1}} > t1 ; b{k:{x:B}} > t2 ; every hook relation between t1, t2 and a
        root task t0, every single edit of k.x / k in the first body, every request pair, two environments"""
        t = lambda i, nm: {"id": i, "name": nm, "aliases": [], "default": False}
        sub = lambda nm, cfg, task, dflt: {"coll": {"name": nm, "auto_dash": True, "config": cfg,
                                                    "items": [{"task": task, "bind": None, "aliases": [], "default": dflt}]},
                                           "bind": None, "default": False}
        spec = {"name": None, "auto_dash": True, "config": {"k": {"x": 0, "top": 1}},
                "items": [{"task": t(0, "t0"), "bind": None, "aliases": [], "default": True},
                          sub("a", {"k": {"x": 1, "a": 1}}, t(1, "t1"), True),
                          sub("b", {"k": {"x": 2}}, t(2, "t2"), None)]}
        edits = [[], [["set", "item", ["k"], "x", 9]], [["del", "item", ["k"], "x"]], [["del", "attr", [], "k"]],
                 [["set", "item", ["k"], "n", 5], ["del", "item", ["k"], "top"]]]
        hookings = [{}, {"0": {"pre": [1], "post": [2]}}, {"1": {"pre": [2], "post": []}},
                    {"0": {"pre": [], "post": [1]}, "1": {"pre": [], "post": [2]}}]
        reqsets = [[], ["t0"], ["a.t1", "b.t2"], ["b.t2", "a"], ["a", "t0"]]
        for ed, hk, rq in itertools.product(edits, hookings, reqsets):
            first = {"[]": "0"}.get(str(rq), None)
            for who in ("0", "1", "2"):
                yield {"script": spec, "hooks": hk, "bodies": {who: ed} if ed else {}, "requests": rq,
                       "dedupe": True, "init": {"defaults": {"k": {"x": -1, "d": 0}}, "overrides": {}},
                       "envs": [{}, {"INVOKE_K_X": "7"}]}
                if not ed:
                    break
        yield from self._enumerate_back()
        yield from self._enumerate_shared()

    def _enumerate_shared(self):
        """one group under two parents, small scope: root{k:{x:0}} > t0 ; p{k:{p:1}, only:5} > g ; s{k:{s:2}} > g ;
        g = db{k:{g:3}} > t1 (default), t2 -- every ordered pair of names through the two mount points (and the
        default shortcut), in one execute() / two / with dedupe off / after lookups only, one edit, two environments"""
        t = lambda i, nm: {"id": i, "name": nm, "aliases": [], "default": False}
        it = lambda task, dflt=None: {"task": task, "bind": None, "aliases": [], "default": dflt}
        grp = {"coll": {"name": "db", "auto_dash": True, "config": {"k": {"g": 3}}, "share": "g",
                        "items": [it(t(1, "t1"), True), it(t(2, "t2"))]}, "bind": None, "default": False}
        sub = lambda nm, cfg: {"coll": {"name": nm, "auto_dash": True, "config": cfg, "items": [grp]},
                               "bind": None, "default": False}
        spec = {"name": None, "auto_dash": True, "config": {"k": {"x": 0}},
                "items": [it(t(0, "t0"), True), sub("p", {"k": {"p": 1}, "only": 5}), sub("s", {"k": {"s": 2}})]}
        names = {"p": ["p.db.t1", "p.db.t2", "p.db"], "s": ["s.db.t1", "s.db.t2", "s.db"]}
        edits = [[], [["set", "item", ["k"], "p", 9]], [["del", "item", [], "only"]]]
        for a, b in (("p", "s"), ("s", "p")):
            for n1, n2 in itertools.product(names[a], names[b]):
                same = n1.split(".")[-1].replace("db", "t1") == n2.split(".")[-1].replace("db", "t1")
                for ed, envs in itertools.product(edits, ([{}], [{}, {"INVOKE_K_P": "7", "INVOKE_ONLY": "9"}])):
                    base = {"script": spec, "hooks": {}, "bodies": {"1": ed} if ed else {}, "dedupe": True,
                            "init": {"defaults": {"k": {"d": 0}}, "overrides": {}}, "envs": envs}
                    off = dict(base, dedupe=False, init={"defaults": {"k": {"d": 0}}, "overrides": {"tasks": {"dedupe": False}}})
                    if not same:
                        yield dict(base, requests=[n1, n2])
                        yield dict(base, requests=[n1, "t0", n2], split=2)
                    else:
                        yield dict(off, requests=[n1, n2])
                        yield dict(base, requests=[n1, n2], split=1)
                    yield dict(off, requests=[n1, n2, n1])
                    yield dict(base, requests=[n1], warm=[["config", n2]])

    def _enumerate_back(self):
        """there and back, small scope: root{k:{x:0,top:1}} > t0 ; a{k:{x:1,a:1}, own:{q:1,r:2}, solo:5} > t1, t3 ;
        b{k:{x:2}} > t2 -- t1 deletes what only a supplies (every way of deleting), every itinerary through
        another namespace and back to a (direct, the same task again with dedupe off, a second execute(), the
        other namespace as post-/pre-task, the default shortcut), two environments"""
        t = lambda i, nm: {"id": i, "name": nm, "aliases": [], "default": False}
        it = lambda task, dflt=None: {"task": task, "bind": None, "aliases": [], "default": dflt}
        sub = lambda nm, cfg, items: {"coll": {"name": nm, "auto_dash": True, "config": cfg, "items": items},
                                      "bind": None, "default": False}
        spec = {"name": None, "auto_dash": True, "config": {"k": {"x": 0, "top": 1}},
                "items": [it(t(0, "t0"), True),
                          sub("a", {"k": {"x": 1, "a": 1}, "own": {"q": 1, "r": 2}, "solo": 5}, [it(t(1, "t1"), True), it(t(3, "t3"))]),
                          sub("b", {"k": {"x": 2}}, [it(t(2, "t2"))])]}
        edits = [[["del", "item", ["k"], "a"]], [["pop", "attr", ["k"], "a", None]], [["pop", "item", ["k"], "a", {"d": 0}]],
                 [["del", "item", [], "own"]], [["del", "attr", ["own"], "q"]], [["clear", "item", ["own"]]],
                 [["popitem", "item", ["own"]]], [["pop", "item", [], "solo", None]],
                 [["del", "item", [], "solo"], ["del", "item", ["own"], "r"], ["set", "item", [], "marker", "m"]],
                 [["clear", "item", ["k"]]], [["del", "item", ["k"], "top"]]]
        # (requests, hooks, dedupe, split)
        trips = [(["a.t1", "b.t2", "a.t3"], {}, True, 0), (["a.t1", "t0", "a.t3"], {}, True, 0),
                 (["a", "b.t2", "a.t3"], {}, True, 0), (["a.t1", "b.t2", "a.t1"], {}, False, 0),
                 (["a.t1", "b.t2", "a"], {}, True, 1), (["a.t1", "b.t2", "a.t1"], {}, True, 2),
                 (["a.t1", "a.t3"], {"1": {"pre": [], "post": [2]}}, True, 0),
                 (["a.t1", "t0", "a.t3"], {"0": {"pre": [], "post": [2]}}, True, 0),
                 (["a.t1", "b.t2"], {"2": {"pre": [], "post": [3]}}, True, 0),
                 (["a.t1", "t0", "a.t3"], {"0": {"pre": [2], "post": []}}, True, 0),
                 (["a.t1", "b.t2", "t0", "a.t3", "b.t2", "a.t1"], {}, False, 0)]
        for ed, (rq, hk, dd, sp), envs in itertools.product(edits, trips, ([{}], [{}, {"INVOKE_K_A": "7", "INVOKE_SOLO": "9"}])):
            case = {"script": spec, "hooks": hk, "bodies": {"1": self._fix_ops(ed)}, "requests": rq, "dedupe": dd,
                    "init": {"defaults": {"k": {"x": -1, "d": 0}}, "overrides": {} if dd else {"tasks": {"dedupe": False}}},
                    "envs": envs}
            if sp:
                case["split"] = sp
            yield case

    # ---- implementation ------------------------------------------------------
    def run_impl(self, case):
        from invoke import Executor, Task
        infos = task_infos(case["script"])
        records = []
        state = {"k": 0}
        sess = cc.Session({"fs": [], "init": dict(case["init"], proj=None, rt=None, lazy=False)})
        envs = case["envs"] or [{}]
        saved = dict(os.environ)

        def set_env(k):
            os.environ.clear()
            os.environ.update(envs[min(k, len(envs) - 1)])

        def on_call(tid, ctx, args, kwargs):
            cfg = ctx.config
            target = ctx if case.get("via_ctx") else cfg      # edits through the Context proxy or its .config
            v0 = cc.view_of(cfg)
            outs = []
            rec = [tid, v0, outs, None]
            records.append(rec)
            for op in case["bodies"].get(str(tid), []):
                _, out = sess.try_op(target, op)
                outs.append(out)
                if cc.abnormal(out):
                    rec[3] = cc.view_of(cfg)
                    raise _Abort(out["err"])
            rec[3] = cc.view_of(cfg)
            state["k"] += 1
            set_env(state["k"])
            return None

        b = _SharingBuilder(on_call=on_call, sigs=_NoArgs())
        try:
            # task objects, highest id first, so that hooks can refer to them
            for tid in sorted(infos, reverse=True):
                h = case["hooks"].get(str(tid), {})
                b.task_kwargs[tid] = {"pre": [b.tasks[p] for p in h.get("pre", [])],
                                      "post": [b.tasks[p] for p in h.get("post", [])]}
                b.task(infos[tid])
            coll, st = ns.build_and_dump(case["script"], b)
            obs = {"state": st, "req_tids": None, "dflt_tid": None}
            if coll is None:
                return obs
            try:
                obs["req_tids"] = [ns.task_id(coll[nm]) for nm in case["requests"]]
                obs["dflt_tid"] = ns.task_id(coll[coll.default]) if coll.default else None
            except Exception as e:  # a request that does not resolve: not a C19 case
                obs["req_tids"] = None
                obs["bad_request"] = type(e).__name__
                return obs
            # lookups made before the session (an earlier session on the same tree, a listing, a
            # completion script): they answer questions and change nothing
            for how, nm in case.get("warm") or []:
                try:
                    if how == "config":
                        coll.configuration(nm)
                    elif how == "twc":
                        coll.task_with_config(nm)
                    else:
                        coll[nm]
                except Exception as e:  # noqa: a lookup that fails is not this property's subject
                    obs.setdefault("warm_errs", []).append(type(e).__name__)
            try:
                cfg = sess.construct()
            except Exception as e:  # noqa
                obs["err"] = type(e).__name__
                return obs
            set_env(0)
            escaped = None
            form = case.get("req_form", "str")
            reqs = list(case["requests"])
            names = list(case["requests"])
            if form == "pair":
                reqs = [(nm, {}) for nm in names]
            elif form == "ctx" and names:
                # the whole request list as ONE command line
                try:
                    from invoke.parser import Parser
                    parsed = Parser(contexts=coll.to_contexts()).parse_argv(list(names))
                    if len(parsed) == len(names):
                        reqs = list(parsed)
                        names = [p.name for p in parsed]      # what the executor will call them as
                except Exception:   # a name the command line does not accept (C10): plain strings
                    pass
            obs["req_names"] = names
            try:
                ex = Executor(coll, config=cfg)
                k = case.get("split") or 0
                if k:
                    ex.execute(*reqs[:k])
                    ex.execute(*reqs[k:])
                else:
                    ex.execute(*reqs)
            except _Abort as e:
                escaped = e.cls
            except RecursionError:
                escaped = "RecursionError"
            except Exception as e:  # noqa
                escaped = type(e).__name__
            obs["ok"] = {"records": records, "escaped": escaped}
            return obs
        finally:
            os.environ.clear()
            os.environ.update(saved)
            sess.close()

    # ---- Coq terms -------------------------------------------------------------
    def _scall(self, case, tid):
        h = case["hooks"].get(str(tid), {})
        return "(SCall %s %s %s)" % (ct.n(tid), ct.lst([self._scall(case, p) for p in h.get("pre", [])]),
                                     ct.lst([self._scall(case, p) for p in h.get("post", [])]))

    def to_coq(self, case, obs):
        init = cc.c_init(dict(case["init"], proj=None, rt=None, lazy=False))
        bodies = ct.lst([ct.pair(ct.n(int(t)), cc.c_ops(ops)) for t, ops in case["bodies"].items()])
        envs = ct.lst([cc.c_env(e) for e in (case["envs"] or [{}])])
        st = ct.result(obs["state"], ns.state)
        if obs.get("req_tids") is None:
            # build error or unusable request: compare the build only
            return "(mk %s %s %s [] None %s %s %s (Ok ([], None)) 0)" % (
                ns.sub(case["script"]), init, bodies, ct.b(case["dedupe"]), envs, st)
        reqs = ct.lst([ct.pair(ct.s(nm), self._scall(case, tid))
                       for nm, tid in zip(obs.get("req_names") or case["requests"], obs["req_tids"])])
        dflt = ct.opt(self._scall(case, obs["dflt_tid"]) if obs["dflt_tid"] is not None else None)
        if "ok" in obs:
            recs = ct.lst(["(%s, %s, %s, %s)" % (ct.n(r[0]), cc.c_tree(r[1]), ct.lst([cc.c_outcome(o) for o in r[2]]),
                                                 cc.c_tree(r[3] if r[3] is not None else {}))
                           for r in obs["ok"]["records"]])
            esc = obs["ok"]["escaped"]
            o = "(Ok (%s, %s))" % (recs, ct.opt(ct.err(esc) if esc is not None else None))
        else:
            o = "(Err %s)" % ct.err(obs.get("err", "Exception"))
        return "(mk %s %s %s %s %s %s %s %s %s %s)" % (
            ns.sub(case["script"]), init, bodies, reqs, dflt, ct.b(case["dedupe"]), envs, st, o,
            ct.n(case.get("split") or 0))

    # ---- classification ----------------------------------------------------------
    def _calls(self, case, obs):
        if obs.get("req_tids") is None:
            return []
        return session_calls(case, obs["req_tids"], obs["dflt_tid"])

    def nontrivial(self, case, obs):
        if "ok" not in obs or "ok" not in obs["state"]:
            return False
        recs = obs["ok"]["records"]
        if len(recs) < 2:
            return False
        if shared_labels(case["script"]):
            # a group mounted twice: the session (or the lookups before it) went through two mount points
            nms = list(obs.get("req_names") or case["requests"]) + [w[1] for w in case.get("warm") or []]
            if len(set(n.rsplit(".", 1)[0] for n in nms if "." in n)) >= 2:
                return True
        hm = homes(obs["state"]["ok"])
        places = set(len(hm.get(r[0], ())) * 100 + id(hm.get(r[0], ((),))[-1]) % 97 for r in recs)
        edited = any(("err" not in o) and op[0] in ("set", "del", "pop", "update", "setdefault", "clear", "popitem")
                     for r in recs[:-1] for op, o in zip(case["bodies"].get(str(r[0]), []), r[2]))
        return len(set(str(hm.get(r[0])) for r in recs)) >= 2 and edited

    def classify(self, case, obs):
        if "err" in obs["state"]:
            return "build-err"
        if obs.get("req_tids") is None:
            return "bad-request"
        if "ok" not in obs:
            return "init-err"
        kinds = ["escaped" if obs["ok"]["escaped"] else "n=%d" % min(len(obs["ok"]["records"]), 4)]
        calls = self._calls(case, obs)
        if any(ca is None for _, ca in calls):
            kinds.append("hooks" if case["requests"] else "default")
        if self._there_and_back(case, obs):
            kinds.append("back")
        if shared_labels(case["script"]):
            kinds.append("shared-warm" if case.get("warm") else "shared")
        return ":".join(kinds)

    def _there_and_back(self, case, obs):
        """a body deleted something, a body of ANOTHER namespace ran, then the first namespace again"""
        recs = obs["ok"]["records"]
        hk = home_keys(obs["state"]["ok"])
        for i, r in enumerate(recs):
            if not any("err" not in o and op[0] in DELETING
                       for op, o in zip(case["bodies"].get(str(r[0]), []), r[2])):
                continue
            away = False
            for r2 in recs[i + 1:]:
                if hk.get(r2[0]) != hk.get(r[0]):
                    away = True
                elif away:
                    return True
        return False

    def finding_of(self, case, obs, verdict=None):
        """Signatures (which mechanism is present) are read off the case; the judgement is made in Coq:
        the finding is named only if the specification with that finding's expectation substituted
        accepts the observation.
        F-C19: an executed pre/post task or implicitly chosen default task lives below the root, in a place
        whose path carries collection-level settings -> judged against the root configuration.
        F-C06a (C06's finding): a successful dict-valued write -> judged as a merge."""
        if "ok" not in obs or "ok" not in obs["state"]:
            return None
        dictwrite = False
        for r in obs["ok"]["records"]:
            for op, o in zip(case["bodies"].get(str(r[0]), []), r[2]):
                if "err" in o:
                    continue
                if (op[0] == "set" and isinstance(op[4], dict)) or \
                   (op[0] == "update" and any(isinstance(v, dict) for _, v in op[3])) or \
                   (op[0] == "setdefault" and op[4] is not None and isinstance(op[4]["d"], dict)):
                    dictwrite = True
        unnamed = False
        hm = homes(obs["state"]["ok"])
        ran = set(r[0] for r in obs["ok"]["records"])
        for tid, called_as in self._calls(case, obs):
            if called_as is None and tid in ran:
                path = hm.get(tid, ())
                if len(path) > 1 and any(cfg for cfg in path[1:]):
                    unnamed = True
        v = verdict or {}
        if obs["ok"]["escaped"] == "AmbiguousEnvVar":
            # F-C19c: that error escaped at a reload, the model agrees (corr), every body that ran is as
            # specified and two settings of the last view / the tree's configurations share a variable
            # name (judged in Coq: adj_fc19c); with another finding's mechanism present, its lenient form
            if not v.get("corr"):
                return None
            if v.get("adj_fc19c"):
                return "F-C19c"
            if (unnamed or dictwrite) and v.get("adj_fc19c_all"):
                return "F-C19c"
            return None
        if unnamed and v.get("adj_fc19"):
            return "F-C19"
        if dictwrite and v.get("adj_fc06a"):
            return "F-C06a"
        if unnamed and dictwrite and v.get("adj_both"):
            return "F-C19"
        return None

    _shrink_t0 = None

    def shrink_candidates(self, case):
        # sessions are expensive to re-run: a bounded number of candidates per round, 75 s in all
        if self._shrink_t0 is None:
            self._shrink_t0 = time.time()
        if time.time() - self._shrink_t0 > 75:
            return iter(())
        return itertools.islice(self._shrink_all(case), 40)

    def _shrink_all(self, case):
        for i in range(len(case["requests"])):
            yield dict(case, requests=case["requests"][:i] + case["requests"][i + 1:])
        for t, ops in case["bodies"].items():
            for i in range(len(ops)):
                b2 = dict(case["bodies"])
                b2[t] = ops[:i] + ops[i + 1:]
                if not b2[t]:
                    del b2[t]
                yield dict(case, bodies=b2)
        for t, h in case["hooks"].items():
            for kind in ("pre", "post"):
                for i in range(len(h[kind])):
                    h2 = dict(h)
                    h2[kind] = h[kind][:i] + h[kind][i + 1:]
                    hk = dict(case["hooks"])
                    hk[t] = h2
                    yield dict(case, hooks=hk)
        if len(case["envs"]) > 1:
            yield dict(case, envs=case["envs"][:1])
        for i, e in enumerate(case["envs"]):
            for k in e:
                e2 = dict(e)
                del e2[k]
                yield dict(case, envs=case["envs"][:i] + [e2] + case["envs"][i + 1:])
        for key in ("defaults", "overrides"):
            for t2 in cc.shrink_tree(case["init"][key]):
                yield dict(case, init=dict(case["init"], **{key: t2}))
        for i in range(len(case.get("warm") or [])):
            yield dict(case, warm=case["warm"][:i] + case["warm"][i + 1:])
        for lb in shared_labels(case["script"]):
            # the shared group shrunk in every place at once (one object: one content)
            g = first_shared(case["script"], lb)
            for sm in ns.shrink_spec(g):
                if set(task_infos(g)) == set(task_infos(sm)):
                    yield dict(case, script=map_shared(case["script"], lb, lambda _c, sm=sm: dict(sm, share=lb)))
        used = set(int(t) for t in case["bodies"]) | set(int(t) for t in case["hooks"]) | \
            set(p for h in case["hooks"].values() for p in h["pre"] + h["post"])
        for sp in ns.shrink_spec(case["script"]):
            if used <= set(task_infos(sp)):
                yield dict(case, script=sp)

    def mutate(self, case, rng):
        _, st = ns.build_and_dump(case["script"])
        names = ns.resolvable_names(st["ok"]) if "ok" in st else []
        for _ in range(25):
            if names:
                yield dict(case, requests=[rng.choice(names) for _ in range(rng.randint(1, 3))])
        # the same tree and settings, with a there-and-back itinerary around a deletion of a setting
        # that only the first namespace supplies
        for _ in range(25):
            c2 = self._directed_back(rng, case)
            if c2 is not case:
                yield self._finish(rng, c2)
        # one of the tree's sub-collections added to a second parent, tasks through both mount points
        for _ in range(15):
            c2 = self._share_again(rng, case)
            if c2 is not case:
                yield self._finish(rng, c2)
        for _ in range(10):
            c2 = self._shared_case(rng)
            if c2 is not None:
                yield self._finish(rng, c2)
        # the bodies of the case as they are, the requested tasks once more after the others
        # (dedupe off, or a second execute()): whatever was deleted must stay deleted
        if len(case["requests"]) >= 2 and not case["hooks"]:
            again = case["requests"] + case["requests"][:1]
            ov = dict(case["init"]["overrides"], tasks={"dedupe": False})
            yield dict(case, requests=again, dedupe=False, split=0, init=dict(case["init"], overrides=ov))
            if case["dedupe"]:
                yield dict(case, requests=again, split=len(case["requests"]))


class _SharingBuilder(ns.Builder):
    """a collection spec carrying "share": <label> is built ONCE per (label, content): every further
    occurrence is the SAME Collection object, added to another parent (a reusable task group mounted
    under several namespaces).  Occurrences whose content differs are different objects, as in the
    model, where every occurrence is its own subtree."""

    def __init__(self, *a, **k):
        ns.Builder.__init__(self, *a, **k)
        self.shared_colls = {}

    def coll(self, spec, attach=None):
        label = spec.get("share") if isinstance(spec, dict) else None
        if label is None:
            return ns.Builder.coll(self, spec, attach)
        key = json.dumps([label, spec], sort_keys=True)
        if key not in self.shared_colls:
            self.shared_colls[key] = ns.Builder.coll(self, spec, None)
        c = self.shared_colls[key]
        if attach is not None:
            attach(c)
        return c


def shared_labels(spec, out=None):
    """label -> number of occurrences"""
    out = {} if out is None else out
    for it in spec.get("items", []):
        if "coll" in it:
            lb = it["coll"].get("share")
            if lb is not None:
                out[lb] = out.get(lb, 0) + 1
            shared_labels(it["coll"], out)
    return out


def map_shared(spec, label, f):
    """the script with f applied to every occurrence of the shared collection [label]"""
    items = []
    for it in spec.get("items", []):
        if "coll" in it:
            sub = it["coll"]
            sub = f(sub) if sub.get("share") == label else map_shared(sub, label, f)
            it = dict(it, coll=sub)
        items.append(it)
    return dict(spec, items=items)


def first_shared(spec, label):
    for it in spec.get("items", []):
        if "coll" in it:
            if it["coll"].get("share") == label:
                return it["coll"]
            r = first_shared(it["coll"], label)
            if r is not None:
                return r
    return None


class _NoArgs(dict):
    def get(self, k, default=None):
        return ""


PROP = C19()
