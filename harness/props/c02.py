"""C02: captured and mirrored output equals what the command wrote."""
import codecs
import itertools
import os
import sys
import threading
import time

from .. import coqterm as ct
from .. import core
from .. import runner_common as rc
from ..core import Prop

ENC = {"utf-8": "Utf8", "latin-1": "Latin1", "ascii": "Ascii"}
HIDE = {"none": "HNone", "false": "HFalse", "true": "HTrue", "out": "HOut", "stdout": "HStdout",
        "err": "HErr", "stderr": "HStderr", "both": "HBoth"}

# what the mirror stream objects advertise as .encoding (None: no such attribute)
MENC = {None: "MNone", "utf-8": "MUtf8", "ascii": "MAscii", "latin-1": "MLatin1", "cp1252": "MCp1252"}
NARROW = ("ascii", "latin-1", "cp1252")


def hidden_streams(case):
    """(stdout hidden, stderr hidden) by the documented table"""
    h = case.get("hide", "none")
    a = bool(case.get("async"))
    ho = (a or h in ("out", "stdout", "both", "true")) and not case.get("out_given")
    he = (a or h in ("err", "stderr", "both", "true")) and not case.get("err_given")
    return ho, he


def unrepresentable(s, enc):
    """some character of s cannot be encoded in enc"""
    try:
        s.encode(enc)
        return False
    except UnicodeEncodeError:
        return True


def mirror_class(case, obs):
    """how far the case exercises the mirror stream's encoding attribute: the strongest of the two streams.
    narrow!  = a shown stream advertises ascii/latin-1/cp1252 and the command's text has a character that
               encoding cannot represent (the dimension bites);  narrow = narrow encoding, all representable;
    utf-8 / plain (no .encoding) likewise; none = nothing was forwarded (hidden or empty).  +W: that stream
    is a real TextIOWrapper(errors=backslashreplace)"""
    rank = {"none": 0, "plain": 1, "utf-8": 2, "narrow": 3, "narrow!": 4}
    best = "none"
    ho, he = hidden_streams(case)
    for who, hid, txt in (("out", ho, obs.get("stdout") or ""), ("err", he, obs.get("stderr") or "")):
        if hid or not txt:
            continue
        m = case.get(who + "_menc")
        if m is None:
            k = "plain"
        elif m == "utf-8":
            k = "utf-8"
        else:
            k = "narrow!" if unrepresentable(txt, m) else "narrow"
        if m is not None and case.get(who + "_wrap"):
            k += "+W"
        if rank[k.replace("+W", "")] > rank[best.replace("+W", "")] or \
                (rank[k.replace("+W", "")] == rank[best.replace("+W", "")] and k.endswith("+W")):
            best = k
    return best


# what sys.stdin is while the command runs: backed by a descriptor / fileno() raises / no fileno method
STDIN = ("file", "nofileno", "noattr")


def pty_request(case):
    """(pty asked for, sys.stdin has a usable fileno, effective fallback option)"""
    fb = case.get("fallback")
    return bool(case.get("pty")), case.get("stdin", "file") == "file", True if fb is None else bool(fb)


def pty_class(case):
    """the 'pty asked for x pty in effect' dimension: no-pty / pty (asked for, in effect) / pty>pipes (asked for,
    sys.stdin without fileno, fell back to pipes) / pty!fallback (sys.stdin without fileno but fallback=False)"""
    p, f, fb = pty_request(case)
    if not p:
        return "no-pty"
    if f:
        return "pty"
    return "pty>pipes" if fb else "pty!fallback"


# byte alphabet covering every lead/continuation class boundary of UTF-8
BOUNDARY = [0x00, 0x0A, 0x0D, 0x41, 0x7F, 0x80, 0x8F, 0x90, 0x9F, 0xA0, 0xBF, 0xC0, 0xC1, 0xC2, 0xDF, 0xE0,
            0xE1, 0xEC, 0xED, 0xEE, 0xEF, 0xF0, 0xF1, 0xF3, 0xF4, 0xF5, 0xFF]
FRAGS = [b"a", b"b", b"\n", b"\r", b"\r\n", b"x\r\ny\rz\n", "é".encode(), "€".encode(), "\U0001F600".encode(),
         "߿".encode(), "ࠀ".encode(), "퟿".encode(), "\U00010000".encode(),
         "\U0010ffff".encode(), b"\x80", b"\xff", b"\xc0\xaf", b"\xe0\x80", b"\xed\xa0\x80",
         b"\xf4\x90\x80\x80", b"\xc3", b"\xe2\x82", b"\xf0\x9f\x98", b"\xf0\x9f"]


def _default_enc():
    """the encoding the code picks when neither kwarg nor config names one, if modelled"""
    import locale
    try:
        name = codecs.lookup(locale.getpreferredencoding(False)).name
    except LookupError:
        return None
    return {"utf-8": "utf-8", "iso8859-1": "latin-1", "ascii": "ascii"}.get(name)


DEFAULT_ENC = _default_enc()
BOUNDARY25 = [0x00, 0x41, 0x7F, 0x80, 0x8F, 0x90, 0x9F, 0xA0, 0xBF, 0xC0, 0xC1, 0xC2, 0xDF, 0xE0,
              0xE1, 0xEC, 0xED, 0xEE, 0xEF, 0xF0, 0xF1, 0xF3, 0xF4, 0xF5, 0xFF]   # exhaustive decoder sweep


def nl(xs):
    return "[" + ";".join(str(int(x)) for x in xs) + "]%N"


def text(sx):
    return nl(ord(c) for c in sx)


def texts(l):
    return "[" + ";".join(text(x) for x in l) + "]"


def scripts_of(case):
    """per-stream read scripts (Coq [list rev]) from the ordered event list"""
    out, err = [], []
    for ev in case["events"]:
        if ev[0] == "out":
            out.append("RChunk " + nl(ev[1]))
        elif ev[0] == "err":
            err.append("RChunk " + nl(ev[1]))
        elif ev[0] == "exit":
            out.append("RExit")
            err.append("RExit")
    return "[" + ";".join(out) + "]", "[" + ";".join(err) + "]"


def chunks_before_eof(case, who):
    res = []
    for ev in case["events"]:
        if ev[0] == who:
            if not ev[1]:
                break
            res.append(bytes(ev[1]))
    return res


def cut_inside_sequence(chunks):
    """some read but the last ends while a fresh UTF-8 decoder is mid-sequence"""
    for c in chunks[:-1]:
        d = codecs.getincrementaldecoder("utf-8")("replace")
        d.decode(c)
        if d.getstate()[0]:
            return True
    return False


def split(rng, data, p=0.45, safe=False):
    """random cut set; safe=True: only where a UTF-8 decoder is between characters"""
    if not data:
        return []
    cuts = [i for i in range(1, len(data)) if rng.random() < p]
    if safe:
        ok = set()
        d = codecs.getincrementaldecoder("utf-8")("replace")
        for i, b in enumerate(data):
            d.decode(bytes([b]))
            if not d.getstate()[0]:
                ok.add(i + 1)
        cuts = [c for c in cuts if c in ok]
    parts, last = [], 0
    for c in cuts + [len(data)]:
        parts.append(list(data[last:c]))
        last = c
    return parts


def rand_bytes(rng, enc):
    r = rng.random()
    if r < 0.08:
        return b""
    n = rng.choice([1, 1, 2, 2, 3, 3, 4, 5, 8])
    if r < 0.75:
        return b"".join(rng.choice(FRAGS) for _ in range(n))[:14]
    return bytes(rng.choice(BOUNDARY) for _ in range(n + 1))


class _Decode:
    """pseudo-plugin for the decoder-validation shards"""
    id = "C02"
    corr_module = "Corr.C02Corr"
    case_type = "dcase"
    preds = ("dcorr", "dspec")
    shard_size = 1500


class _Wrap:
    """pseudo-plugin for the wrapper-validation shards (Common/MirrorStream.render vs io.TextIOWrapper)"""
    id = "C02"
    corr_module = "Corr.C02Corr"
    case_type = "wcase"
    preds = ("wcorr",)
    shard_size = 1500


class C02(Prop):
    id = "C02"
    corr_module = "Corr.C02Corr"
    preds = ("corr", "spec")
    quick_n = 1200
    thorough_n = 20000
    shard_size = 250
    rule = ("scripted runs of the real Runner: stdout/stderr byte strings built from 1-4-byte UTF-8 "
            "sequences, boundary code points, overlong/surrogate/out-of-range/truncated/invalid bytes, split at "
            "random cut sets, interleaved with each other and with the exit event at a random position; "
            "hide x out_stream/err_stream override x pty x async x exit code/warn matrix; pty asked for (30%) x "
            "sys.stdin file/fileno() raises/no fileno method x fallback absent/True/False, the scripted runner deciding "
            "pty-or-pipes by the real Local.should_use_pty (a pty asked for falls back to pipes in ~45% of those, key "
            "pty>pipes: both streams are then owed); encodings utf-8 "
            "(70%), latin-1, ascii; the mirror stream objects (given out_stream/err_stream or the sys.stdout/"
            "sys.stderr stand-ins) advertise .encoding None(no attribute)/utf-8/ascii/latin-1/cp1252 "
            "independently per stream (30/10/22/19/19 %), 35% of the encoded ones are real io.TextIOWrapper("
            "BytesIO, errors='backslashreplace') objects whose decoded content is the observation; the "
            "input_distribution key ends in mirror:<class> (narrow! = a shown stream with a narrow encoding "
            "received text that encoding cannot represent).  Non-trivial = some stream has > 1 read, or a multi-byte/invalid byte; "
            "distinct by the whole case")
    trusted_base = [
        "Coq 8.16.1 kernel + vm_compute (shard evaluation, refutation witnesses)",
        "hand-written models coq/Model/Utf8Model.v, ReadLoopModel.v tied to invoke/runners.py "
        "(read_proc_output, _handle_output, decode, normalize_hide, create_io_threads, _collate_result) by "
        "differential execution through harness/runner_common.py ScriptedRunner (this run)",
        "decoder model and reference decoder validated against CPython bytes.decode(enc,'replace') (this run)",
        "harness/runner_common.py (scripted OS primitives), harness/props/c02.py, harness/coqterm.py",
        "coq/Common/MirrorStream.v: what an io.TextIOWrapper(errors='backslashreplace') in ascii/latin-1/cp1252/"
        "utf-8 makes of a text (environment, shared by model and spec), validated against the real class (this run)",
        "CPython 3.12 executing VERIF_REPO; Linux pipe semantics for the real-child runs",
    ]
    assumptions = [
        "OS contract (layer 3, assumed): a pipe/pty read returns empty (pty: EIO) only after every writer "
        "closed and the buffer is drained; reads deliver the written bytes in order without loss",
        "Coq model: encodings utf-8, latin-1, ascii (none of them ever takes the per-read fallback of "
        "read_proc_output).  Other codecs are tested, not proved: shift_jis, gbk, utf-8-sig and BOM-bearing "
        "utf-16/utf-32 decode incrementally; BOM-less utf-16/utf-32 make the incremental decoder raise, so "
        "the code falls back to decoding read by read -- for those streams a character (or surrogate pair) cut "
        "by a read boundary still comes out as replacement characters, i.e. the old F-C02 behaviour",
        "capture buffers are read only after the worker was joined (C08 invariant)",
        "since the F-C02 fix output is decoded by a codecs incremental decoder inside read_proc_output: a "
        "subclass overriding Runner.decode() no longer influences how OUTPUT is decoded (decode() is still "
        "used for byte-mode input streams)",
        "CPython's incremental UTF-8 decoder holds back a truncated ED A0..BF pair until the next read: per-read "
        "pieces (and so the growing prefixes shown to watchers) can lag the model by one read in that corner; "
        "the correspondence compares the four texts",
    ]
    not_modelled = [
        "scheduler preemption inside a Python statement; real thread interleavings between the two workers "
        "(they share no state in the model; the scripted runs serialise event delivery)",
        "kernel pipe buffering / pty line discipline (CRLF translation, echo) -- real-child runs are tests",
        "Windows newline normalisation in _collate_result",
        "time: the model has no clock; that a slow consumer of the mirrored text does not cost captured output "
        "is checked by one scripted case (corpus: slow out_stream) and one real child (36 KB, slow out_stream)",
        "Local.read_proc_stdout/err (os.read, EIO-as-EOF) are exercised only by the real-child runs",
        "pty asked for vs in effect: the scripted runner runs the real Local.should_use_pty against a sys.stdin "
        "stand-in (file / fileno() raises / no fileno method) with the one-off fallback warning counted as already "
        "given (the warning text on sys.stderr is not modelled or judged); Runner.should_use_pty of other subclasses, "
        "run.pty / run.fallback from configuration files and a pty that cannot be allocated for other reasons are not varied",
        "mirror streams: advertised encodings None/utf-8/ascii/latin-1/cp1252 and the backslashreplace handler "
        "only; a stream whose write() raises (errors='strict' on an unrepresentable character) kills the IO worker "
        "-- that is C08's ground, not generated here; stream attributes other than .encoding/.errors are not varied",
    ]

    # ------------------------------------------------------------------ cases
    def _case(self, rng, force_enc=None):
        enc = force_enc or rng.choice(["utf-8"] * 7 + ["latin-1", "ascii", "ascii"])
        pty = rng.random() < 0.3
        evs = []
        safe = rng.random() < 0.55          # keep the defect-free region well populated
        out = [["out", c] for c in split(rng, rand_bytes(rng, enc), safe=safe)]
        err = [["err", c] for c in split(rng, rand_bytes(rng, enc), safe=safe)]
        if rng.random() < 0.04 and out:
            out.insert(rng.randrange(len(out) + 1), ["out", []])      # premature empty read
        if rng.random() < 0.5:
            out.append(["out", []])
        if rng.random() < 0.5:
            err.append(["err", []])
        # random interleaving preserving per-stream order
        i = j = 0
        while i < len(out) or j < len(err):
            if j >= len(err) or (i < len(out) and rng.random() < 0.5):
                evs.append(out[i])
                i += 1
            else:
                evs.append(err[j])
                j += 1
        code = rng.choice([0, 0, 0, 1, 2, -9])
        evs.insert(rng.randrange(len(evs) + 1), ["exit", code])
        enc_from = rng.choice(["kwarg", "kwarg", "config"])
        if DEFAULT_ENC == enc and rng.random() < 0.3:
            enc_from = "default"
        enc_cfg = None
        if enc_from == "kwarg" and rng.random() < 0.3:
            enc_cfg = rng.choice([e for e in ENC if e != enc])      # the keyword must win over the config
        case = {
            "enc_from": enc_from, "enc_cfg": enc_cfg,
            "events": evs, "enc": enc, "hide": rng.choice(list(HIDE)),
            "out_given": rng.random() < 0.3, "err_given": rng.random() < 0.3,
            "pty": pty, "async": rng.random() < 0.15, "warn": rng.random() < 0.5,
        }
        case.update(self._mirrors(rng))
        case.update(self._stdin(rng, pty))
        return case

    @staticmethod
    def _stdin(rng, pty):
        """what sys.stdin is during the run and the fallback= keyword (None: not passed)"""
        r = rng.random()
        lim = 0.4 if pty else 0.7
        kind = "file" if r < lim else "nofileno" if r < lim + (1 - lim) * 0.6 else "noattr"
        return {"stdin": kind, "fallback": rng.choice([None, None, None, True, False])}

    @staticmethod
    def _mirrors(rng):
        """what the two mirror stream objects advertise as .encoding, and whether they are real wrappers"""
        d = {}
        for who in ("out", "err"):
            r = rng.random()
            m = None if r < 0.30 else "utf-8" if r < 0.40 else "ascii" if r < 0.62 else \
                "latin-1" if r < 0.81 else "cp1252"
            d[who + "_menc"] = m
            d[who + "_wrap"] = m is not None and rng.random() < 0.35
        return d

    def pty_family(self, tier):
        """pty asked for x sys.stdin x fallback x which streams carry data x hide x given streams: small
        deterministic sweep (quick 48, thorough 576 cases), yielded first by generate"""
        outs = [[["out", [111, 195]], ["out", [169, 10]]], []]
        errs = [[["err", [101]], ["err", [226, 130]], ["err", [172]]], []] if tier == "thorough" else \
            [[["err", [101, 226]], ["err", [130, 172]]]]
        hides = ["none", "err", "both", "out"] if tier == "thorough" else ["none", "err"]
        k = 0
        for pty in (True, False):
            for stdin in STDIN:
                for fb in (None, True, False):
                    if not pty and (stdin, fb) not in (("file", None), ("nofileno", None), ("noattr", False)):
                        continue
                    for o in outs:
                        for e in errs:
                            for h in hides:
                                for given in ((True, True), (False, False), (False, True)) if tier == "thorough" \
                                        else ((k % 2 == 0, k % 3 != 0),):
                                    k += 1
                                    evs = [list(x) for x in o + e]
                                    evs.insert((k * 7) % (len(evs) + 1), ["exit", (0, 1, 0, -9)[k % 4]])
                                    yield {"enc_from": "kwarg", "enc_cfg": None, "events": evs, "enc": "utf-8",
                                           "hide": h, "out_given": given[0], "err_given": given[1], "pty": pty,
                                           "async": k % 11 == 0, "warn": True, "stdin": stdin, "fallback": fb,
                                           "out_menc": None, "out_wrap": False,
                                           "err_menc": (None, "ascii", "latin-1")[k % 3], "err_wrap": k % 6 == 1}

    def generate(self, rng, tier, n):
        fam = list(self.pty_family(tier))
        for c in fam[:n]:
            yield c
        for _ in range(max(0, n - len(fam))):
            yield self._case(rng)

    def enumerate_small(self, tier):
        """all cut sets of all fragment strings of <= 6 bytes (stdout only), exit first / last"""
        frags = [b"a", "é".encode(), "€".encode(), "\U0001F600".encode(), b"\x80", b"\xc3",
                 b"\xe2\x82", b"\xed\xa0"]
        seen = set()
        limit = 6 if tier == "thorough" else 4
        mirrors = [(None, False), ("ascii", False), ("latin-1", False), ("cp1252", False), ("utf-8", False),
                   ("ascii", True), ("latin-1", True), ("cp1252", True)]
        ptys = [(True, "nofileno", None), (True, "file", None), (True, "noattr", True), (True, "nofileno", False),
                (False, "nofileno", None), (True, "noattr", None), (False, "file", False), (True, "file", True)]
        count = 0
        for k in range(1, 4):
            for combo in itertools.product(frags, repeat=k):
                data = b"".join(combo)
                if len(data) > limit or data in seen:
                    continue
                seen.add(data)
                n = len(data)
                for mask in range(1 << (n - 1)):
                    parts, last = [], 0
                    for i in range(1, n):
                        if mask >> (i - 1) & 1:
                            parts.append(list(data[last:i]))
                            last = i
                    parts.append(list(data[last:]))
                    evs = [["out", p] for p in parts]
                    pos = 0 if mask % 2 else len(evs)
                    evs.insert(pos, ["exit", 0])
                    m, w = mirrors[count % len(mirrors)]
                    count += 1
                    yield {"events": evs, "enc": "utf-8", "hide": "none", "out_given": bool(count % 3),
                           "err_given": False, "pty": False, "async": False, "warn": False,
                           "out_menc": m, "out_wrap": w, "err_menc": None, "err_wrap": False}
                    if count % 4 == 0:
                        # the same bytes on stderr, under each way of asking for a pty
                        pty, stdin, fb = ptys[(count // 4) % len(ptys)]
                        evs2 = [["err" if e[0] == "out" else e[0], e[1]] for e in evs]
                        yield {"events": evs2, "enc": "utf-8", "hide": "none", "out_given": False,
                               "err_given": bool(count % 3), "pty": pty, "stdin": stdin, "fallback": fb,
                               "async": False, "warn": False,
                               "out_menc": None, "out_wrap": False, "err_menc": m, "err_wrap": w}

    # ------------------------------------------------------------------ impl
    def run_impl(self, case):
        o = rc.run_scripted(dict(case))
        done = (not o["hang"]) and o["stdout"] is not None
        return {
            "silent": o["out_other"] == "" and o["err_other"] == "",
            "done": done, "hang": o["hang"], "outcome": o["outcome"],
            "stdout": o["stdout"] or "", "stderr": o["stderr"] or "",
            "out_stream": o["out_stream"], "err_stream": o["err_stream"],
            "out_submits": o["out_submits"], "err_submits": o["err_submits"],
        }

    def to_coq(self, case, obs):
        so, se = scripts_of(case)
        ef = case.get("enc_from", "kwarg")
        kw = "(Some %s)" % ENC[case["enc"]] if ef == "kwarg" else "None"
        cf = "(Some %s)" % ENC[case["enc"]] if ef == "config" else \
            ("(Some %s)" % ENC[case["enc_cfg"]] if case.get("enc_cfg") else "None")
        loc = ENC[DEFAULT_ENC] if DEFAULT_ENC else ENC[case["enc"]]
        mo = "(mkMirror %s %s)" % (MENC[case.get("out_menc")], ct.b(bool(case.get("out_menc")) and bool(case.get("out_wrap"))))
        me = "(mkMirror %s %s)" % (MENC[case.get("err_menc")], ct.b(bool(case.get("err_menc")) and bool(case.get("err_wrap"))))
        i = "(mkIn (effective_encoding %s %s %s) %s %s %s %s %s %s %s %s %s)" % (
            kw, cf, loc, so, se, HIDE[case["hide"]], ct.b(case["out_given"]), ct.b(case["err_given"]),
            " ".join(ct.b(x) for x in pty_request(case)), ct.b(case["async"]), mo, me)
        o = "(mkObs %s %s %s %s %s %s)" % (
            text(obs["stdout"]), text(obs["stderr"]), text(obs["out_stream"]), text(obs["err_stream"]),
            texts(obs["out_submits"]), texts(obs["err_submits"]))
        return "(mk %s %s %s %s)" % (i, ct.b(obs["done"]), ct.b(obs.get("silent", True)), o)

    def nontrivial(self, case, obs):
        for who in ("out", "err"):
            ch = chunks_before_eof(case, who)
            if len(ch) > 1 or any(b >= 0x80 for c in ch for b in c):
                return True
        return False

    def classify(self, case, obs):
        n = max(len(chunks_before_eof(case, "out")), len(chunks_before_eof(case, "err")))
        pc = pty_class(case)
        return "%s%s%s reads:%s mirror:%s" % (case["enc"], "" if pc == "no-pty" else " " + pc,
                                              " async" if case["async"] else "",
                                              "0" if n == 0 else "1" if n == 1 else "2+", mirror_class(case, obs))

    def finding_of(self, case, obs):
        return None          # F-C02 is fixed (incremental decoder): a cut character is a VIOLATION again

    _budget = rc.ShrinkBudget(45.0)

    def shrink_candidates(self, case):
        if not self._budget.ok():
            return
        evs = case["events"]
        for i in range(len(evs)):
            if evs[i][0] != "exit":
                yield dict(case, events=evs[:i] + evs[i + 1:])
        for i in range(len(evs)):
            if evs[i][0] == "exit" and i:       # exit first
                yield dict(case, events=[evs[i]] + evs[:i] + evs[i + 1:])
        for i, ev in enumerate(evs):
            if ev[0] in ("out", "err") and len(ev[1]) > 1:
                for j in range(len(ev[1])):
                    yield dict(case, events=evs[:i] + [[ev[0], ev[1][:j] + ev[1][j + 1:]]] + evs[i + 1:])
        for k, v in (("hide", "none"), ("out_given", True), ("err_given", True), ("pty", False),
                     ("fallback", None), ("stdin", "file"), ("stdin", "nofileno"),
                     ("async", False), ("warn", True), ("out_wrap", False), ("err_wrap", False),
                     ("out_menc", None), ("err_menc", None), ("out_menc", "ascii"), ("err_menc", "ascii")):
            if k == "stdin" and "stdin" not in case:
                continue
            if case.get(k) != v and not (v == "ascii" and case.get(k) is None):
                yield dict(case, **{k: v})
        # merge adjacent reads of the same stream
        for i in range(len(evs) - 1):
            a, b = evs[i], evs[i + 1]
            if a[0] == b[0] and a[0] in ("out", "err") and a[1] and b[1]:
                yield dict(case, events=evs[:i] + [[a[0], a[1] + b[1]]] + evs[i + 2:])

    def mutate(self, case, rng):
        for _ in range(40):
            c = self._case(rng, force_enc=case["enc"])
            for k in ("hide", "out_given", "err_given", "pty", "async", "out_menc", "err_menc", "out_wrap", "err_wrap",
                      "stdin", "fallback"):
                if rng.random() < 0.6 and (k != "stdin" or "stdin" in case):
                    c[k] = case.get(k)
            yield c
        # the neighbours along the pty dimension of the case itself
        for pty, stdin, fb in itertools.product((True, False), STDIN, (None, True, False)):
            if (pty, stdin, fb) != (bool(case.get("pty")), case.get("stdin"), case.get("fallback")):
                yield dict(case, pty=pty, stdin=stdin, fallback=fb)

    # ------------------------------------------------------------------ extra
    def extra_checks(self, tier, seed):
        return [self._decoder_validation(tier, seed), self._wrapper_validation(tier, seed),
                self._other_codecs(tier, seed), self._real_children(tier, seed)]

    def _wrapper_validation(self, tier, seed):
        """Common/MirrorStream.render (what a backslashreplace TextIOWrapper makes of a text) against the real
        io.TextIOWrapper, written to in random pieces"""
        import random
        rng = random.Random(seed + 41)
        cps = set(range(0, 0x300)) | {0xD7FF, 0xD800, 0xDBFF, 0xDC00, 0xDFFF, 0xE000, 0xFFFD, 0xFFFE, 0xFFFF,
                                      0x10000, 0x1F600, 0x10FFFF, 0x7FF, 0x800, 0xFFF, 0x1000}
        for c in (0x20AC, 0x201A, 0x0192, 0x201E, 0x2026, 0x2020, 0x2021, 0x02C6, 0x2030, 0x0160, 0x2039, 0x0152,
                  0x017D, 0x2018, 0x2019, 0x201C, 0x201D, 0x2022, 0x2013, 0x2014, 0x02DC, 0x2122, 0x0161, 0x203A,
                  0x0153, 0x017E, 0x0178):
            cps |= {c - 1, c, c + 1}
        cps = sorted(cps)
        items = [(m, chr(c)) for m in NARROW + ("utf-8",) for c in cps]
        nrand = 300 if tier == "quick" else 5000
        for _ in range(nrand):
            k = rng.randint(0, 12)
            t = "".join(chr(rng.choice(cps)) if rng.random() < 0.7 else chr(rng.randrange(0x110000))
                        for _ in range(k))
            items.append((rng.choice(NARROW + ("utf-8",)), t))
        terms, shown = [], []
        for m, t in items:
            w = rc.WrapRecorder(m)
            i = 0
            while i < len(t):                       # piecewise, as the read loop forwards it
                j = i + rng.randint(1, 4)
                w.write(t[i:j])
                w.flush()
                i = j
            got = w.text()
            shown.append(got)
            terms.append("(mkw %s %s %s)" % (MENC[m], text(t), text(got)))
        res = core.eval_shards(_Wrap, terms, "wrap")
        fails = []
        for (m, t), g, r in zip(items, shown, res):
            if not r["wcorr"]:
                fails.append({"case": {"encoding": m, "text": [ord(c) for c in t]},
                              "what": "MirrorStream.render disagrees with io.TextIOWrapper(errors='backslashreplace'): "
                                      "wrapper content %r" % g})
        return {"name": "wrapper-validation", "evaluations": len(items), "failures": fails[:5],
                "note": "Common/MirrorStream.render vs a real io.TextIOWrapper(BytesIO, errors='backslashreplace', "
                        "write_through=True) written to in pieces of 1-4 characters: every code point below U+0300, "
                        "the 27 cp1252 specials and their neighbours, surrogate/plane boundaries (%d code points) x "
                        "ascii/latin-1/cp1252/utf-8, plus %d random texts" % (len(cps), nrand)}

    def _other_codecs(self, tier, seed):
        """Encodings outside the Coq model (shift_jis, gbk, BOM-bearing utf-16/32, utf-8-sig): scripted
        runs through the real Runner, random cut sets, compared in Python with the decoding of the whole
        stream.  BOM-less utf-16/utf-32 take the per-read fallback of read_proc_output (the incremental
        decoders insist on a BOM), i.e. the old F-C02 behaviour: for them only cuts at code-unit
        boundaries are generated."""
        import random
        rng = random.Random(seed + 29)
        texts = ["日本語テキスト", "汉字 and ascii", "a\u00e9\u20ac\U0001F600z", "x", ""]
        plans = [("shift_jis", lambda s: s.encode("shift_jis", "replace"), 1),
                 ("gbk", lambda s: s.encode("gbk", "replace"), 1),
                 ("utf-16", lambda s: s.encode("utf-16"), 1),                # with BOM
                 ("utf-32", lambda s: s.encode("utf-32"), 1),
                 ("utf-8-sig", lambda s: s.encode("utf-8-sig"), 1),
                 ("utf-16", lambda s: s.encode("utf-16-le"), 2),             # BOM-less: fallback, aligned cuts
                 ("utf-32", lambda s: s.encode("utf-32-le"), 4)]
        reps = 4 if tier == "quick" else 40
        fails, evals = [], 0
        for enc, mk, align in plans:
            for s in texts:
                data = mk(s)
                if align == 2 and any(0xD800 <= ord(ch) <= 0xDFFF or ord(ch) > 0xFFFF for ch in s):
                    data = mk("".join(ch for ch in s if ord(ch) <= 0xFFFF))   # keep surrogate pairs whole
                for _ in range(reps):
                    cuts = sorted(set(c for c in (rng.randrange(0, len(data) + 1, align) for _ in range(3))
                                      if 0 < c < len(data)))
                    if align > 1 and data and rng.random() < 0.5:
                        # the FIRST read shorter than one code unit: the incremental decoder holds it back and
                        # refuses on the next read; the fallback must re-prepend what was held
                        cuts = sorted(set([rng.randrange(1, align)] + cuts))
                    parts, last = [], 0
                    for c in cuts + [len(data)]:
                        if c > last:
                            parts.append(list(data[last:c]))
                        last = c
                    who = rng.choice(["out", "err"])
                    evs = [[who, p] for p in parts]
                    evs.insert(rng.randrange(len(evs) + 1), ["exit", 0])
                    hide = rng.choice(["none", "both"])
                    case = {"events": evs, "enc": enc, "hide": hide, "out_given": hide == "none",
                            "err_given": hide == "none", "pty": False, "async": False, "warn": True,
                            "enc_from": rng.choice(["kwarg", "config"]),
                            "out_menc": rng.choice(list(MENC)), "err_menc": rng.choice(list(MENC))}
                    evals += 1
                    o = rc.run_scripted(case)
                    want = data.decode(enc, "replace")
                    got = o["stdout"] if who == "out" else o["stderr"]
                    mirror = o["out_stream"] if who == "out" else o["err_stream"]
                    if o["hang"] or o["outcome"] != "Result" or got != want or \
                            mirror != ("" if case["hide"] == "both" else want):
                        fails.append({"case": case, "what": {"outcome": o["outcome"], "want": want, "got": got,
                                                             "mirror": mirror}})
        return {"name": "other-codecs", "evaluations": evals, "failures": fails[:5],
                "note": "shift_jis, gbk, utf-16/utf-32 with BOM, utf-8-sig: arbitrary cut sets; BOM-less "
                        "utf-16/utf-32 (per-read fallback): cuts at code-unit boundaries only"}

    def _decoder_validation(self, tier, seed):
        import random
        rng = random.Random(seed + 17)
        items = []
        for n in range(0, 4):
            for t in itertools.product(BOUNDARY25, repeat=n):
                items.append(("utf-8", bytes(t)))
        nrand = 2000 if tier == "quick" else 100000
        for _ in range(nrand):
            k = rng.randint(4, 24)
            if rng.random() < 0.5:
                b = bytes(rng.choice(BOUNDARY) for _ in range(k))
            elif rng.random() < 0.5:
                b = b"".join(rng.choice(FRAGS) for _ in range(k // 2))
            else:
                b = bytes(rng.randrange(256) for _ in range(k))
            items.append((rng.choice(["utf-8", "utf-8", "utf-8", "latin-1", "ascii"]), b))
        for b in range(256):
            items.append(("latin-1", bytes([b])))
            items.append(("ascii", bytes([b])))
            items.append(("utf-8", bytes([b])))
        terms = ["(mkd %s %s %s)" % (ENC[e], nl(b), text(b.decode(e, "replace"))) for e, b in items]
        res = core.eval_shards(_Decode, terms, "dec")
        fails = []
        for (e, b), r in zip(items, res):
            if not (r["dcorr"] and r["dspec"]):
                fails.append({"case": {"enc": e, "bytes": list(b)},
                              "what": "decoder %s disagrees with CPython bytes.decode(%r,'replace')"
                                      % ("model" if not r["dcorr"] else "reference", e)})
        return {"name": "decoder-validation", "evaluations": len(items), "failures": fails[:5],
                "note": "Utf8Model.decode_all and C02Spec.ref_decode vs CPython, exhaustive for all byte strings "
                        "of length <= 3 over the 25-byte class-boundary alphabet (16276), all 256 single bytes "
                        "x 3 encodings, %d random strings of 4-24 bytes" % nrand}

    def _real_children(self, tier, seed):
        """real child processes through Local: sizes around the 1000-byte read and the 64 KiB pipe
        buffer, immediate exit, stdout/stderr interleaved"""
        sizes = [0, 1, 999, 1000, 1001, 65536, 70001] if tier == "quick" else \
            [0, 1, 999, 1000, 1001, 1999, 2000, 4096, 65535, 65536, 65537, 70001, 200000, 1000003]
        cases = []
        for n in sizes:
            cases.append({"n_out": n, "n_err": 0, "kind": "ascii", "pty": False})
        cases.append({"n_out": 70001, "n_err": 70001, "kind": "ascii", "pty": False})
        cases.append({"n_out": 3000, "n_err": 0, "kind": "ascii", "pty": True})
        cases.append({"n_out": 1500, "n_err": 1500, "kind": "latin1", "pty": False})
        cases.append({"n_out": 999, "n_err": 0, "kind": "straddle", "pty": False})
        cases.append({"n_out": 0, "n_err": 999, "kind": "straddle", "pty": False})
        cases.append({"n_out": 5000, "n_err": 0, "kind": "aligned", "pty": False})
        # a pty is asked for but sys.stdin has no usable fileno: Local falls back to two pipes (both streams owed
        # in full); with fallback=False the pty is used after all
        cases.append({"n_out": 1500, "n_err": 1500, "kind": "ascii", "pty": True, "stdin": "nofileno"})
        cases.append({"n_out": 0, "n_err": 999, "kind": "straddle", "pty": True, "stdin": "noattr", "fallback": True})
        cases.append({"n_out": 3000, "n_err": 0, "kind": "ascii", "pty": True, "stdin": "nofileno", "fallback": False})
        if tier != "quick":
            cases.append({"n_out": 70001, "n_err": 70001, "kind": "ascii", "pty": True, "stdin": "nofileno"})
            cases.append({"n_out": 1500, "n_err": 1500, "kind": "ascii", "pty": False, "stdin": "nofileno"})
        cases.append({"kind": "crlf", "pty": False})
        cases.append({"kind": "crlf", "pty": True})
        cases.append({"kind": "utf16", "bom": False})
        cases.append({"kind": "utf16", "bom": True})
        cases.append({"kind": "sjis"})
        cases.append({"kind": "unhidden"})
        cases.append({"kind": "slow-mirror"})
        cases.append({"kind": "narrow-log"})
        reps = 1 if tier == "quick" else 5
        fails, evals = [], 0
        for c in cases * reps:
            evals += 1
            f = real_child_case(c)
            if f:
                fails.append(f)
        return {"name": "real-children", "evaluations": evals, "failures": fails,
                "note": "python3 children writing the payload in one go and exiting immediately, run through "
                        "Local (hide=True, in_stream=False); captured text compared with the decoding of the "
                        "payload.  'straddle' = 999 ASCII bytes + 2-byte characters, so the 1000-byte read "
                        "cuts a character (regression witness of the fixed F-C02); 'stdin' = sys.stdin replaced by an "
                        "object without usable fileno while pty=True: Local falls back to pipes and owes both streams "
                        "(fallback=False: the pty is used after all)"}


def payload(kind, n, tag):
    if kind == "ascii":
        line = lambda i: ("%s%07d\n" % (tag, i)).encode()     # 9 bytes per record: loss/dup/reorder visible
        data = b"".join(line(i) for i in range(n // 9 + 1))[:n]
        return data, "utf-8"
    if kind == "latin1":
        return bytes((i * 7 + 33) % 256 for i in range(n)), "latin-1"
    if kind == "straddle":
        return (b"a" * n + "é".encode() * 10) if n else b"", "utf-8"
    if kind == "aligned":                                     # 2-byte chars at even offsets: any 1000-byte
        return "é".encode() * (n // 2), "utf-8"          # aligned read boundary is a character boundary
    raise ValueError(kind)


def special_child_case(c):
    import io
    k = c["kind"]
    if k == "crlf":
        r = rc.run_real("printf 'a\\r\\nb\\rc\\n'", pty=c["pty"], encoding="utf-8", hide=True, in_stream=False)
        want = "a\r\r\nb\rc\r\n" if c["pty"] else "a\r\nb\rc\n"     # onlcr under a pty
    elif k == "utf16":
        data = ("a\u00e9\u20acz" * 300).encode("utf-16" if c["bom"] else "utf-16-le")   # 2400(+2) bytes: even reads
        r = rc.run_real("printf '%s'" % "".join("\\%03o" % b for b in data), encoding="utf-16", hide=True,
                        in_stream=False)
        want = data.decode("utf-16", "replace")
    elif k == "sjis":
        data = ("\u65e5\u672c\u8a9e" * 400 + "a").encode("shift_jis")[1:]   # odd offset: 1000-byte reads cut characters
        data = "x".encode() + ("\u65e5\u672c\u8a9e" * 400).encode("shift_jis")
        r = rc.run_real("printf '%s'" % "".join("\\%03o" % b for b in data), encoding="shift_jis", hide=True,
                        in_stream=False)
        want = data.decode("shift_jis", "replace")
    elif k == "slow-mirror":
        # the command exits at once after writing 36 KB; the (unhidden) mirror stream is slow: nothing may be cut off
        out = rc.Recorder(delay=0.075)
        data = ("%07d\n" % 0).join("x" * 0 for _ in range(1))
        data = "".join("%07d\n" % i for i in range(4500))          # 36000 bytes
        import tempfile
        fd, path = tempfile.mkstemp(prefix="c02-slow-", dir=core.BUILD)
        os.write(fd, data.encode())
        os.close(fd)
        try:
            r = rc.run_real("cat %s" % path, encoding="utf-8", out_stream=out, in_stream=False, bound=30)
        finally:
            os.unlink(path)
        if r["hang"] or r["outcome"] != "Result":
            return {"case": c, "what": "outcome %s" % r["outcome"]}
        if r["stdout"] == data and out.text() == data:
            return None
        return {"case": c, "what": {"payload": len(data), "captured": len(r["stdout"]), "mirrored": len(out.text())}}
    elif k == "narrow-log":
        # mirror targets that are real text streams in a narrow encoding with their own error handler, and a
        # recording object that merely advertises one: each gets the command's text, handled its own way
        out_text, err_text = "plain\ncaf\u00e9 na\u00efve \u20ac5 \u4e2d\u6587 \U0001F600 done\n", "warn: \u00fcber \u2713\n"
        cmd = "printf '%s'; printf '%s' >&2" % ("".join("\\%03o" % b for b in out_text.encode()),
                                                "".join("\\%03o" % b for b in err_text.encode()))
        bad = {}
        for enc_o, enc_e in (("ascii", "latin-1"), ("cp1252", "ascii")):
            out, err = rc.WrapRecorder(enc_o), rc.Recorder(encoding=enc_e, errors="xmlcharrefreplace")
            r = rc.run_real(cmd, encoding="utf-8", out_stream=out, err_stream=err, in_stream=False)
            if r["hang"] or r["outcome"] != "Result":
                return {"case": c, "what": "outcome %s (%s)" % (r["outcome"], r.get("thread_excs"))}
            want_o = out_text.encode(enc_o, "backslashreplace").decode(enc_o)
            if (r["stdout"], r["stderr"], out.text(), err.text()) != (out_text, err_text, want_o, err_text):
                bad[enc_o + "/" + enc_e] = {"stdout": r["stdout"], "stderr": r["stderr"], "out_stream": out.text(),
                                            "want_out_stream": want_o, "err_stream": err.text()}
        return {"case": c, "what": bad} if bad else None
    elif k == "unhidden":
        out, err = rc.Recorder(), rc.Recorder()
        r = rc.run_real("cat; echo oops >&2", encoding="utf-8", out_stream=out, err_stream=err, echo_stdin=True,
                        in_stream=io.StringIO("xy\n"))
        if r["hang"] or r["outcome"] != "Result":
            return {"case": c, "what": "outcome %s" % r["outcome"]}
        ok = r["stdout"] == "xy\n" and r["stderr"] == "oops\n" and err.text() == "oops\n" and \
            sorted(out.text()) == sorted("xy\nxy\n")
        return None if ok else {"case": c, "what": {"stdout": r["stdout"], "stderr": r["stderr"],
                                                    "out_stream": out.text(), "err_stream": err.text()}}
    if r["hang"] or r["outcome"] != "Result":
        return {"case": c, "what": "outcome %s (%s)" % (r["outcome"], r.get("thread_excs"))}
    if r["stdout"] != want:
        k0 = next((i for i, (x, y) in enumerate(zip(r["stdout"], want)) if x != y), min(len(want), len(r["stdout"])))
        return {"case": c, "what": {"at": k0, "got": r["stdout"][max(0, k0 - 5):k0 + 10],
                                    "want": want[max(0, k0 - 5):k0 + 10], "got_len": len(r["stdout"]),
                                    "want_len": len(want)}}
    return None


def real_child_case(c):
    if c["kind"] in ("crlf", "utf16", "sjis", "unhidden", "slow-mirror", "narrow-log"):
        return special_child_case(c)
    out, enc = payload(c["kind"], c["n_out"], "o")
    err, _ = payload(c["kind"], c["n_err"], "e")
    # payload is shipped to the child in a file so the command line stays small
    import tempfile
    fd, path = tempfile.mkstemp(prefix="c02-", dir=os.path.join(core.BUILD))
    os.write(fd, out + err)
    os.close(fd)
    prog = ("import sys,os\n"
            "d=open(%r,'rb').read(); o=d[:%d]; e=d[%d:]\n"
            "i=j=0\n"
            "while i<len(o) or j<len(e):\n"
            "    if i<len(o): os.write(1,o[i:i+30000]); i+=30000\n"
            "    if j<len(e): os.write(2,e[j:j+30000]); j+=30000\n"
            "os._exit(0)\n" % (path, len(out), len(out)))
    kw = {}
    if c.get("fallback") is not None:
        kw["fallback"] = c["fallback"]
    saved = sys.stdin, sys.stderr
    try:
        if c.get("stdin"):
            import io
            sys.stdin = rc.stdin_stand_in(c["stdin"])
            sys.stderr = io.StringIO()          # Local's one-off "falling back to non-pty execution" warning
        r = rc.run_real([sys.executable, "-c", prog], pty=c["pty"], encoding=enc, hide=True, in_stream=False, **kw)
    finally:
        sys.stdin, sys.stderr = saved
        os.unlink(path)
    if r["hang"]:
        return {"case": c, "what": "run() did not return within the bound: %s" % r["hang_what"]}
    if r["outcome"] != "Result":
        return {"case": c, "what": "unexpected outcome %s" % r["outcome"]}
    want_out = out.decode(enc, "replace")
    want_err = err.decode(enc, "replace")
    if pty_class(dict(c, stdin=c.get("stdin") or "file")) in ("pty", "pty!fallback"):      # a pty is in effect
        want_out, want_err = want_out.replace("\n", "\r\n"), ""
    got = (r["stdout"], r["stderr"])
    if got == (want_out, want_err):
        return None
    def first_diff(a, b):
        k = next((i for i, (x, y) in enumerate(zip(a, b)) if x != y), min(len(a), len(b)))
        return {"at": k, "want_len": len(b), "got_len": len(a), "got": a[max(0, k - 5):k + 10],
                "want": b[max(0, k - 5):k + 10]}
    return {"case": c, "what": {"stdout": first_diff(got[0], want_out), "stderr": first_diff(got[1], want_err)}}


PROP = C02()
