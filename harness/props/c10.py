"""C10: CLI task names, collection lookup and listings agree for every
namespace tree."""
import contextlib
import io
import itertools
import time
import json
import re

from .. import coqterm as ct
from .. import gen_tree as gt
from .. import ns
from ..core import Prop

VIEWS = {"names": 0, "flat": 1, "nested": 2, "json": 3}
ROW = re.compile(r"^  (?P<indent> *)(?P<name>\S+)(?: \((?P<aliases>[^)]*)\))?(?: \[(?P<tallies>[^\]]*)\])?"
                 r"\s+(?P<help>task \d+|COLL)$")


def transform(s, ad):
    """python mirror of Collection.transform, used only to *classify* cases"""
    frm, to = ("_", "-") if ad else ("-", "_")
    out = []
    for i, ch in enumerate(s):
        if i not in (0, len(s) - 1) and ch == frm and s[i - 1] != "." and s[i + 1] != ".":
            ch = to
        out.append(ch)
    return "".join(out)


def binding_aliases(d):
    """lexicon aliases of a dumped collection that are not the task's own
    (transformed) aliases: those given as add_task(aliases=...)"""
    tasks = dict((k, v) for k, v in d["tasks"])
    out = []
    for a, target in d["aliases"]:
        t = tasks.get(target)
        own = [transform(x, d["auto_dash"]) for x in (t["aliases"] if t else [])]
        if a not in own:
            out.append(a)
    return out


def mixed_spelling(c, root_ad):
    """some binding name of [c] is not normalised for the root's auto-dash setting"""
    keys = [k for k, _ in c["tasks"]] + [k for k, _ in c["aliases"]] + [k for k, _ in c["subs"]]
    return any(transform(k, root_ad) != k for k in keys)


def defaults_consistent(c):
    keys = [k for k, _ in c["tasks"]] + [k for k, _ in c["aliases"]] + [k for k, _ in c["subs"]]
    return (c["default"] is None or c["default"] in keys) and \
        all(t in [k for k, _ in c["tasks"]] for _, t in c["aliases"])


def tree_has(d, pred):
    return pred(d) or any(tree_has(s, pred) for _, s in d["subs"])


def renamed(d):
    ad = d["auto_dash"]
    return any(k != transform(t["name"], ad) for k, t in d["tasks"]) or \
        any(k != (s["name"] or "") for k, s in d["subs"])


def name_class(d, name):
    """mirror of the lookup walk (per-level transform), only to *classify* a
    token: (goes through a collection-valued default, ends at a binding-level alias)"""
    cur, rest, dsub = d, name, False
    for _ in range(50):
        subs = dict((k, v) for k, v in cur["subs"])
        if rest == "":
            dflt = cur["default"]
            if not dflt:
                return dsub, False
            if dflt in subs:
                dsub = True
                cur, rest = subs[dflt], ""
                continue
            return dsub, dflt in binding_aliases(cur)
        rest = transform(rest, cur["auto_dash"])
        if "." in rest:
            k, rest = rest.split(".", 1)
            if k not in subs:
                return dsub, False
            cur = subs[k]
            continue
        if rest in subs:
            cur, rest = subs[rest], ""
            continue
        return dsub, rest in binding_aliases(cur)
    return dsub, False


def uses_binding_alias(d, name):
    return name_class(d, name)[1]


def uses_default_subcollection(d, name):
    return name_class(d, name)[0]


class C10(Prop):
    id = "C10"
    corr_module = "Corr.C10Corr"
    preds = ("corr", "spec", "adj_names", "adj_list_b", "adj_list_c", "adj_list_d", "adj_list_all",
             "adj_list_e", "adj_list_all_e")
    quick_n = 1800
    thorough_n = 20000
    shard_size = 120
    rule = ("random namespace trees (depth<=4; own aliases, add_task(name=/aliases=/default=), default tasks, default "
            "sub-collections at any level, names with underscores/dashes/leading-trailing underscores, auto-dash "
            "on/off per collection, sub-collections and roots that are the explicit `ns` of a module re-imported via "
            "Collection.from_module / add_collection(module) with either auto-dash setting, 15% trees with colliding "
            "bindings; half of the trees built in attach-then-populate order with read-only queries in between) x four views: candidate tokens (every "
            "resolvable dotted name, its _/- spelling variants, junk) through `in`, [], Parser(to_contexts()) and "
            "Program.run; --list in flat, nested and json format parsed back, also scoped (--list <sub>, <sub.sub>, misspelled and unknown roots) and depth-limited (--list-depth 1..3, tallies parsed); non-trivial = a view of a tree with "
            ">=1 sub-collection holding a task; distinct by (script, view, names)")
    trusted_base = [
        "Coq 8.16.1 kernel + vm_compute (shard evaluation)",
        "hand-written model coq/Model/CollModel.v tied to invoke/collection.py, vendor/lexicon, parser registry and "
        "program.py listings by differential execution (this run)",
        "harness/coqterm.py, harness/ns.py, harness/props/c10.py (incl. the --list text/JSON parser)",
        "CPython 3.12 executing /repo",
    ]
    assumptions = [
        "names are printable ASCII without dots, spaces, parentheses, not starting with '-'; tasks take no arguments",
        "terminal width patched to 10000 columns in the harness process (print_columns raises ValueError from "
        "textwrap when a name column is wider than the terminal; outside C10)",
        "trees where bindings inside one collection collide are outside the statement (compared with the model only)",
        "collection configurations are type-consistent along every path (C17's premise; [compat_down] in the theorems): "
        "with a section in one collection and a plain value at the same path in another, lookup raises the documented "
        "AmbiguousMergeError instead of answering while the parser still accepts the name -- not generated, not a "
        "registered finding, disclosed in Properties/C10.v",
        "from_module(module, name=X) is printed for Coq as the re-import of a module named X with an unnamed namespace "
        "(the precedence X > ns.name > module name is the translator's; a deviation shows as a correspondence failure)",
    ]
    not_modelled = ["from_module of a module *without* explicit namespace (top-level tasks collected by introspection)",
                    "help text wrapping; the opener line of a listing (\"Available 'x' tasks (depth=N)\")",
                    "task arguments / per-task help"]

    def setup(self, tier, seed):
        # a wide terminal for --list (print_columns gives up on narrow ones): patched at the source and,
        # if program.py imported the name, there too -- whichever import style the code uses
        import invoke.program
        import invoke.terminals
        wide = lambda: (10000, 24)
        self._saved = [(invoke.terminals, "pty_size", invoke.terminals.pty_size)]
        invoke.terminals.pty_size = wide
        if getattr(invoke.program, "pty_size", None) is not None:
            self._saved.append((invoke.program, "pty_size", invoke.program.pty_size))
            invoke.program.pty_size = wide

    def teardown(self):
        for mod, name, val in getattr(self, "_saved", []):
            setattr(mod, name, val)
        self._saved = []

    # ---- cases -----------------------------------------------------------
    def _cases_for(self, rng, spec):
        _, st = ns.build_and_dump(spec, ns.Builder(sigs=_Sigs()))
        if "ok" not in st:
            yield {"script": spec, "view": "names", "names": ["x"], "group": "plain"}
            return
        d = st["ok"]
        res = [n for n in ns.resolvable_names(d)]
        names = set(res)
        for r in rng.sample(res, min(len(res), 5)):
            names.update(".".join(p) for p in itertools.product(*[ns.variants(s) for s in r.split(".")][:3]))
        tw, cw = ns.vocabulary(spec)
        for _ in range(3):
            if tw:
                parts = [rng.choice(cw) for _ in range(rng.randint(0, 2)) if cw] + [rng.choice(tw + cw)]
                names.add(".".join(parts))
        names.update(["nope", "sub.nope"][:rng.randint(0, 2)])
        if cw:   # empty segments: a trailing dot means "the default of that collection" to the lookup
            names.update([rng.choice(cw) + ".", "." + rng.choice(cw), rng.choice(cw) + ".." + (rng.choice(tw) if tw else "x")])
        names = sorted(n for n in names if n and not n.startswith("-"))
        names.append("")          # no task on the command line: the default invocation
        groups = {"plain": [], "dsub": [], "balias": []}
        for nm in names:
            if nm and uses_default_subcollection(d, nm):
                groups["dsub"].append(nm)
            elif uses_binding_alias(d, nm):
                groups["balias"].append(nm)
            else:
                groups["plain"].append(nm)
        for g, lst in groups.items():
            for i in range(0, len(lst), 10):
                yield {"script": spec, "view": "names", "names": lst[i:i + 10], "group": g}
        for v in ("flat", "nested", "json"):
            yield {"script": spec, "view": v, "names": [], "group": "list"}
        # scoped (--list <root>) and depth-limited (--list-depth N) listings
        paths = _sub_paths(d)
        extra = [(None, rng.choice([1, 1, 2, 3]), rng.choice(["flat", "nested"]))]
        for r in rng.sample(paths, min(len(paths), 2)):
            extra.append((r, rng.choice([0, 0, 1, 2]), rng.choice(["flat", "flat", "nested", "json"])))
        if paths and rng.random() < 0.3:
            r = rng.choice(paths)
            odd = [".".join(p) for p in itertools.product(*[ns.variants(x) for x in r.split(".")][:3])]
            extra.append((rng.choice(odd + ["nope", r + ".nope"] + (tw[:1] if tw else [])), rng.choice([0, 1]),
                          rng.choice(["flat", "nested", "json"])))
        deep = [q for q in paths if q.count(".") >= 2]
        if deep and rng.random() < 0.6:     # a collection two levels below the root of the listing, cut off there
            extra.append((rng.choice(deep).split(".")[0], 2, rng.choice(["flat", "flat", "nested"])))
        if rng.random() < 0.1:
            extra.append((rng.choice(paths) if paths and rng.random() < 0.5 else None, rng.choice([1, 2]), "json"))
        for r, dl, v in extra:
            if r == "" or (r and r.startswith("-")):
                continue
            yield {"script": spec, "view": v, "names": [], "group": "list", "root": r, "depth": dl}

    def generate(self, rng, tier, n):
        out = 0
        while out < n:
            ids = ns.Ids()
            clean = rng.random() < 0.85
            plain = rng.random() < 0.5      # no binding-level aliases, fewer default sub-collections
            spec = ns.gen_coll(rng, rng.choice([1, 2, 2, 3, 3, 4]), ids, name=rng.choice([None, "root", "my_ns"]),
                               clean=clean, share=0.0 if clean else 0.1,
                               p_subdefault=0.1 if plain else 0.45, p_extra=0.0 if plain else 0.25,
                               p_rename=rng.choice([0.0, 0.3]), p_mod=rng.choice([0.0, 0.0, 0.35]),
                               p_default=rng.choice([0.5, 0.9]))
            if rng.random() < 0.2 and spec["items"]:
                # the root is the explicit namespace of a module re-imported by from_module
                # (what Program.load_collection does, with tasks.auto_dash_names from the config)
                spec = ns.wrap_module(rng, dict(spec, name=rng.choice([None, "root_ns"])))
            elif rng.random() < 0.2:
                # the ordinary case: a tasks module without explicit namespace, loaded by from_module:
                # the root's tasks, bound by their own (function) names
                seen_ids, seen_names, items = set(), set(), []
                for it in spec["items"]:
                    if "task" in it and it["task"]["id"] not in seen_ids and \
                            it["task"]["name"].replace("_", "-") not in seen_names:
                        seen_ids.add(it["task"]["id"])
                        seen_names.add(it["task"]["name"].replace("_", "-"))
                        items.append({"task": dict(it["task"], aliases=[a for a in it["task"]["aliases"]
                                                                        if a.replace("_", "-") not in seen_names]),
                                      "bind": None, "aliases": [], "default": None})
                        seen_names.update(a.replace("_", "-") for a in items[-1]["task"]["aliases"])
                flat = dict(spec, name=rng.choice(["tasks", "my_tasks", "class_"]), items=items)
                if ns.plain_module_ok(flat):
                    spec = ns.as_plain_module(flat)
            seed = rng.randrange(1 << 30) if rng.random() < 0.5 else None
            for c in self._cases_for(rng, spec):
                if seed is not None:
                    c = dict(c, build_seed=seed)
                yield c
                out += 1
                if out >= n:
                    break

    def enumerate_small(self, tier):
        """every tree of the shape root > [task?] + sub > [task a (own alias, bound alias, rename, default)?] +
        inner > [task] with every default choice"""
        rng = __import__("random").Random(10)
        t = lambda i, nm, al=(): {"id": i, "name": nm, "aliases": list(al), "default": False}
        for ad_root, ad_sub in itertools.product([True, False], repeat=2):
            for own_al, bound_al, rename in itertools.product([(), ("own_al",)], [(), ("b_al",)], [None, "re_named"]):
                for d_task, d_inner, d_sub in itertools.product([None, True], [False, True], [False, True]):
                    if d_task and d_inner:
                        continue
                    inner = {"name": "in_ner", "auto_dash": ad_sub, "config": {},
                             "items": [{"task": t(3, "deep_t"), "bind": None, "aliases": [], "default": True}]}
                    sub = {"name": "sub", "auto_dash": ad_sub, "config": {},
                           "items": [{"task": t(2, "my_task", own_al), "bind": rename, "aliases": list(bound_al),
                                      "default": d_task},
                                     {"coll": inner, "bind": None, "default": d_inner}]}
                    root = {"name": None, "auto_dash": ad_root, "config": {},
                            "items": [{"task": t(1, "top"), "bind": None, "aliases": [], "default": None},
                                      {"coll": sub, "bind": None, "default": d_sub}]}
                    yield from self._cases_for(rng, root)
                    if not own_al and not bound_al:
                        # the same trees with sub / the root re-imported from a module's explicit ns
                        for ad_mod in (None, True, False):
                            msub = {"module": "tasks_mod", "ad": ad_mod, "ns": sub}
                            yield from self._cases_for(rng, dict(root, items=[root["items"][0],
                                                                              {"coll": msub, "bind": None, "default": d_sub}]))
                            yield from self._cases_for(rng, {"module": "tasks", "ad": ad_mod,
                                                             "ns": dict(sub, name=None)})

        # ordinary tasks modules (no explicit namespace) whose function names start / end with underscores,
        # contain double underscores or capitals: from_module binds them by add_task(task)
        for ad_mod in (True, False):
            for nm in ("tasks", "my_tasks"):
                items = [{"task": t(i + 1, n), "bind": None, "aliases": [], "default": None}
                         for i, n in enumerate(["_cleanup_all", "q_", "my__task", "Build_All", "run_it"])]
                flat = {"name": nm, "auto_dash": ad_mod, "config": {}, "items": items}
                yield from self._cases_for(rng, ns.as_plain_module(flat))

    # ---- implementation ----------------------------------------------------
    def run_impl(self, case):
        from invoke import Program
        from invoke.parser import Parser
        log = []
        b = ns.Builder(on_call=lambda tid, c, a, k: log.append(tid), sigs=_Sigs(),
                       build_seed=case.get("build_seed"))
        coll, st = ns.build_and_dump(case["script"], b)
        obs = {"state": st, "nobs": [], "rows": {"err": "NotApplicable"}}
        if coll is None:
            return obs

        def run(argv):
            out = io.StringIO()
            with contextlib.redirect_stdout(out), contextlib.redirect_stderr(io.StringIO()):
                Program(namespace=coll).run(argv, exit=False)
            return out.getvalue()

        if case["view"] == "names":
            try:
                parser = Parser(contexts=coll.to_contexts())
                perr = None
            except RecursionError:
                parser, perr = None, "RecursionError"
            except Exception as e:  # noqa
                parser, perr = None, type(e).__name__
            for nm in case["names"]:
                o = {}
                o["contains"] = _try(lambda: nm in coll)
                o["getitem"] = _try(lambda: ns.task_id(coll[nm]))
                if parser is None:
                    o["parser"] = {"err": perr}
                else:
                    o["parser"] = _try(lambda: parser.contexts[nm].name if nm in parser.contexts else None)
                del log[:]

                def ran():
                    run(["prog", nm] if nm else ["prog"])
                    if len(log) > 1:
                        raise _Bodies(len(log))
                    return log[0] if log else None
                o["ran"] = _try(ran)

                def helped():
                    text = run(["prog", "--help", nm])
                    m = re.search(r"^Usage: prog \[--core-opts\] (\S+) ", text, re.M)
                    d = re.search(r"^Docstring:\s*\n\s*task (\d+)\s*$", text, re.M)
                    if m is None or d is None:
                        return None
                    if m.group(1) != nm:
                        raise ValueError("help for another name")
                    return int(d.group(1))
                del log[:]
                o["help"] = _try(helped) if nm else {"ok": None}
                if log:                       # asking for help must not run anything
                    o["help"] = {"err": "RanBody"}
                obs["nobs"].append(o)
        else:
            fmt = case["view"]
            argv = ["prog", "--list"] + ([case["root"]] if case.get("root") else []) + ["--list-format=" + fmt]
            if case.get("depth"):
                argv.append("--list-depth=%d" % case["depth"])
            try:
                text = run(argv)
            except Exception as e:  # noqa
                obs["rows"] = {"err": type(e).__name__}
                return obs
            if not text.strip():
                obs["rows"] = {"err": "Exit"}
            elif fmt == "json":
                obs["rows"] = {"ok": _json_rows(json.loads(text), 0)}
            else:
                obs["rows"] = {"ok": _text_rows(text)}
        return obs

    def to_coq(self, case, obs):
        st = ct.result(obs["state"], ns.state)
        nobs = ct.lst([
            "(mkN %s %s %s %s %s)" % (
                ct.result(o["contains"], ct.b), ct.result(o["getitem"], ct.n),
                ct.result(o["parser"], ns.opt_s),
                ct.result(o["ran"], lambda v: ct.opt(ct.n(v) if v is not None else None)),
                ct.result(o["help"], lambda v: ct.opt(ct.n(v) if v is not None else None)))
            for o in obs["nobs"]])
        rows = ct.result(obs["rows"], lambda rs: ct.lst([
            "(%s, %s, %s, %s)" % (ct.n(r[0]), ct.s(r[1]), ct.strs(r[2]),
                                  ct.opt(ct.n(r[3]) if r[3] is not None else None)) for r in rs]))
        return "(mk %s %s %s %s %s %s %s %s)" % (ns.sub(case["script"]), ct.n(VIEWS[case["view"]]),
                                                ct.strs(case["names"]), st, nobs, rows,
                                                ct.opt(ct.s(case["root"]) if case.get("root") else None),
                                                ct.n(case.get("depth") or 0))

    def nontrivial(self, case, obs):
        if "ok" not in obs["state"]:
            return False
        d = obs["state"]["ok"]
        return any(s["tasks"] or s["subs"] for _, s in d["subs"])

    def classify(self, case, obs):
        if "err" in obs["state"]:
            return "build-err:" + obs["state"]["err"]
        if case["view"] == "names":
            return "names:" + case.get("group", "?")
        return "list:" + case["view"] + (":root" if case.get("root") else "") + \
            (":depth" if case.get("depth") else "") + (":refused" if "err" in obs["rows"] else "")

    def finding_of(self, case, obs, verdict=None):
        """Which mechanism is present is read off the built tree; the judgement is made in Coq: a finding
        is named only if the specification with that finding's expectation substituted accepts the case."""
        if "ok" not in obs["state"]:
            return None
        d = obs["state"]["ok"]
        if tree_has(d, lambda c: not defaults_consistent(c)):
            return None     # no listed finding produces a default that names nothing
        v = verdict or {}
        if case["view"] == "names":
            # adj_names (Coq): every token of the case is either fine by the ordinary judgement or shows
            # the finding's pattern (resolves, not accepted, runs nothing, no help).  Here only the tokens
            # showing that pattern are matched against the findings' signatures, one by one.
            if not case["names"] or not v.get("adj_names"):
                return None
            odd = [nm for nm, o in zip(case["names"], obs["nobs"])
                   if nm and o["contains"].get("ok") is True and o["parser"].get("ok", "x") is None]
            ids = []
            for nm in odd:
                if uses_default_subcollection(d, nm):
                    ids.append("F-C10a")
                elif uses_binding_alias(d, nm):
                    ids.append("F-C10b")
                else:
                    ids.append(None)
            if ids and all(i is not None for i in ids):
                return ids[0]
            return None
        root_ad = d["auto_dash"]
        if case.get("root"):
            d = _focus(d, case["root"])      # the signatures are read off the collection in focus
            if d is None:
                return None
        sig_b = tree_has(d, lambda c: bool(binding_aliases(c)))
        sig_c = case["view"] == "json" and tree_has(d, renamed)
        sig_d = tree_has(d, lambda c: mixed_spelling(c, root_ad))
        # F-C10e: flat, scoped, depth limit >= 2 and some collection exactly that deep below the focus
        sig_e = case["view"] == "flat" and bool(case.get("root")) and (case.get("depth") or 0) >= 2 and \
            any(p.count(".") + 1 == case["depth"] for p in _sub_paths(d))
        if sig_e and not (sig_b or sig_d) and v.get("adj_list_e"):
            return "F-C10e"
        if sig_e and (sig_b or sig_d) and not v.get("adj_list_all") and v.get("adj_list_all_e"):
            return "F-C10e"
        if sig_b and v.get("adj_list_b"):
            return "F-C10b"
        if sig_c and v.get("adj_list_c"):
            return "F-C10c"
        if sig_d and v.get("adj_list_d"):
            return "F-C10d"
        if sum([sig_b, sig_c, sig_d]) >= 2 and v.get("adj_list_all"):
            return "F-C10b" if sig_b else "F-C10c"
        return None

    _shrink_t0 = None

    def shrink_candidates(self, case):
        if self._shrink_t0 is None:
            self._shrink_t0 = time.time()
        if time.time() - self._shrink_t0 > 75:     # bounded shrinking wall time
            return
        names = case["names"]
        if len(names) > 1:
            for i in range(len(names)):
                yield dict(case, names=[names[i]])
        for sp in ns.shrink_spec(case["script"]):
            yield dict(case, script=sp)

    def mutate(self, case, rng):
        for sp in itertools.islice(ns.shrink_spec(case["script"]), 30):
            for c in self._cases_for(rng, sp):
                yield c


def _sub_paths(d, prefix=""):
    """dotted binding-key paths of every sub-collection of a dumped tree"""
    out = []
    for k, sc in d["subs"]:
        out.append(prefix + k)
        out.extend(_sub_paths(sc, prefix + k + "."))
    return out


def _focus(d, root):
    for part in root.split("."):
        subs = dict((k, v) for k, v in d["subs"])
        if part not in subs:
            return None
        d = subs[part]
    return d


class _Bodies(Exception):
    pass


class _Sigs(dict):
    """every task takes just the context"""

    def get(self, k, default=None):
        return ""


def _try(f):
    try:
        return {"ok": f()}
    except RecursionError:
        return {"err": "RecursionError"}
    except Exception as e:  # noqa
        return {"err": type(e).__name__}


def _text_rows(text):
    rows = []
    lines = text.split("\n")
    i = 0
    while i < len(lines) and not lines[i].startswith("  "):
        i += 1
    while i < len(lines) and lines[i].strip():
        m = ROW.match(lines[i])
        if not m:
            raise ValueError("unparsable listing line %r" % lines[i])
        aliases = [a for a in (m.group("aliases") or "").split(", ") if a]
        h = m.group("help")
        if h == "COLL":       # a truncated collection row: its tallies travel in the alias column
            aliases = [a for a in (m.group("tallies") or "").split(", ") if a]
        rows.append([len(m.group("indent")) // 4, m.group("name"), aliases,
                     int(h[5:]) if h.startswith("task ") else None])
        i += 1
    for line in lines[i:]:
        m = re.match(r"^Default(?: '[^']*')? task: (\S+)\s*$", line)
        if m:
            rows.append([1000, m.group(1), [], None])     # the trailer, as a pseudo-row
    return rows


def _json_rows(d, depth):
    rows = [[depth, d["name"] or "", [d["default"]] if d["default"] else [], None]]
    for t in d["tasks"]:
        rows.append([depth + 1, t["name"], list(t["aliases"]), int(t["help"][5:])])
    for c in d["collections"]:
        rows.extend(_json_rows(c, depth + 1))
    return rows


PROP = C10()
