"""C16: environment variables override exactly the existing settings they name."""
import enum
import os
from collections import namedtuple

from .. import coqterm as ct
from .. import gen_tree as gt
from ..core import Prop

# ---- the "instance of a SUBCLASS of a builtin" value dimension --------------------------------
# A leaf of a case tree may be {"__sub__": <class name>, "v": <base value>}: the setting holds an
# instance of a subclass of list / tuple / int / str whose plain value is <base value> (bool and
# NoneType cannot be subclassed).  Environment._cast dispatches with isinstance(), so such a setting is
# converted exactly like its base kind (list/tuple subclasses, namedtuples: rejected; str subclasses:
# verbatim), except that the last branch old.__class__(new) runs the subclass's constructor.


class HostList(list):
    pass


class Pair(tuple):
    pass


class Port(int):
    pass


class Label(str):
    pass


SUB_OF = {list: ["HostList"], tuple: ["Pair", "Endpoint"], int: ["Port", "Color"], str: ["Label", "Mode"]}
ENUM_SUBS = ("Color", "Mode")      # the class call looks a member up by value


def make_sub(cls, base):
    if cls == "HostList":
        return HostList(base)
    if cls == "Pair":
        return Pair(base)
    if cls == "Endpoint":       # a namedtuple of the right arity
        return namedtuple("Endpoint", ["f%d" % i for i in range(len(base))])(*base)
    if cls == "Port":
        return Port(base)
    if cls == "Color":          # IntEnum member
        return enum.IntEnum("Color", {"M": base})["M"]
    if cls == "Label":
        return Label(base)
    if cls == "Mode":           # str-mixin Enum member (StrEnum-like)
        return enum.Enum("Mode", {"M": base}, type=str)["M"]
    raise ValueError(cls)


def is_sub(x):
    return isinstance(x, dict) and set(x.keys()) == {"__sub__", "v"}


def decode(x, real):
    """case JSON -> python tree; subclass markers become instances (real) or their base value"""
    if is_sub(x):
        base = gt.unjson(x["v"])
        return make_sub(x["__sub__"], base) if real else base
    if isinstance(x, dict):
        if set(x.keys()) == {"__tuple__"}:
            return tuple(x["__tuple__"])
        return {k: decode(v, real) for k, v in x.items()}
    return x


def base_tree(x):
    return decode(x, False)


def sub_leaves(x, pre=()):
    """(path, class name) of the subclass markers of a case-JSON tree"""
    if is_sub(x):
        yield pre, x["__sub__"]
    elif isinstance(x, dict) and set(x.keys()) != {"__tuple__"}:
        for k, v in x.items():
            yield from sub_leaves(v, pre + (k,))


def json_at(x, path):
    for k in path:
        if not isinstance(x, dict) or is_sub(x) or k not in x:
            return None
        x = x[k]
    return x


def json_set(x, path, val):
    """copy of case-JSON tree x with the node at path replaced"""
    if not path:
        return val
    out = dict(x)
    out[path[0]] = json_set(x[path[0]], path[1:], val)
    return out


def wrap_choices(base):
    """the subclass names a base value can be an instance of"""
    if isinstance(base, bool) or base is None:
        return []
    for ty, names in SUB_OF.items():
        if isinstance(base, ty):
            return list(names)
    return []


def plain(x):
    """observation canonicaliser: subclass instances -> the base value they compare equal to"""
    if hasattr(x, "keys") and callable(x.keys) and hasattr(x, "__getitem__"):
        return {k: plain(x[k]) for k in x.keys()}
    if x is None or type(x) in (bool, int, str):
        return x
    if isinstance(x, bool):
        return bool(x)
    if isinstance(x, int):
        return int(x)
    if isinstance(x, str):
        return "".join(str.__iter__(x))
    if isinstance(x, list):
        return [plain(i) for i in x]
    if isinstance(x, tuple):
        return tuple(plain(i) for i in x)
    return x


NONNUM = ["", "abc", "1.5", "true", "false", "False", "x y", "no", "off", "None", "-", "0.0"]

VALUES = ["", "0", "1", "5", "-3", "+7", "007", "abc", "1.5", "true", "false", "False", "x y", "no", "off", "00", "None", "-", "0.0"]


class C16(Prop):
    id = "C16"
    corr_module = "Corr.C16Corr"
    quick_n = 1500
    thorough_n = 30000
    rule = ("random config trees (depth<=3, keys with underscores/case variants so that distinct paths collide), "
            "all leaf kinds, environments built from the tree's own variable names (70%) plus unrelated/"
            "near-miss names; 30%: one to three settings hold an instance of a subclass of list/tuple/int/str "
            "(list subclass, tuple subclass, namedtuple, int subclass, IntEnum member, str subclass, str-Enum member); "
            "non-trivial = at least one variable of the environment names an existing "
            "leaf or the tree is ambiguous; distinct by (tree, prefix, env)")
    trusted_base = [
        "Coq 8.16.1 kernel + vm_compute (shard evaluation)",
        "hand-written model coq/Model/EnvModel.v tied to invoke/env.py by differential execution (this run)",
        "harness/coqterm.py term printer; harness/props/c16.py generator and canonicaliser",
        "CPython 3.12 executing /repo",
    ]
    assumptions = [
        "keys and values are ASCII; int conversion restricted to [+-]?[0-9]+ or clearly non-numeric strings",
        "float leaves and classes unrelated to list/tuple/int/str not modelled",
        "an IntEnum-member setting is only given non-numeric text (the model load_py refuses every text there, "
        "the spec has no reading of 'through their type' for Enum classes); the class of the converted value "
        "(Port('5') is a Port, a str subclass setting becomes a plain str) is not observed, only its value",
        "the config consists of the defaults level only (other levels: C03)",
    ]
    not_modelled = ["os.environ access itself (environment passed as a mapping)", "float leaves"]

    def generate(self, rng, tier, n):
        for _ in range(n):
            t = gt.tree(rng, depth=rng.choice([1, 2, 2, 3]), width=rng.choice([2, 3, 4]),
                        kinds="nbisslt", allow_empty=True)
            if rng.random() < 0.1:
                # the library's own default tree (class-valued and escape-bearing leaves left out)
                t = merge_py(real_defaults(), {k: v for k, v in t.items() if k not in ("run", "sudo", "tasks", "timeouts")})
            prefix = rng.choice(["invoke", "invoke", "my_app", "X", ""])
            eff = prefix.upper() + "_"
            names = ["_".join(p).upper() for p, _ in gt.leaf_paths(t)]
            env = {}
            for p_, old in gt.leaf_paths(t):
                nm = "_".join(p_).upper()
                if isinstance(old, (list, tuple)):
                    if rng.random() < 0.15:       # rejected kinds: keep them rare
                        env[eff + nm] = rng.choice(VALUES)
                elif rng.random() < 0.6:
                    if isinstance(old, int) and not isinstance(old, bool) and rng.random() < 0.8:
                        env[eff + nm] = rng.choice(["0", "1", "5", "-3", "+7", "007", "00", "12345678901234567890"])
                    else:
                        env[eff + nm] = rng.choice(VALUES)
            for _ in range(rng.randint(0, 3)):
                kind = rng.random()
                if kind < 0.4:
                    env[eff + rng.choice(["ZZZ", "A_B_Q", "NOPE", "A"])] = rng.choice(VALUES)
                elif kind < 0.7 and names:
                    env[rng.choice(names)] = rng.choice(VALUES)      # unprefixed
                elif names:
                    env[eff.lower() + rng.choice(names)] = rng.choice(VALUES)  # wrong case
            case = {"tree": gt.jsonable(t), "prefix": prefix, "env": env}
            # 40%: further levels (collection, overrides), loaded eagerly or with deferred merging
            if rng.random() < 0.4:
                more = [gt.jsonable(overlay(rng, t)) for _ in range(rng.randint(1, 2))]
                allnames = set()
                for lv in more:
                    allnames.update("_".join(pp).upper() for pp, _ in gt.leaf_paths(gt.unjson(lv)))
                for nm in allnames:
                    if rng.random() < 0.6:
                        env[eff + nm] = rng.choice(VALUES)
                case["more"] = more
                case["deferred"] = rng.random() < 0.6
            full = t
            for lv in case.get("more", []):
                full = merge_py(full, gt.unjson(lv))
            # 25%: runtime modifications / deletions made before the load (disjoint paths)
            if rng.random() < 0.25:
                leaves = [(p_, v) for p_, v in gt.leaf_paths(full) if p_]
                rng.shuffle(leaves)
                mods, dels, used = [], [], []

                def free(p_):
                    return not any(p_[:len(q)] == q or q[:len(p_)] == p_ for q in used)
                for p_, v in leaves[:3]:
                    if not free(p_):
                        continue
                    used.append(p_)
                    if rng.random() < 0.5 and not isinstance(v, (list, tuple)):
                        mods.append([list(p_), gt.jsonable(same_kind(rng, v))])
                    else:
                        dels.append(list(p_))
                if rng.random() < 0.4:
                    k = rng.choice(["zz", "new_key", "q"])
                    if k not in full:
                        mods.append([[k], gt.jsonable(gt.leaf(rng, "bis"))])
                        if rng.random() < 0.7:
                            env[eff + k.upper()] = rng.choice(VALUES)
                case["mods"], case["dels"] = mods, dels
            # 25%: an earlier life of the same Config object: another collection level and
            # another environment were loaded (and load_shell_env() called) before
            if rng.random() < 0.25:
                hist = []
                for _ in range(rng.randint(1, 2)):
                    hc = gt.jsonable(overlay(rng, full))
                    henv = {}
                    for p_, _v in gt.leaf_paths(gt.unjson(hc)):
                        if rng.random() < 0.7:
                            henv[eff + "_".join(p_).upper()] = rng.choice(["1", "x", "0", ""])
                    hist.append({"coll": hc, "env": henv})
                    # the *final* environment keeps naming what history defined (must be ignored then)
                    for k_, v_ in henv.items():
                        if rng.random() < 0.6:
                            env.setdefault(k_, v_)
                case["history"] = hist
            # prefix given through `prefix` only (env_prefix unset) in 15% of cases
            if prefix and rng.random() < 0.15:
                case["prefix_attr"] = "prefix"
            # all-lower-case twins and whitespace-bearing values
            for p_, old in list(gt.leaf_paths(full))[:2]:
                if rng.random() < 0.15:
                    env[(eff + "_".join(p_).upper()).lower()] = "lower"
                if rng.random() < 0.2 and not (isinstance(old, int) and not isinstance(old, bool)) \
                        and not isinstance(old, (list, tuple)):
                    env[eff + "_".join(p_).upper()] = rng.choice([" ", " x", "x ", "\t", " 0", "0 "])
            # 30%: one to three settings hold an instance of a SUBCLASS of list / tuple / int / str
            # (list subclass, tuple subclass, namedtuple, int subclass, IntEnum member, str subclass,
            # str-Enum member), in whichever level defines the setting last; its variable is mostly present
            if rng.random() < 0.3:
                add_subclass_leaves(rng, case, eff, k=rng.randint(1, 3))
            yield case

    def enumerate_small(self, tier):
        # all trees over keys {a, b, a_b} x depth<=2 with int/bool leaves, one env value each
        import itertools
        leaves = [1, True]
        subs = [{"b": 1}, {"b": True, "a": 2}]
        opts = [None] + leaves + subs
        for a, ab, b in itertools.product(opts, opts, opts):
            t = {}
            if a is not None:
                t["a"] = a
            if ab is not None:
                t["a_b"] = ab
            if b is not None:
                t["A"] = b
            for val in ["0", "x"]:
                env = {"INVOKE_A_B": val, "INVOKE_A": val, "INVOKE_A_B_B": val}
                yield {"tree": gt.jsonable(t), "prefix": "invoke", "env": env}
        yield from subclass_family(tier)

    def run_impl(self, case):
        from invoke.config import Config
        tree = decode(case["tree"], True)
        prefix = case["prefix"]
        if case.get("prefix_attr") == "prefix":
            class Cfg(Config):
                pass
            Cfg.prefix = prefix
            Cfg.global_defaults = staticmethod(lambda: {})
        else:
            class Cfg(Config):
                env_prefix = prefix

                @staticmethod
                def global_defaults():
                    return {}
        saved = dict(os.environ)
        try:
            os.environ.clear()
            cfg = Cfg(defaults=tree, lazy=True)
            for h in case.get("history", []):
                os.environ.clear()
                os.environ.update(h["env"])
                try:
                    cfg.load_collection(gt.unjson(h["coll"]))
                    cfg.load_shell_env()
                except Exception:
                    pass
            os.environ.clear()
            os.environ.update(case["env"])
            try:
                more = [decode(m, True) for m in case.get("more", [])]
                merge_now = not case.get("deferred", False)
                if len(more) >= 1 or case.get("history"):
                    cfg.load_collection(more[0] if more else {}, merge=merge_now)
                if len(more) >= 2:
                    cfg.load_overrides(more[1], merge=merge_now)
                if case.get("mods") or case.get("dels"):
                    cfg.merge()
                for pth, val in case.get("mods", []):
                    obj = cfg
                    for k in pth[:-1]:
                        obj = obj[k]
                    obj[pth[-1]] = gt.unjson(val)
                for pth in case.get("dels", []):
                    obj = cfg
                    for k in pth[:-1]:
                        obj = obj[k]
                    del obj[pth[-1]]
                cfg.load_shell_env()
            except Exception as e:
                return {"err": type(e).__name__}
            return {"ok": gt.jsonable(plain(cfg._env)), "view": gt.jsonable(plain(cfg))}
        finally:
            os.environ.clear()
            os.environ.update(saved)

    def to_coq(self, case, obs):
        env = ct.lst([ct.pair(ct.s(k), ct.s(v)) for k, v in case["env"].items()])
        o = ct.result(obs, lambda d: ct.tree(gt.unjson(d)))
        more = ct.lst([ct.tree(base_tree(m)) for m in case.get("more", [])])
        mods = {}
        for pth, val in case.get("mods", []):
            d = mods
            for k in pth[:-1]:
                d = d.setdefault(k, {})
            d[pth[-1]] = gt.unjson(val)
        dels = {}
        for pth in case.get("dels", []):
            d = dels
            for k in pth[:-1]:
                d = d.setdefault(k, {})
            d[pth[-1]] = None
        view = ct.opt(ct.tree(gt.unjson(obs["view"]))) if "view" in obs else "None"
        subs = ct.lst([ct.pair(ct.strs(list(p_)), "SubEnum" if cls in ENUM_SUBS else "SubPlain")
                       for p_, cls in sub_annotation(case).items()])
        return "(mk %s %s %s %s %s %s %s %s %s)" % (ct.tree(base_tree(case["tree"])), more, ct.tree(mods), ct.tree(dels),
                                                  ct.s(case["prefix"]), env, o, view, subs)

    def nontrivial(self, case, obs):
        t = base_tree(case["tree"])
        for m in case.get("more", []):
            t = merge_py(t, base_tree(m))
        eff = case["prefix"].upper() + "_"
        names = [eff + "_".join(p).upper() for p, _ in gt.leaf_paths(t)]
        return len(set(names)) < len(names) or any(nm in case["env"] for nm in names)

    def classify(self, case, obs):
        lv = "levels:%d%s%s%s " % (1 + len(case.get("more", [])), "(deferred)" if case.get("deferred") else "",
                                   "+edits" if case.get("mods") or case.get("dels") else "",
                                   "+history" if case.get("history") else "")
        subs = sorted({cls for lvl in [case["tree"]] + case.get("more", []) for _p, cls in sub_leaves(lvl)})
        if subs:
            lv += "subclass:" + ",".join(subs) + " "
        return lv + ("err:" + obs["err"] if "err" in obs else
                     ("applied:%d" % min(3, len(list(gt.leaf_paths(gt.unjson(obs["ok"])))))))

    def shrink_candidates(self, case):
        t = case["tree"]
        env = case["env"]
        for pth, _cls in sub_leaves(t):
            yield dict(case, tree=json_set(t, pth, json_at(t, pth)["v"]))
        for i, m in enumerate(case.get("more", [])):
            for pth, _cls in sub_leaves(m):
                yield dict(case, more=case["more"][:i] + [json_set(m, pth, json_at(m, pth)["v"])] + case["more"][i + 1:])
        for k in list(env):
            e2 = dict(env)
            del e2[k]
            yield dict(case, env=e2)
        for key in ("history", "mods", "dels"):
            lst_ = case.get(key, [])
            for i in range(len(lst_)):
                yield dict(case, **{key: lst_[:i] + lst_[i + 1:]})
        if case.get("prefix_attr"):
            yield {k: v for k, v in case.items() if k != "prefix_attr"}
        if case.get("deferred"):
            yield dict(case, deferred=False)
        more = case.get("more", [])
        for i in range(len(more)):
            yield dict(case, more=more[:i] + more[i + 1:])
            for m2 in shrink_tree(more[i]):
                yield dict(case, more=more[:i] + [m2] + more[i + 1:])
        yield from (dict(case, tree=t2) for t2 in shrink_tree(t))

    def mutate(self, case, rng):
        for _ in range(30):
            env = dict(case["env"])
            if env and rng.random() < 0.5:
                env[rng.choice(list(env))] = rng.choice(VALUES)
            else:
                env["INVOKE_" + rng.choice(["A", "A_B", "B"])] = rng.choice(VALUES)
            yield dict(case, env=env)
        # the value-class dimension: every leaf of the defaults level as an instance of each subclass of its
        # kind (and every subclass leaf as the plain builtin), its variable present
        eff = case["prefix"].upper() + "_"
        shadow = [case.get("more", []), case.get("mods", []), case.get("dels", []), case.get("history", [])]
        t = case["tree"]
        leaves = list(gt.leaf_paths(base_tree(t)))
        rng.shuffle(leaves)
        for pth, old in leaves[:6]:
            cur = json_at(t, pth)
            var = eff + "_".join(pth).upper()
            if is_sub(cur):
                yield dict(case, tree=json_set(t, pth, cur["v"]))
            for cls in wrap_choices(old):
                vals = NONNUM if cls == "Color" else VALUES
                env = dict(case["env"])
                env[var] = env[var] if var in env and env[var] in vals else rng.choice(vals)
                c2 = dict(case, tree=json_set(t, pth, {"__sub__": cls, "v": gt.jsonable(old)}), env=env)
                yield c2
                if any(shadow):
                    yield {k: v for k, v in c2.items() if k not in ("more", "mods", "dels", "history", "deferred")}


def sub_annotation(case):
    """{path: class name} for the settings of the merged configuration that hold a subclass instance:
    the last level defining a path decides; a runtime modification writes a plain value"""
    ann = {}
    for lvl in [case["tree"]] + case.get("more", []):
        subs = dict(sub_leaves(lvl))
        for p_, _v in gt.leaf_paths(base_tree(lvl)):
            if p_ in subs:
                ann[p_] = subs[p_]
            else:
                ann.pop(p_, None)
    for m in case.get("mods", []):
        ann.pop(tuple(m[0]), None)
    return ann


def add_subclass_leaves(rng, case, eff, k=1):
    """wrap up to k leaves of the merged configuration into subclass markers, in the last level that
    defines them (paths touched by runtime edits are left alone); set their variables"""
    levels = [case["tree"]] + case.get("more", [])
    full = base_tree(levels[0])
    for lv in levels[1:]:
        full = merge_py(full, base_tree(lv))
    edited = [tuple(m[0]) for m in case.get("mods", [])] + [tuple(d) for d in case.get("dels", [])]
    cands = [(p_, v) for p_, v in gt.leaf_paths(full)
             if p_ and wrap_choices(v) and not any(p_[:len(q)] == q or q[:len(p_)] == p_ for q in edited)]
    rng.shuffle(cands)
    # list/tuple settings first half of the time (the rejected kinds are the rarer leaves)
    if rng.random() < 0.5:
        cands.sort(key=lambda pv: not isinstance(pv[1], (list, tuple)))
    for p_, v in cands[:k]:
        cls = rng.choice(wrap_choices(v))
        for i in range(len(levels) - 1, -1, -1):
            cur = json_at(levels[i], p_)
            if cur is not None and not (isinstance(cur, dict) and "__tuple__" not in cur):
                levels[i] = json_set(levels[i], p_, {"__sub__": cls, "v": cur})
                break
        else:
            continue
        var = eff + "_".join(p_).upper()
        if cls == "Color":
            # an IntEnum setting is only ever given non-numeric text (see `assumptions`)
            if var in case["env"] or rng.random() < 0.8:
                case["env"][var] = rng.choice(NONNUM)
        elif rng.random() < 0.8:
            case["env"].setdefault(var, rng.choice(VALUES + ["db1", "web1,web2"]))
    case["tree"] = levels[0]
    if len(levels) > 1:
        case["more"] = levels[1:]


def subclass_family(tier):
    """every subclass kind x position (top level / nested / beside an ordinary setting) x a few values,
    variable present or absent"""
    bases = {"HostList": [["web1", "web2"], []], "Pair": [("a", "b")], "Endpoint": [("localhost", "22"), ()],
             "Port": [22, 0], "Color": [1], "Label": ["old", ""], "Mode": ["fast"]}
    values = ["db1", "", "0", "5"] if tier == "quick" else ["db1", "", "0", "5", "-3", "fast", "old", "1.5", "web1"]
    for cls, bs in bases.items():
        for b_ in bs:
            leaf = {"__sub__": cls, "v": gt.jsonable(b_)}
            for val in values:
                if cls == "Color" and val not in NONNUM and val != "db1":
                    continue
                yield {"tree": {"hosts": leaf, "n": 1}, "prefix": "invoke", "env": {"INVOKE_HOSTS": val, "INVOKE_N": "2"}}
                yield {"tree": {"deploy": {"hosts": leaf}, "n": 1}, "prefix": "invoke",
                       "env": {"INVOKE_DEPLOY_HOSTS": val, "INVOKE_N": "2"}}
                yield {"tree": {"n": 1}, "more": [{"deploy": {"hosts": leaf}}], "deferred": val == "",
                       "prefix": "", "env": {"_DEPLOY_HOSTS": val}}
            yield {"tree": {"hosts": leaf, "n": 1}, "prefix": "invoke", "env": {"INVOKE_N": "2", "HOSTS": "x"}}


def same_kind(rng, v):
    if v is None:
        return rng.choice([None, "set"])
    if isinstance(v, bool):
        return not v
    if isinstance(v, int):
        return v + 10
    if isinstance(v, str):
        return v + "~"
    return v


def real_defaults():
    from invoke.config import Config
    d = gt.deep_view(Config.global_defaults())
    d.pop("runners", None)
    d["run"]["echo_format"] = "{command}"
    return d


SECTION_KEYS = ("foo", "bar", "c", "A")


def overlay(rng, base):
    """a type-consistent further level over [base]: same kind at shared paths, plus new keys"""
    out = {}
    for k, v in base.items():
        if rng.random() < 0.5:
            continue
        if isinstance(v, dict):
            out[k] = overlay(rng, v)
        elif v is None:
            out[k] = None
        elif isinstance(v, bool):
            out[k] = not v
        elif isinstance(v, int):
            out[k] = v + 1
        elif isinstance(v, str):
            out[k] = v + "!"
        else:
            out[k] = v
    # new keys: whether a key is a section is a function of its name, so that levels drawn
    # independently (and earlier lives of the same Config) stay type-consistent with each other
    for k in rng.sample(gt.KEYS, rng.randint(0, 2)):
        if k not in base:
            if k in SECTION_KEYS:
                out[k] = {rng.choice([x for x in gt.KEYS if x not in SECTION_KEYS]): gt.leaf(rng, "bis")}
            else:
                out[k] = gt.leaf(rng, "nbis")
    return out


def merge_py(a, b):
    out = dict(a)
    for k, v in b.items():
        if isinstance(v, dict) and isinstance(out.get(k), dict):
            out[k] = merge_py(out[k], v)
        else:
            out[k] = v
    return out


def shrink_tree(t):
    if not isinstance(t, dict) or "__tuple__" in t or is_sub(t):
        return
    for k in list(t):
        t2 = dict(t)
        del t2[k]
        yield t2
    for k, v in t.items():
        if isinstance(v, dict) and "__tuple__" not in v and not is_sub(v):
            for v2 in shrink_tree(v):
                t2 = dict(t)
                t2[k] = v2
                yield t2
            t2 = dict(t)
            t2[k] = 1
            yield t2


PROP = C16()
