"""C16: environment variables override exactly the existing settings they name."""
import os

from .. import coqterm as ct
from .. import gen_tree as gt
from ..core import Prop

VALUES = ["", "0", "1", "5", "-3", "+7", "007", "abc", "1.5", "true", "false", "False", "x y", "no", "off", "00", "None", "-", "0.0"]


class C16(Prop):
    id = "C16"
    corr_module = "Corr.C16Corr"
    quick_n = 1500
    thorough_n = 30000
    rule = ("random config trees (depth<=3, keys with underscores/case variants so that distinct paths collide), "
            "all leaf kinds, environments built from the tree's own variable names (70%) plus unrelated/"
            "near-miss names; non-trivial = at least one variable of the environment names an existing "
            "leaf or the tree is ambiguous; distinct by (tree, prefix, env)")
    trusted_base = [
        "Coq 8.16.1 kernel + vm_compute (shard evaluation)",
        "hand-written model coq/Model/EnvModel.v tied to invoke/env.py by differential execution (this run)",
        "harness/coqterm.py term printer; harness/props/c16.py generator and canonicaliser",
        "CPython 3.12 executing /repo",
    ]
    assumptions = [
        "keys and values are ASCII; int conversion restricted to [+-]?[0-9]+ or clearly non-numeric strings",
        "float/custom-class leaves not modelled",
        "the config consists of the defaults level only (other levels: C03)",
    ]
    not_modelled = ["os.environ access itself (environment passed as a mapping)", "float leaves"]

    def generate(self, rng, tier, n):
        for _ in range(n):
            t = gt.tree(rng, depth=rng.choice([1, 2, 2, 3]), width=rng.choice([2, 3, 4]),
                        kinds="nbisslt", allow_empty=True)
            if rng.random() < 0.1:
                # the library's own default tree (class-valued and escape-bearing leaves left out)
                t = merge_py(real_defaults(), {k: v for k, v in t.items() if k not in ("run", "sudo", "tasks", "timeouts")})
            prefix = rng.choice(["invoke", "invoke", "my_app", "X", ""])
            eff = prefix.upper() + "_"
            names = ["_".join(p).upper() for p, _ in gt.leaf_paths(t)]
            env = {}
            for p_, old in gt.leaf_paths(t):
                nm = "_".join(p_).upper()
                if isinstance(old, (list, tuple)):
                    if rng.random() < 0.15:       # rejected kinds: keep them rare
                        env[eff + nm] = rng.choice(VALUES)
                elif rng.random() < 0.6:
                    if isinstance(old, int) and not isinstance(old, bool) and rng.random() < 0.8:
                        env[eff + nm] = rng.choice(["0", "1", "5", "-3", "+7", "007", "00", "12345678901234567890"])
                    else:
                        env[eff + nm] = rng.choice(VALUES)
            for _ in range(rng.randint(0, 3)):
                kind = rng.random()
                if kind < 0.4:
                    env[eff + rng.choice(["ZZZ", "A_B_Q", "NOPE", "A"])] = rng.choice(VALUES)
                elif kind < 0.7 and names:
                    env[rng.choice(names)] = rng.choice(VALUES)      # unprefixed
                elif names:
                    env[eff.lower() + rng.choice(names)] = rng.choice(VALUES)  # wrong case
            case = {"tree": gt.jsonable(t), "prefix": prefix, "env": env}
            # 40%: further levels (collection, overrides), loaded eagerly or with deferred merging
            if rng.random() < 0.4:
                more = [gt.jsonable(overlay(rng, t)) for _ in range(rng.randint(1, 2))]
                allnames = set()
                for lv in more:
                    allnames.update("_".join(pp).upper() for pp, _ in gt.leaf_paths(gt.unjson(lv)))
                for nm in allnames:
                    if rng.random() < 0.6:
                        env[eff + nm] = rng.choice(VALUES)
                case["more"] = more
                case["deferred"] = rng.random() < 0.6
            yield case

    def enumerate_small(self, tier):
        # all trees over keys {a, b, a_b} x depth<=2 with int/bool leaves, one env value each
        import itertools
        leaves = [1, True]
        subs = [{"b": 1}, {"b": True, "a": 2}]
        opts = [None] + leaves + subs
        for a, ab, b in itertools.product(opts, opts, opts):
            t = {}
            if a is not None:
                t["a"] = a
            if ab is not None:
                t["a_b"] = ab
            if b is not None:
                t["A"] = b
            for val in ["0", "x"]:
                env = {"INVOKE_A_B": val, "INVOKE_A": val, "INVOKE_A_B_B": val}
                yield {"tree": gt.jsonable(t), "prefix": "invoke", "env": env}

    def run_impl(self, case):
        from invoke.config import Config
        tree = gt.unjson(case["tree"])
        prefix = case["prefix"]

        class Cfg(Config):
            env_prefix = prefix

            @staticmethod
            def global_defaults():
                return {}
        saved = dict(os.environ)
        try:
            os.environ.clear()
            os.environ.update(case["env"])
            cfg = Cfg(defaults=tree, lazy=True)
            try:
                more = [gt.unjson(m) for m in case.get("more", [])]
                merge_now = not case.get("deferred", False)
                if len(more) >= 1:
                    cfg.load_collection(more[0], merge=merge_now)
                if len(more) >= 2:
                    cfg.load_overrides(more[1], merge=merge_now)
                cfg.load_shell_env()
            except Exception as e:
                return {"err": type(e).__name__}
            return {"ok": gt.jsonable(gt.deep_view(cfg._env))}
        finally:
            os.environ.clear()
            os.environ.update(saved)

    def to_coq(self, case, obs):
        env = ct.lst([ct.pair(ct.s(k), ct.s(v)) for k, v in case["env"].items()])
        o = ct.result(obs, lambda d: ct.tree(gt.unjson(d)))
        more = ct.lst([ct.tree(gt.unjson(m)) for m in case.get("more", [])])
        return "(mk %s %s %s %s %s)" % (ct.tree(gt.unjson(case["tree"])), more, ct.s(case["prefix"]), env, o)

    def nontrivial(self, case, obs):
        t = gt.unjson(case["tree"])
        for m in case.get("more", []):
            t = merge_py(t, gt.unjson(m))
        eff = case["prefix"].upper() + "_"
        names = [eff + "_".join(p).upper() for p, _ in gt.leaf_paths(t)]
        return len(set(names)) < len(names) or any(nm in case["env"] for nm in names)

    def classify(self, case, obs):
        lv = "levels:%d%s " % (1 + len(case.get("more", [])), "(deferred)" if case.get("deferred") else "")
        return lv + ("err:" + obs["err"] if "err" in obs else
                     ("applied:%d" % min(3, len(list(gt.leaf_paths(gt.unjson(obs["ok"])))))))

    def shrink_candidates(self, case):
        t = case["tree"]
        env = case["env"]
        for k in list(env):
            e2 = dict(env)
            del e2[k]
            yield dict(case, env=e2)
        more = case.get("more", [])
        for i in range(len(more)):
            yield dict(case, more=more[:i] + more[i + 1:])
            for m2 in shrink_tree(more[i]):
                yield dict(case, more=more[:i] + [m2] + more[i + 1:])
        yield from (dict(case, tree=t2) for t2 in shrink_tree(t))

    def mutate(self, case, rng):
        for _ in range(30):
            env = dict(case["env"])
            if env and rng.random() < 0.5:
                env[rng.choice(list(env))] = rng.choice(VALUES)
            else:
                env["INVOKE_" + rng.choice(["A", "A_B", "B"])] = rng.choice(VALUES)
            yield dict(case, env=env)


def real_defaults():
    from invoke.config import Config
    d = gt.deep_view(Config.global_defaults())
    d.pop("runners", None)
    d["run"]["echo_format"] = "{command}"
    return d


def overlay(rng, base):
    """a type-consistent further level over [base]: same kind at shared paths, plus new keys"""
    out = {}
    for k, v in base.items():
        if rng.random() < 0.5:
            continue
        if isinstance(v, dict):
            out[k] = overlay(rng, v)
        elif v is None:
            out[k] = None
        elif isinstance(v, bool):
            out[k] = not v
        elif isinstance(v, int):
            out[k] = v + 1
        elif isinstance(v, str):
            out[k] = v + "!"
        else:
            out[k] = v
    for k in rng.sample(gt.KEYS, rng.randint(0, 2)):
        if k not in base:
            out[k] = gt.leaf(rng, "nbis") if rng.random() < 0.7 else {rng.choice(gt.KEYS): gt.leaf(rng, "bis")}
    return out


def merge_py(a, b):
    out = dict(a)
    for k, v in b.items():
        if isinstance(v, dict) and isinstance(out.get(k), dict):
            out[k] = merge_py(out[k], v)
        else:
            out[k] = v
    return out


def shrink_tree(t):
    if not isinstance(t, dict) or "__tuple__" in t:
        return
    for k in list(t):
        t2 = dict(t)
        del t2[k]
        yield t2
    for k, v in t.items():
        if isinstance(v, dict) and "__tuple__" not in v:
            for v2 in shrink_tree(v):
                t2 = dict(t)
                t2[k] = v2
                yield t2
            t2 = dict(t)
            t2[k] = 1
            yield t2


PROP = C16()
