"""Python values -> Coq terms (text).  Everything printed here is parsed by coqc
inside a shard, so the only trusted part is that these printers denote the
Python value they were given."""


def s(x: str) -> str:
    """Coq [string] literal.  Printable ASCII goes in a literal; anything else
    through [str_of_codes] (Common/Shard.v)."""
    if all(32 <= ord(c) <= 126 for c in x):
        return '"' + x.replace('"', '""') + '"'
    b = x.encode("utf-8", "surrogateescape")
    return "(str_of_codes [" + ";".join(str(c) for c in b) + "])"


def z(x: int) -> str:
    return "(%d)%%Z" % x


def n(x: int) -> str:
    assert x >= 0
    return "%d%%nat" % x


def b(x: bool) -> str:
    return "true" if x else "false"


def lst(items) -> str:
    return "[" + "; ".join(items) + "]"


def opt(x) -> str:
    return "None" if x is None else "(Some %s)" % x


def pair(a, c) -> str:
    return "(%s, %s)" % (a, c)


def strs(xs) -> str:
    return lst([s(x) for x in xs])


def byteslist(bs: bytes) -> str:
    return "[" + ";".join(str(c) for c in bs) + "]"


# --- config values / trees (Common/Tree.v) --------------------------------
def value(v) -> str:
    if v is None:
        return "VNone"
    if v is True or v is False:
        return "(VBool %s)" % b(v)
    if isinstance(v, int):
        return "(VInt %s)" % z(v)
    if isinstance(v, str):
        return "(VStr %s)" % s(v)
    if isinstance(v, list):
        return "(VList %s)" % strs([str(i) for i in v])
    if isinstance(v, tuple):
        return "(VTuple %s)" % strs([str(i) for i in v])
    raise TypeError("no Coq value for %r" % (v,))


def tree(t) -> str:
    if isinstance(t, dict):
        return "(Node %s)" % lst([pair(s(k), tree(v)) for k, v in t.items()])
    return "(Leaf %s)" % value(t)


ERR = {
    "KeyError": "EKey", "AttributeError": "EAttr", "ValueError": "EValue",
    "TypeError": "EType", "AmbiguousMergeError": "EAmbigMerge",
    "AmbiguousEnvVar": "EAmbigEnv", "UncastableEnvVar": "EUncastable",
    "ParseError": "EParse",
}


def err(name: str) -> str:
    return ERR.get(name, "EOther")


def result(obs, ok_printer) -> str:
    """obs = {"ok": v} or {"err": "ClassName"}"""
    if "err" in obs:
        return "(Err %s)" % err(obs["err"])
    return "(Ok %s)" % ok_printer(obs["ok"])
